"""Tie T: run real end-to-end scenarios (harness/vh-e2e) and evaluate property oracles on the traces.
A scenario is a dict of vh-e2e parameters; all randomness inside the run is derived from `seed`."""
import concurrent.futures
import os
import re
import subprocess

import quicparse as qp
from vlib import harness_bin


class Rec:
    __slots__ = ("kind", "t", "ep", "conn", "space", "pn", "payload", "_frames", "name", "text", "what", "args",
                 "src", "dst", "len", "action", "at", "head", "idx", "orig")

    def __init__(self, kind):
        self.kind = kind
        self._frames = None

    @property
    def frames(self):
        if self._frames is None:
            try:
                self._frames = qp.parse_frames(self.payload)
            except qp.ParseError as e:
                self._frames = [{"type": "PARSE_ERROR", "msg": str(e)}]
        return self._frames


class Trace:
    def __init__(self, params, text):
        self.params = params
        self.recs = []
        self.end = None
        self.panics = []
        self.attack = None
        for idx, line in enumerate(text.split("\n")):
            if not line:
                continue
            k, _, rest = line.partition(" ")
            if k in ("txp", "rxp"):
                f = rest.split(" ")
                r = Rec(k)
                r.t = int(f[0]); r.ep = f[1]; r.conn = f[2]; r.space = f[3]; r.pn = int(f[4])
                r.payload = bytes.fromhex(f[5]) if f[5] != "-" else b""
            elif k == "ev":
                f = rest.split(" ", 4)
                r = Rec(k)
                r.t = int(f[0]); r.ep = f[1]; r.conn = f[2]; r.name = f[3]; r.text = f[4] if len(f) > 4 else ""
            elif k == "app":
                f = rest.split(" ")
                r = Rec(k)
                r.t = int(f[0]); r.ep = f[1]; r.what = f[2]; r.args = f[3:]
            elif k == "wire":
                f = rest.split(" ")
                r = Rec(k)
                r.t = int(f[0]); r.src = f[1]; r.dst = f[2]; r.len = int(f[3]); r.action = f[4]
                r.at = int(f[5]) if f[5] != "-" else None
                r.head = bytes.fromhex(f[6]) if len(f) > 6 and f[6] != "-" else b""
                # datagrams altered in flight carry the length their sender put on the wire as an extra token `o<len>`
                r.orig = int(f[7][1:]) if len(f) > 7 and f[7].startswith("o") else r.len
            elif k == "end":
                f = rest.split(" ", 2)
                self.end = (int(f[0]), f[1], f[2] if len(f) > 2 else "")
                continue
            elif k == "panic-hook":
                self.panics.append(rest)
                continue
            elif k == "attack":
                f = rest.split(" ")
                self.attack = {"t": int(f[0]), "name": f[3], "pn": int(f[4]), "ep": f[1], "conn": f[2],
                               "space": f[5] if len(f) > 5 else "app"}
                r = Rec("attack"); r.t = int(f[0]); r.ep = f[1]
            else:
                continue
            r.idx = idx
            self.recs.append(r)

    def of(self, kind):
        return [r for r in self.recs if r.kind == kind]


def args_of(params):
    return [f"{k}={v}" for k, v in params.items()]


def run_one(params, timeout=300):
    cmd = [harness_bin("vh-e2e")] + args_of(params)
    try:
        p = subprocess.run(cmd, stdout=subprocess.PIPE, stderr=subprocess.PIPE, timeout=timeout)
        text = p.stdout.decode("utf-8", "replace")
        if p.returncode != 0 and "end " not in text[-400:]:
            text += f"\nend 0 crashed rc={p.returncode} {p.stderr.decode('utf-8', 'replace')[-300:]!r}\n"
    except subprocess.TimeoutExpired as e:
        text = (e.stdout or b"").decode("utf-8", "replace") + "\nend 0 wallclock-timeout\n"
    return text


_TRACE_CACHE = {}      # scenario (canonical json) -> Trace; several parts of one ./check run ask for the same scenarios


def run_many(scenarios, workers=14, timeout=300):
    import json
    keys = [json.dumps(p, sort_keys=True) for p in scenarios]
    todo = [(k, p) for k, p in dict(zip(keys, scenarios)).items() if k not in _TRACE_CACHE]
    with concurrent.futures.ThreadPoolExecutor(max_workers=workers) as ex:
        texts = list(ex.map(lambda kp: run_one(kp[1], timeout), todo))
    fresh = {k: Trace(p, t) for (k, p), t in zip(todo, texts)}
    out = [fresh[k] if k in fresh else _TRACE_CACHE[k] for k in keys]
    for k, tr in fresh.items():
        if len(_TRACE_CACHE) < 256:      # bounded: the thorough tier runs thousands of scenarios
            _TRACE_CACHE[k] = tr
    return out


# ---------------------------------------------------------------------------------------
# helpers over traces
# ---------------------------------------------------------------------------------------

def peer(ep):
    return "s" if ep == "c" else "c"


def stream_initiator(sid):
    return "c" if sid & 1 == 0 else "s"


def stream_is_bidi(sid):
    return sid & 2 == 0


TP_RE = re.compile(r"(\w+): ([^,}]+)")


def parse_tp(text):
    """fields of TransportParametersReceived debug text -> dict of ints where possible"""
    d = {}
    for m in TP_RE.finditer(text):
        k, v = m.group(1), m.group(2).strip()
        if re.fullmatch(r"\d+", v):
            d[k] = int(v)
        else:
            d[k] = v
    return d


def dur_us(s):
    """parse a Rust Duration debug rendering (e.g. 76.999ms, 1.5s, 250µs, 0ns) into microseconds (float)"""
    m = re.fullmatch(r"([0-9.]+)(ns|µs|us|ms|s)", s.strip())
    if not m:
        return None
    v = float(m.group(1))
    return v * {"ns": 1e-3, "µs": 1.0, "us": 1.0, "ms": 1e3, "s": 1e6}[m.group(2)]


HDR_RE = re.compile(r"packet_header: (\w+)(?: \{ number: (\d+))?")


def hdr(text):
    m = HDR_RE.search(text)
    if not m:
        return None, None
    kind = {"Initial": "initial", "Handshake": "handshake", "OneRtt": "app", "ZeroRtt": "app"}.get(m.group(1), m.group(1))
    return kind, int(m.group(2)) if m.group(2) else None


# ---------------------------------------------------------------------------------------
# oracles: each returns a list of (signature, message)
# ---------------------------------------------------------------------------------------

def o_c01(tr):
    """bytes read are a prefix of bytes written; clean EOF => complete"""
    bad = []
    written = {}     # (writer ep, sid) -> total accepted
    reset = set()
    for r in tr.of("app"):
        if r.what == "write":
            written[(r.ep, int(r.args[0]))] = int(r.args[1]) + int(r.args[2])
        elif r.what == "reset":
            reset.add((r.ep, int(r.args[0])))
    send_err = {(r.ep, int(r.args[0])) for r in tr.of("app") if r.what == "err" and r.args and r.args[0].isdigit() and len(r.args) > 1 and r.args[1] in ("send", "close", "finish")}
    read_off = {}
    for r in tr.of("app"):
        if r.what == "read":
            sid, off, ln = int(r.args[0]), int(r.args[1]), int(r.args[2])
            if r.args[3] != "ok":
                bad.append(("e2e:c01:wrong-bytes", f"endpoint {r.ep} stream {sid}: byte at offset {r.args[4]} differs from what the peer wrote (read at {off}+{ln})"))
            exp = read_off.get((r.ep, sid), 0)
            if off != exp:
                bad.append(("e2e:c01:gap", f"endpoint {r.ep} stream {sid}: read at {off}, expected {exp}"))
            read_off[(r.ep, sid)] = off + ln
            w = written.get((peer(r.ep), sid), 0)
            if off + ln > w and (peer(r.ep), sid) not in send_err:
                # (a writer whose last call failed may have had part of that call accepted: unknown amount)
                bad.append(("e2e:c01:more-than-written", f"endpoint {r.ep} stream {sid}: read up to {off + ln} but peer wrote {w}"))
        elif r.what == "eof":
            sid, total = int(r.args[0]), int(r.args[1])
            w = written.get((peer(r.ep), sid), 0)
            if (peer(r.ep), sid) in reset and total != w:
                bad.append(("e2e:c01:eof-after-reset", f"endpoint {r.ep} stream {sid}: clean EOF after {total} bytes although the sender reset the stream after writing {w}"))
            elif total != w and (peer(r.ep), sid) not in send_err:
                bad.append(("e2e:c01:eof-incomplete", f"endpoint {r.ep} stream {sid}: clean EOF after {total} bytes, sender wrote {w}"))
    return bad


class Limits:
    """what endpoint `ep` has been granted by its peer, reconstructed from the trace"""
    def __init__(self):
        self.tp = None
        self.max_data = 0
        self.max_stream_data = {}
        self.max_streams = {True: 0, False: 0}

    def stream_limit(self, ep, sid):
        if sid in self.max_stream_data:
            base = self.max_stream_data[sid]
        else:
            base = 0
        if self.tp is None:
            return base
        if stream_is_bidi(sid):
            init = self.tp.get("initial_max_stream_data_bidi_remote", 0) if stream_initiator(sid) == ep else self.tp.get("initial_max_stream_data_bidi_local", 0)
        else:
            init = self.tp.get("initial_max_stream_data_uni", 0)
        return max(base, init)


def declared_tps(tr):
    """{ep: transport parameters that endpoint DECLARED}, read from the TLS messages in its CRYPTO frames"""
    out = {}
    for ep, space in (("c", "initial"), ("s", "handshake")):
        chunks = {}
        for r in tr.recs:
            if r.kind == "txp" and r.ep == ep and r.space == space:
                for f in r.frames:
                    if f["type"] == "CRYPTO":
                        chunks[f["offset"]] = f["data"]
        buf = bytearray()
        for off in sorted(chunks):
            if off > len(buf):
                break
            d = chunks[off]
            if off + len(d) > len(buf):
                buf += d[len(buf) - off:]
        tp = qp.tls_transport_params(bytes(buf))
        if tp:
            out[ep] = tp
    return out


def o_c03(tr):
    """no STREAM/RESET_STREAM beyond the largest limits received"""
    bad = []
    lim = {"c": Limits(), "s": Limits()}
    highest = {"c": {}, "s": {}}     # per stream highest end offset sent
    decl = declared_tps(tr)
    for ep in ("c", "s"):
        tp = decl.get(peer(ep))
        if tp:
            L = lim[ep]
            L.tp = tp
            L.max_data = tp["initial_max_data"]
            L.max_streams[True] = tp["initial_max_streams_bidi"]
            L.max_streams[False] = tp["initial_max_streams_uni"]
    for r in tr.recs:
        if r.kind == "rxp" and r.space == "app":
            L = lim[r.ep]
            for f in r.frames:
                if f["type"] == "MAX_DATA":
                    L.max_data = max(L.max_data, f["max"])
                elif f["type"] == "MAX_STREAM_DATA":
                    L.max_stream_data[f["id"]] = max(L.max_stream_data.get(f["id"], 0), f["max"])
                elif f["type"] == "MAX_STREAMS":
                    L.max_streams[f["bidi"]] = max(L.max_streams[f["bidi"]], f["max"])
        elif r.kind == "txp" and r.space == "app":
            if tr.attack and r.ep == tr.attack.get("ep", "c"):
                continue      # the attacker's own packets are not the implementation's choice
            L = lim[r.ep]
            H = highest[r.ep]
            for f in r.frames:
                if f["type"] in ("STREAM", "RESET_STREAM"):
                    sid = f["id"]
                    end = f["offset"] + len(f["data"]) if f["type"] == "STREAM" else f["final_size"]
                    sl = L.stream_limit(r.ep, sid)
                    what = "stream data" if f["type"] == "STREAM" else "RESET_STREAM final size"
                    if end > sl:
                        bad.append((f"e2e:c03:stream-limit:{f['type'].lower()}", f"endpoint {r.ep} sent {what} up to {end} on stream {sid}, peer granted {sl} (packet {r.pn})"))
                    H[sid] = max(H.get(sid, 0), end)
                    total = sum(H.values())
                    if total > L.max_data:
                        bad.append((f"e2e:c03:conn-limit:{f['type'].lower()}", f"endpoint {r.ep}: sum of stream lengths {total} exceeds MAX_DATA {L.max_data} (packet {r.pn})"))
                    if stream_initiator(sid) == r.ep:
                        n = sid // 4 + 1
                        if n > L.max_streams[stream_is_bidi(sid)]:
                            bad.append(("e2e:c03:max-streams", f"endpoint {r.ep} used stream {sid} (#{n}) beyond MAX_STREAMS {L.max_streams[stream_is_bidi(sid)]}"))
    return bad


def expected_byte_fn(tr):
    """payload oracle: keyed bytes exactly as harness/vh-e2e/src/cfg.rs"""
    M = (1 << 64) - 1

    def mix(z):
        z = (z + 0x9e3779b97f4a7c15) & M
        z = ((z ^ (z >> 30)) * 0xbf58476d1ce4e5b9) & M
        z = ((z ^ (z >> 27)) * 0x94d049bb133111eb) & M
        return z ^ (z >> 31)

    seed = int(tr.params.get("seed", 1))

    def key(sid, from_server):
        return mix(((seed * 0x100000001b3) & M) ^ ((sid * 0x9e3779b97f4a7c15) & M) ^ (0x5555 if from_server else 0))

    def data(sid, from_server, off, n):
        k = key(sid, from_server)
        out = bytearray(n)
        i = off
        j = 0
        while j < n:
            w = mix(k ^ (((i >> 3) * 0xd6e8feb86659fd93) & M))
            b = w.to_bytes(8, "little")
            s = i & 7
            take = min(8 - s, n - j)
            out[j:j + take] = b[s:s + take]
            i += take
            j += take
        return bytes(out)
    return data


def o_c12(tr):
    """everything an endpoint sends on a stream is self-consistent (and equals what the app wrote)"""
    bad = []
    data_fn = expected_byte_fn(tr)
    final = {}      # (ep, sid) -> (size, how)
    maxend = {}
    reset_sent = {}
    closed_at = {}  # ep -> index of first CONNECTION_CLOSE tx
    for r in tr.recs:
        if r.kind != "txp":
            continue
        if tr.attack and r.ep == tr.attack.get("ep", "c"):
            continue
        ep = r.ep
        types = [f["type"] for f in r.frames]
        if ep in closed_at:
            if any(t not in ("CONNECTION_CLOSE", "PADDING") for t in types):
                bad.append(("e2e:c12:frames-after-close", f"endpoint {ep} sent {sorted(set(types))} after CONNECTION_CLOSE (packet {r.space}/{r.pn})"))
        if "CONNECTION_CLOSE" in types and ep not in closed_at:
            closed_at[ep] = r.idx
        if r.space != "app":
            continue
        for f in r.frames:
            if f["type"] == "STREAM":
                sid = f["id"]
                k = (ep, sid)
                off, d = f["offset"], f["data"]
                end = off + len(d)
                if k in reset_sent:
                    if len(d) == 0 and off == 0 and not f["fin"] and open_notify_is_retransmission(tr, ep, sid, r.idx):
                        bad.append(("e2e:c12:stream-after-reset:empty-open-notify", f"endpoint {ep} re-sent the empty stream-open STREAM frame on {sid} after its RESET_STREAM (packet {r.pn})"))
                    else:
                        bad.append(("e2e:c12:stream-after-reset", f"endpoint {ep} sent STREAM on {sid} after RESET_STREAM (packet {r.pn})"))
                exp = data_fn(sid, ep == "s", off, len(d))
                if d != exp:
                    j = next(i for i in range(len(d)) if d[i] != exp[i])
                    bad.append(("e2e:c12:bytes-differ", f"endpoint {ep} stream {sid}: byte at offset {off + j} on the wire differs from what the application wrote / first sent (packet {r.pn})"))
                if k in final and end > final[k][0]:
                    bad.append(("e2e:c12:data-beyond-final", f"endpoint {ep} stream {sid}: data up to {end} beyond final size {final[k][0]}"))
                if f["fin"]:
                    if k in final and final[k][0] != end:
                        bad.append(("e2e:c12:final-size-changed", f"endpoint {ep} stream {sid}: final size {final[k][0]} then {end}"))
                    if end < maxend.get(k, 0):
                        bad.append(("e2e:c12:final-below-sent", f"endpoint {ep} stream {sid}: final size {end} below data already sent {maxend[k]}"))
                    final.setdefault(k, (end, "fin"))
                maxend[k] = max(maxend.get(k, 0), end)
            elif f["type"] == "RESET_STREAM":
                k = (ep, f["id"])
                fs = f["final_size"]
                if k in final and final[k][0] != fs:
                    bad.append(("e2e:c12:final-size-changed", f"endpoint {ep} stream {f['id']}: final size {final[k][0]} then RESET_STREAM {fs}"))
                if fs < maxend.get(k, 0):
                    bad.append(("e2e:c12:final-below-sent", f"endpoint {ep} stream {f['id']}: RESET_STREAM final size {fs} below data already sent {maxend[k]}"))
                final.setdefault(k, (fs, "reset"))
                reset_sent[k] = r.idx
            elif f["type"] == "STREAM_DATA_BLOCKED":
                if (ep, f["id"]) in reset_sent:
                    bad.append(("e2e:c12:blocked-after-reset", f"endpoint {ep} sent STREAM_DATA_BLOCKED on {f['id']} after RESET_STREAM"))
    # close packets only in response to incoming packets: every copy after the first CONNECTION_CLOSE must be
    # preceded by a datagram that reached the endpoint since the previous close packet was sent
    client_addr = next((w.src for w in tr.of("wire")), None)
    for ep, idx0 in closed_at.items():
        arrivals = sorted(w.at for w in tr.of("wire") if w.at is not None and ((w.dst == client_addr) == (ep == "c")))
        prev_t = None
        for r in tr.recs:
            if r.kind != "txp" or r.ep != ep or r.idx < idx0:
                continue
            if not any(f["type"] == "CONNECTION_CLOSE" for f in r.frames):
                continue
            if prev_t is not None and r.t > prev_t:
                if not any(prev_t < a <= r.t for a in arrivals):
                    bad.append(("e2e:c12:unsolicited-close", f"endpoint {ep} sent a further copy of its close packet at {r.t}us although no datagram reached it since the previous one at {prev_t}us"))
                    break
            prev_t = r.t
    bad += close_copies(tr, closed_at, client_addr)
    return bad


_ACK_RX_RE = re.compile(r"packet_header: OneRtt.*ack_range: (\d+)\.\.=(\d+)")


def open_notify_is_retransmission(tr, ep, sid, idx):
    """the known finding F9 is about RETRANSMISSION: the empty stream-open STREAM frame of `sid` was already sent in an
    earlier packet that was declared lost, or that the peer has not acknowledged, when the frame goes out again (at record `idx`). An empty STREAM
    frame on a reset stream that is not such a retransmission (no earlier copy, or every earlier copy acknowledged) is a
    different behaviour and is not covered by the finding."""
    earlier = [r.pn for r in tr.recs if r.idx < idx and r.kind == "txp" and r.ep == ep and r.space == "app" and
               any(f["type"] == "STREAM" and f["id"] == sid and f["offset"] == 0 and len(f["data"]) == 0 and not f["fin"] for f in r.frames)]
    if not earlier:
        return False
    acked = set()
    for r in tr.recs:
        if r.idx >= idx:
            break
        if r.kind == "ev" and r.ep == ep and r.name == "recovery:ack_range_received":
            m = _ACK_RX_RE.search(r.text)
            if m:
                lo, hi = int(m.group(1)), int(m.group(2))
                acked.update(pn for pn in earlier if lo <= pn <= hi)
        elif r.kind == "ev" and r.ep == ep and r.name == "recovery:packet_lost" and "OneRtt" in r.text:
            m = re.search(r"number: (\d+)", r.text)
            if m and int(m.group(1)) in earlier:
                return True      # an earlier copy was declared lost (a late acknowledgement does not cancel the retransmission)
    return any(pn not in acked for pn in earlier)


_ENDPOINT_ACTIONS = ("deliver", "drop", "drop-small", "blackhole", "mtu-drop", "corrupt-flip", "corrupt-truncate", "corrupt-splice")
_DUR_RE = re.compile(r"latest_rtt: ([0-9.]+)(ns|µs|us|ms|s)\b")
_DUR_US = {"ns": 0.001, "µs": 1.0, "us": 1.0, "ms": 1000.0, "s": 1000000.0}


def close_copies(tr, closed_at, client_addr):
    """copies of the close packet are re-sent bytes: they never pass the packet interceptor and only show up as
    datagrams on the simulated wire. In the closing state an endpoint sends nothing else, so every datagram it puts on
    the wire after the one carrying its first CONNECTION_CLOSE must (1) be byte-identical to that datagram (same length,
    same leading bytes) and (2) answer an incoming datagram: close_sender.rs arms a timer of one `latest_rtt` when a
    datagram is attributed to the closing connection and sends the copy when it fires, so a copy at time t needs a
    datagram that reached the endpoint at t - latest_rtt (within a millisecond: timer granularity, rounding of the reported rtt), and two copies need
    two different such datagrams."""
    bad = []
    wires = tr.of("wire")
    for ep, idx0 in closed_at.items():
        t0 = next(r.t for r in tr.recs if r.idx == idx0)
        # datagrams the endpoint itself put on the wire (not the adversary's injections, replays or duplicates)
        mine = [w for w in wires if ((w.src == client_addr) == (ep == "c")) and w.t >= t0 and w.action in _ENDPOINT_ACTIONS]
        first = [w for w in mine if w.t == t0 and not w.action.startswith("corrupt")]
        later = [w for w in mine if w.t > t0]
        if not first or not later:
            continue
        ref = (first[-1].orig, first[-1].head)
        arrivals = sorted(w.at for w in wires if w.at is not None and w.at >= t0 and ((w.dst == client_addr) == (ep == "c")))
        rtts = []
        for r in tr.recs:
            if r.kind == "ev" and r.ep == ep and r.name == "recovery:metrics_updated":
                m = _DUR_RE.search(r.text)
                if m:
                    rtts.append((r.t, float(m.group(1)) * _DUR_US[m.group(2)]))
        used = set()
        for w in later:
            if not w.action.startswith("corrupt") and (w.orig, w.head) != ref:      # (altered in flight: bytes unknown)
                bad.append(("e2e:c12:not-a-close-copy", f"endpoint {ep} put a datagram of {w.orig} bytes on the wire at {w.t}us, after its CONNECTION_CLOSE at {t0}us, that is not a copy of the close datagram ({ref[0]} bytes)"))
                break
            cand = sorted({v for (t, v) in rtts if t <= w.t})
            if not cand:
                continue
            arm = next((a for a in arrivals if a not in used and a < w.t and any(-1000.0 <= w.t - (a + v) <= 1000.0 for v in cand)), None)
            if arm is None:
                near = [a for a in arrivals if a < w.t][-3:]
                bad.append(("e2e:c12:close-copy-not-armed-by-datagram", f"endpoint {ep} sent a copy of its close packet at {w.t}us, but no datagram reached it one latest_rtt earlier (rtt candidates {cand[-4:]}us; last arrivals before it {near}): the copy was not triggered by an incoming packet"))
                break
            used.add(arm)
    return bad


def o_c08(tr):
    """ACK frames name only packets really processed; packet numbers strictly increase"""
    bad = []
    processed = {}     # (ep, conn, space) -> set
    last_pn = {}
    for r in tr.recs:
        if r.kind == "rxp":
            processed.setdefault((r.ep, r.conn, r.space), set()).add(r.pn)
        elif r.kind == "txp":
            k = (r.ep, r.conn, r.space)
            if k in last_pn and r.pn <= last_pn[k]:
                bad.append(("e2e:c08:pn-not-increasing", f"endpoint {r.ep} {r.space}: packet number {r.pn} after {last_pn[k]}"))
            last_pn[k] = r.pn
            if tr.attack and r.ep == tr.attack.get("ep", "c"):
                continue
            got = processed.get(k, set())
            for f in r.frames:
                if f["type"] == "ACK":
                    for lo, hi in f["ranges"]:
                        if hi - lo > 100000:
                            bad.append(("e2e:c08:ack-unreceived", f"endpoint {r.ep} {r.space}: ACK range {lo}..{hi} absurdly large"))
                            continue
                        for pn in range(lo, hi + 1):
                            if pn not in got:
                                bad.append(("e2e:c08:ack-unreceived", f"endpoint {r.ep} {r.space}: ACK (packet {r.pn}) names {pn} which was never processed"))
                                break
    return bad


def o_c08_prompt(tr, slack_us=3000, eps=("s",)):
    """every processed ack-eliciting packet is acknowledged within max_ack_delay (+ granularity), immediately
    when out of order — checked on receiver-only endpoints (a bulk sender's pacer also delays its ACKs)"""
    bad = []
    mad = {"c": 25000, "s": 25000}
    for ep in ("c", "s"):
        v = int(tr.params.get(f"{ep}.max_ack_delay_ms", 0))
        if v:
            mad[ep] = v * 1000
    pend = {}       # (ep, conn) -> {pn: (t, ooo)}
    largest = {}
    ack_largest_in = {}    # (ep, own pn) -> largest acknowledged carried by that packet's ACK frame
    cutoff = {}            # ep -> RFC 9000 13.2.4 cut-off: largest acknowledged of an ACK frame the peer has acked
    for r in tr.recs:
        if r.kind in ("rxp", "txp") and r.ep not in eps:
            continue
        if r.kind == "rxp" and r.space == "app":
            k = (r.ep, r.conn)
            for f in r.frames:
                if f["type"] == "ACK":
                    for lo, hi in f["ranges"]:
                        if hi - lo > 100000:
                            continue
                        for x in range(lo, hi + 1):
                            v = ack_largest_in.pop((r.ep, x), None)
                            if v is not None:
                                cutoff[r.ep] = max(cutoff.get(r.ep, -1), v)
            if qp.ack_eliciting(r.frames):
                ooo = r.pn != largest.get(k, -1) + 1
                pend.setdefault(k, {})[r.pn] = (r.t, ooo)
            largest[k] = max(largest.get(k, -1), r.pn)
        elif r.kind == "txp" and r.space == "app":
            k = (r.ep, r.conn)
            p = pend.get(k, {})
            for f in r.frames:
                if f["type"] == "ACK":
                    ack_largest_in[(r.ep, r.pn)] = f["largest"]
                    for lo, hi in f["ranges"]:
                        for pn in [x for x in p if lo <= x <= hi]:
                            t0, ooo = p.pop(pn)
                            if r.t - t0 > mad[r.ep] + slack_us:
                                bad.append(("e2e:c08:ack-late", f"endpoint {r.ep}: packet {pn} processed at {t0}us acknowledged only at {r.t}us (max_ack_delay {mad[r.ep]}us)"))
            # the endpoint sent a packet: anything pending longer than the bound is late
            for pn, (t0, ooo) in list(p.items()):
                if r.t - t0 > mad[r.ep] + slack_us:
                    p.pop(pn)
                    if pn <= cutoff.get(r.ep, -1):
                        bad.append(("e2e:c08:ack-skipped:below-acked-ack-frame", f"endpoint {r.ep}: reordered packet {pn} processed at {t0}us is never acknowledged: it is below the largest-acknowledged ({cutoff[r.ep]}) of an ACK frame the peer already acknowledged (RFC 9000 13.2.4 lets the receiver stop tracking it)"))
                    else:
                        bad.append(("e2e:c08:ack-late", f"endpoint {r.ep}: packet {pn} processed at {t0}us still unacknowledged at {r.t}us while the endpoint was sending (max_ack_delay {mad[r.ep]}us)"))
    return bad


def o_c08_prompt_limited(tr, slack_us=5000):
    """ACKs are not congestion controlled: an ack-eliciting packet processed while the endpoint is congestion
    limited (recovery_metrics: congestion_limited, bytes in flight at the window) and stays so must still be
    acknowledged within max_ack_delay. (While limited the endpoint sends no data, so its pacer is idle and the
    known pacing delay of ACK-only packets cannot explain a late ACK.)"""
    bad = []
    for ep in ("c", "s"):
        mad = (int(tr.params.get(f"{ep}.max_ack_delay_ms", 0)) or 25) * 1000
        mets = []          # (t, limited)
        acks = []          # (t, ranges)
        rxs = []           # (t, pn)
        closed_t = None
        for r in tr.recs:
            if r.kind == "ev" and r.ep == ep:
                if r.name == "recovery:metrics_updated":
                    m = metrics(r.text)
                    if m:
                        mets.append((r.t, m["limited"] and m["bif"] + 1500 >= m["cwnd"]))
                elif r.name == "connectivity:connection_closed" and closed_t is None:
                    closed_t = r.t
            elif r.kind == "txp" and r.ep == ep and r.space == "app":
                for f in r.frames:
                    if f["type"] == "ACK":
                        acks.append((r.t, f["ranges"]))
            elif r.kind == "rxp" and r.ep == ep and r.space == "app" and qp.ack_eliciting(r.frames):
                rxs.append((r.t, r.pn))
        end_t = closed_t if closed_t is not None else (tr.end[0] if tr.end else 0)
        import bisect
        mt = [t for t, _ in mets]
        for t0, pn in rxs:
            deadline = t0 + mad + slack_us
            if deadline >= end_t:
                continue
            i = bisect.bisect_right(mt, t0) - 1
            if i < 0 or not mets[i][1]:
                continue
            j = bisect.bisect_right(mt, deadline)
            if any(not lim for _, lim in mets[i:j]):
                continue
            if any(t0 <= ta <= deadline and any(lo <= pn <= hi for lo, hi in rg) for ta, rg in acks):
                continue
            bad.append(("e2e:c08:ack-late:while-congestion-limited", f"endpoint {ep}: packet {pn} processed at {t0}us while congestion limited is not acknowledged by {deadline}us (max_ack_delay {mad}us)"))
            break
    return bad


def o_c06(tr):
    """only authentic packets are processed, each at most once"""
    bad = []
    sent = {}
    seen = set()
    for r in tr.recs:
        if r.kind == "txp":
            sent[(r.ep, r.space, r.pn)] = r.payload
        elif r.kind == "rxp":
            k = (r.ep, r.conn, r.space, r.pn)
            if k in seen:
                bad.append(("e2e:c06:processed-twice", f"endpoint {r.ep} processed {r.space} packet {r.pn} twice"))
            seen.add(k)
            orig = sent.get((peer(r.ep), r.space, r.pn))
            if orig is None:
                bad.append(("e2e:c06:forged-processed", f"endpoint {r.ep} processed {r.space} packet {r.pn} which its peer never sent"))
            elif orig != r.payload:
                bad.append(("e2e:c06:altered-processed", f"endpoint {r.ep} processed {r.space} packet {r.pn} with a payload differing from what the peer sent"))
    for r in tr.of("ev"):
        if r.name == "connectivity:connection_closed":
            if not re.search(r"error: (Closed|Application|IdleTimerExpired|MaxHandshakeDurationExceeded)", r.text):
                # with forged/garbled traffic only, the connection must survive (stateless reset needs the genuine token)
                if not tr.attack:
                    bad.append(("e2e:c06:closed-by-forgery", f"endpoint {r.ep} closed the connection: {r.text[:200]}"))
    return bad


def o_panic(tr):
    """no endpoint task panics (this includes the implementation's own debug assertions: the harness is a debug build)"""
    bad = []
    status = tr.end[1] if tr.end else None
    msgs = list(tr.panics)
    if status == "panic":
        msgs.append(tr.end[2])
    for m in msgs:
        if "stalled" in m:
            continue        # executor stall: a liveness verdict, reported by the C02 oracles
        bad.append(("e2e:panic", "an endpoint task panicked: " + m[:300]))
        break
    if status == "crashed":
        # the process died (abort on a panic inside a destructor / non-unwinding panic) or refused the scenario
        bad.append(("e2e:crashed", "the scenario process did not finish: " + tr.end[2][:300]))
    return bad


def o_c02_term(tr):
    """the run terminates without executor stall / panic / deadline (no task parked forever)"""
    bad = []
    if tr.end is None:
        return [("e2e:c02:no-end", "scenario produced no end record")]
    t, status, msg = tr.end
    if status == "panic":
        sig = "e2e:c02:stall" if "stalled" in msg else "e2e:c02:panic"
        bad.append((sig, f"executor {msg[:200]}"))
    elif status == "deadline":
        # a scenario that is still making progress when the (virtual) deadline strikes is slow, not hung
        last = max([r.t for r in tr.of("app") if r.what in ("read", "write", "eof", "finish")] + [0])
        if t - last > 30_000_000:
            bad.append(("e2e:c02:hang:deadline", f"scenario did not terminate and made no application progress for {(t - last) // 1000} ms before the deadline"))
    elif status != "ok":
        bad.append(("e2e:c02:hang:" + status, f"scenario did not terminate: {status} {msg[:200]}"))
    for p in tr.panics:
        if "stalled" not in p and status != "panic":
            bad.append(("e2e:c02:panic", p[:200]))
    return bad


def o_c02(tr):
    """blackhole family: completes when the network recovers soon enough, otherwise both endpoints report the
    failure within the effective idle timeout (negotiated value, at least three PTOs)"""
    bad = o_c02_term(tr)
    if bad:
        return bad
    bh = tr.params.get("bh")
    if not bh:
        return bad
    start, end, d = [int(x) for x in bh.split(":")]
    idle = int(tr.params.get("c.max_idle_ms", 30000))
    apps = tr.of("app")
    errs = [r for r in apps if r.what == "err"]
    done = next((r.t for r in apps if r.what == "done" and r.ep == "c"), None)
    forever = end >= 10**7
    # last datagram that reached the client
    client_addr = None
    for w in tr.of("wire"):
        client_addr = w.src
        break
    last_rx_c = max([w.at for w in tr.of("wire") if w.dst == client_addr and w.at is not None] + [0])
    last_rx_s = max([w.at for w in tr.of("wire") if w.src == client_addr and w.at is not None] + [0])
    idle = min(idle, int(tr.params.get("s.max_idle_ms", 30000)))

    def bound_for(ep):
        """latest time by which `ep` must have given up: the idle timer is restarted by the last processed
        packet and by the first ack-eliciting packet sent after it; its period is max(idle, 3 x current PTO)"""
        rx = [r for r in tr.recs if r.kind == "rxp" and r.ep == ep]
        if not any(r.space == "app" for r in rx):
            return None      # handshake never completed here: governed by max_handshake_duration, not checked
        last_rx = rx[-1]
        restart = last_rx.t
        for r in tr.recs:
            if r.idx > last_rx.idx and r.kind == "txp" and r.ep == ep and qp.ack_eliciting(r.frames):
                restart = r.t
                break
        pto = 0.0
        for r in tr.recs:
            if r.kind == "ev" and r.ep == ep and r.name == "recovery:metrics_updated" and r.t <= restart:
                m = re.search(r"smoothed_rtt: ([^,]+), latest_rtt: [^,]+, rtt_variance: ([^,]+), max_ack_delay: ([^,]+), pto_count: (\d+)", r.text)
                if m:
                    srtt, var, mad, cnt = dur_us(m.group(1)), dur_us(m.group(2)), dur_us(m.group(3)), int(m.group(4))
                    pto = max(pto if r.t == restart else 0.0, (srtt + max(4 * var, 1000.0) + mad) * (2 ** cnt))
        return restart + max(idle * 1000, 3 * pto) + 60_000

    if forever:
        if done is None:
            bad.append(("e2e:c02:never-reported", "client tasks never finished under a permanent blackhole"))
        b = bound_for("c")
        if done is not None and b is not None and errs and done > b:
            bad.append(("e2e:c02:reported-late", f"client gave up at {done}us, effective idle deadline was {int(b)}us (idle timeout {idle}ms)"))
        for r in tr.of("ev"):
            if r.name == "connectivity:connection_closed" and r.ep == "s":
                b = bound_for("s")
                if b is not None and r.t > b:
                    bad.append(("e2e:c02:reported-late", f"server gave up at {r.t}us, effective idle deadline was {int(b)}us (idle timeout {idle}ms)"))
    else:
        dur = end - start
        if dur * 3 < idle and not int(tr.params.get("drop_pm", 0)):
            # short outage: the transfer must complete
            if errs:
                bad.append(("e2e:c02:failed-despite-recovery", f"outage of {dur}ms (idle timeout {idle}ms) but the application saw {errs[0].what} {' '.join(errs[0].args)[:160]}"))
    return bad





# ---------------------------------------------------------------------------------------
# recovery oracles (C09, C10) from the event stream
# ---------------------------------------------------------------------------------------

MET_RE = re.compile(r"min_rtt: ([^,]+), smoothed_rtt: ([^,]+), latest_rtt: ([^,]+), rtt_variance: ([^,]+), max_ack_delay: ([^,]+), "
                    r"pto_count: (\d+), congestion_window: (\d+), bytes_in_flight: (\d+), congestion_limited: (\w+)")
SPACE_OF = {"Initial": "initial", "Handshake": "handshake", "OneRtt": "app", "ZeroRtt": "app"}


MET_PATH_RE = re.compile(r"RecoveryMetrics \{ path: Path \{[^}]*?\bid: (\d+), is_active")


def metrics(text):
    m = MET_RE.search(text)
    if not m:
        return None
    mp = MET_PATH_RE.search(text)
    return {"path": int(mp.group(1)) if mp else 0, "min_rtt": dur_us(m.group(1)), "srtt": dur_us(m.group(2)), "latest": dur_us(m.group(3)), "var": dur_us(m.group(4)),
            "mad": dur_us(m.group(5)), "pto_count": int(m.group(6)), "cwnd": int(m.group(7)), "bif": int(m.group(8)),
            "limited": m.group(9) == "true"}


def recovery_view(tr, ep):
    """per endpoint: ordered list of recovery-relevant records"""
    out = []
    pending_tx = {}
    # an endpoint may hold more than one connection (a replayed client Initial makes the server open a second, ghost
    # connection whose handshake packets are never acknowledged): recovery state is per connection, the view follows
    # the endpoint's FIRST connection
    main = next((r.conn for r in tr.recs if r.kind in ("ev", "txp", "rxp") and r.ep == ep and r.conn != "-"), None)
    for r in tr.recs:
        if r.ep != ep if r.kind in ("ev", "txp", "rxp") else True:
            continue
        if r.conn != main and r.conn != "-":
            continue
        if r.kind == "txp":
            pending_tx[(r.space, r.pn)] = r
        elif r.kind == "ev":
            if r.name == "transport:packet_sent":
                m = re.search(r"packet_header: (\w+) \{ number: (\d+).*packet_len: (\d+), transmission_mode: (\w+)", r.text)
                if m and m.group(1) in SPACE_OF:
                    sp = SPACE_OF[m.group(1)]
                    pn = int(m.group(2))
                    txp = pending_tx.get((sp, pn))
                    cc = True
                    ae = True
                    if txp is not None:
                        types = [f["type"] for f in txp.frames]
                        cc = any(t not in ("ACK", "PADDING") for t in types)
                        ae = any(t not in ("ACK", "PADDING", "CONNECTION_CLOSE") for t in types)
                    out.append(("sent", r.t, sp, pn, int(m.group(3)), m.group(4), cc, ae))
            elif r.name == "recovery:ack_range_received":
                m = re.search(r"packet_header: (\w+).*ack_range: (\d+)\.\.=(\d+)", r.text)
                if m and m.group(1) in SPACE_OF:
                    out.append(("acked", r.t, SPACE_OF[m.group(1)], int(m.group(2)), int(m.group(3))))
            elif r.name == "recovery:packet_lost":
                m = re.search(r"packet_header: (\w+) \{ number: (\d+).*bytes_lost: (\d+), is_mtu_probe: (\w+)", r.text)
                if m and m.group(1) in SPACE_OF:
                    out.append(("lost", r.t, SPACE_OF[m.group(1)], int(m.group(2)), int(m.group(3)), m.group(4) == "true"))
            elif r.name == "recovery:metrics_updated":
                mm = metrics(r.text)
                if mm:
                    out.append(("metrics", r.t, mm))
            elif r.name == "security:key_space_discarded":
                m = re.search(r"space: (\w+)", r.text)
                if m:
                    out.append(("discard", r.t, SPACE_OF.get(m.group(1), m.group(1))))
            elif r.name == "connectivity:mtu_updated":
                m = re.search(r"mtu: (\d+)", r.text)
                if m:
                    out.append(("mtu", r.t, int(m.group(1))))
            elif r.name == "connectivity:connection_closed":
                out.append(("closed", r.t))
    return out


_SENT_LEN_RE = re.compile(r"packet_header: (\w+)(?: \{ number: (\d+))?.*packet_len: (\d+)")
_PATH_NEW_RE = re.compile(r"new: Path \{[^}]*?remote_addr: ([0-9a-fA-F.:\[\]]+),[^}]*?\bid: (\d+), is_active")


def packet_paths(tr, ep):
    """{(space, pn): path id} for the packets endpoint `ep` sent, or None when the endpoint only ever had one path.
    An endpoint keeps one congestion controller per path (= peer address); `transport:path_created` names the peer
    address and id of every additional path. The address a packet went to is read from the simulated wire: packets
    are matched to datagrams in FIFO order through their lengths (packet_sent events / wire lines), exactly as
    tools/e2e_c13.py does for destination connection ids. Packets that cannot be matched are absent from the map."""
    created = []          # (remote addr, id)
    for r in tr.recs:
        if r.kind == "ev" and r.ep == ep and r.name == "transport:path_created":
            m = _PATH_NEW_RE.search(r.text)
            if m:
                created.append((m.group(1), int(m.group(2))))
    if not created:
        return None
    wires = tr.of("wire")
    if not wires:
        return {}
    server_addr = wires[0].dst
    first_peer = wires[0].dst if ep == "c" else wires[0].src
    addr_path = {first_peer: 0}
    for a, i in created:
        addr_path[a] = i      # a path id is never reused for another address (pending ids excepted: last one wins)
    out = {}
    q = []
    broken = False
    for r in tr.recs:
        if r.kind == "ev" and r.ep == ep and r.name == "transport:packet_sent":
            m = _SENT_LEN_RE.search(r.text)
            if m and m.group(1) in SPACE_OF and m.group(2) is not None:
                q.append((SPACE_OF[m.group(1)], int(m.group(2)), int(m.group(3))))
            else:
                broken = True
        elif r.kind == "wire" and not broken:
            if r.action in ("replay", "inject", "dup") or r.action.startswith("stray") or r.action == "to-attacker":
                continue
            if (r.src == server_addr) != (ep == "s"):
                continue
            if r.action.startswith("corrupt"):
                broken = True        # the logged length is that of the garbled datagram
                continue
            total, k = 0, 0
            while k < len(q) and total < r.len:
                total += q[k][2]
                k += 1
            if total != r.len or k == 0:
                broken = True
                continue
            pid = addr_path.get(r.dst)
            for sp, pn, ln in q[:k]:
                if pid is not None:
                    out[(sp, pn)] = pid
            del q[:k]
    return out


def o_c09(tr):
    """loss declarations are justified (RFC 9002 §6.1), every packet resolved once, bytes in flight exact —
    per PATH: every path has its own congestion controller; a recovery:metrics_updated event reports the
    bytes_in_flight of the path it names, which must equal the unresolved congestion-controlled packets that were
    sent ON THAT PATH, whichever path the acknowledgement arrived on"""
    bad = []
    for ep in ("c", "s"):
        view = recovery_view(tr, ep)
        paths = packet_paths(tr, ep)      # None: single path
        sent = {}         # (space, pn) -> (t, len, cc)
        resolved = {}
        largest_acked = {}
        mets = [(i, v[2]) for i, v in enumerate(view) if v[0] == "metrics"]
        bif = 0
        armed = False      # exact bytes-in-flight comparison starts once the handshake spaces are gone
        stuck_reported = False
        residue = 0
        path_of = {}       # (space, pn) -> path id the packet was sent on (0 when the endpoint has a single path)
        hs_gone = False
        disc_last = 0
        disc_t, disc_bytes = -1, 0      # bytes discarded at this instant (the metrics event emitted during a
                                        # key discard is published before the counter is reduced)

        def snapshots(i, pid=None):
            # (loss detection uses the RTT estimator of the path the packet was SENT on: detect_lost_packets)
            prev = [m for j, m in mets if j < i and (pid is None or m["path"] == pid)][-1:]
            nxt = [m for j, m in mets if j > i and (pid is None or m["path"] == pid)][:1]
            return prev + nxt
        for i, v in enumerate(view):
            kind = v[0]
            if kind == "closed":
                break       # a closing connection no longer runs loss recovery
            if kind == "sent":
                _, t, sp, pn, ln, mode, cc, ae = v
                sent[(sp, pn)] = (t, ln, cc)
                path_of[(sp, pn)] = 0 if paths is None else paths.get((sp, pn))
                if cc:
                    bif += ln
            elif kind == "acked":
                _, t, sp, lo, hi = v
                for pn in range(lo, hi + 1):
                    k = (sp, pn)
                    if k in sent and k not in resolved:
                        resolved[k] = "acked"
                        if sent[k][2]:
                            bif -= sent[k][1]
                largest_acked[sp] = max(largest_acked.get(sp, -1), hi)
            elif kind == "lost":
                _, t, sp, pn, nbytes, probe = v
                k = (sp, pn)
                if k not in sent:
                    bad.append(("e2e:c09:lost-unsent", f"endpoint {ep}: {sp} packet {pn} declared lost but never sent"))
                    continue
                if k in resolved:
                    bad.append(("e2e:c09:resolved-twice", f"endpoint {ep}: {sp} packet {pn} declared lost after being {resolved[k]}"))
                    continue
                resolved[k] = "lost"
                if sent[k][2]:
                    bif -= sent[k][1]
                la = largest_acked.get(sp, -1)
                if la <= pn:
                    bad.append(("e2e:c09:lost-without-later-ack", f"endpoint {ep}: {sp} packet {pn} declared lost at {t}us but no later packet was acknowledged (largest acked {la})"))
                    continue
                if la - pn >= 3:
                    continue
                elapsed = t - sent[k][0]
                if paths is not None and path_of.get(k) is None:
                    continue      # sent on a path that could not be identified: which RTT estimate applies is unknown
                snaps = snapshots(i, None if paths is None else path_of[k])
                if not snaps:
                    continue
                thr = min(max(9 * max(m["srtt"], m["latest"]) / 8, 1000.0) for m in snaps)
                if elapsed + 1 >= thr:
                    continue
                if elapsed + 1000 + 1 >= thr:
                    bad.append(("e2e:c09:loss:time-threshold-early-within-granularity", f"endpoint {ep}: {sp} packet {pn} declared lost {elapsed}us after sending, time threshold {thr:.0f}us (within the 1 ms timer granularity)"))
                else:
                    bad.append(("e2e:c09:loss:time-threshold-early", f"endpoint {ep}: {sp} packet {pn} (largest acked {la}) declared lost {elapsed}us after sending, time threshold is {thr:.0f}us"))
            elif kind == "discard":
                _, t, sp = v
                if disc_t != t:
                    disc_t, disc_bytes = t, 0
                disc_last = 0
                if sp == "handshake":
                    hs_gone = True
                for k in list(sent):
                    if k[0] == sp and k not in resolved:
                        resolved[k] = "discarded"
                        if sent[k][2]:
                            bif -= sent[k][1]
                            disc_bytes += sent[k][1]
                            disc_last += sent[k][1]
            elif kind == "metrics":
                m = v[2]
                if bif < 0:
                    bad.append(("e2e:c09:bif-negative", f"endpoint {ep}: computed bytes in flight negative"))
                # exact accounting for the application space; packets of the handshake spaces that are
                # still unresolved form a residue that may only shrink. The event reports ONE path's controller.
                pid = m["path"]
                mine = [k for k in sent if k[0] == "app" and k not in resolved and sent[k][2]]
                # (an outstanding packet that could not be attributed to a path: no verdict for this report)
                attributed = all(path_of.get(k) is not None for k in mine)
                app_out = sum(sent[k][1] for k in mine if path_of.get(k) == pid)
                res = m["bif"] - app_out
                where = f"endpoint {ep} at {v[1]}us" + (f" (path {pid})" if paths is not None else "")
                if not attributed:
                    pass
                elif pid != 0:
                    # a path created by a peer migration never carried handshake packets: exact from the first report
                    if res < 0:
                        bad.append(("e2e:c09:bytes-in-flight:under", f"{where} reports bytes_in_flight {m['bif']} but unresolved congestion-controlled 1-RTT packets sent on that path alone sum to {app_out}"))
                    elif res > 0:
                        bad.append(("e2e:c09:bytes-in-flight:leak", f"{where} reports bytes_in_flight {m['bif']}; unresolved 1-RTT packets sent on that path sum to {app_out}: {res} bytes belong to packets already acknowledged / lost / never sent on it"))
                elif hs_gone and v[1] > disc_t:
                    if res < 0:
                        bad.append(("e2e:c09:bytes-in-flight:under", f"{where} reports bytes_in_flight {m['bif']} but unresolved congestion-controlled 1-RTT packets alone sum to {app_out}"))
                    elif armed and res > residue:
                        bad.append(("e2e:c09:bytes-in-flight:leak", f"{where} reports bytes_in_flight {m['bif']}; unresolved 1-RTT packets sum to {app_out}, excess grew from {residue} to {res}"))
                    armed = True
                    residue = max(res, 0)
                    # everything of the discarded handshake spaces must be gone shortly after the discard
                    if residue > 0 and v[1] > disc_t + 1_000_000 and not stuck_reported:
                        stuck_reported = True
                        bad.append(("e2e:c09:bytes-in-flight:stuck", f"{where} still reports {residue} bytes in flight that belong to no unresolved 1-RTT packet, {v[1] - disc_t}us after the handshake spaces were discarded"))
                if m["srtt"] is not None and m["min_rtt"] is not None and m["latest"] is not None:
                    if m["min_rtt"] > m["latest"] + 1 or m["min_rtt"] > m["srtt"] + 1:
                        bad.append(("e2e:c09:min-rtt", f"endpoint {ep}: min_rtt {m['min_rtt']} above latest {m['latest']} / smoothed {m['srtt']}"))
    # the bytes-in-flight counters are checked counters: crediting a controller with more than it has in flight
    # panics the endpoint ("counter overflow", s2n-quic-core/src/counter.rs) - the figure tried to go negative
    for msg in ([tr.end[2]] if tr.end and tr.end[1] == "panic" else []) + list(tr.panics):
        if "counter overflow" in msg:
            bad.append(("e2e:c09:bytes-in-flight:counter-overflow", f"an endpoint panicked at {tr.end[0] if tr.end else '?'}us: {msg[:200]} (a checked counter of the recovery / congestion "
                                                                     "bookkeeping left its range: bytes in flight would have gone negative)"))
            break
    return bad


def c09_path_stats(tr, ep="s"):
    """non-triviality of the per-path part of o_c09 on one trace:
      paths              additional paths the endpoint created
      inflight-at-switch largest number of unresolved ack-eliciting 1-RTT packets at the moment the active path changed
      cross-path-acked   packets acknowledged while a path OTHER than the one they were sent on was active
      cross-path-lost    packets declared lost while another path was active
      reports-after-return  bytes_in_flight reports of a path that had been left and became current again"""
    out = {"paths": 0, "inflight-at-switch": 0, "cross-path-acked": 0, "cross-path-lost": 0, "reports-after-return": 0}
    paths = packet_paths(tr, ep)
    if paths is None:
        return out
    out["paths"] = sum(1 for r in tr.recs if r.kind == "ev" and r.ep == ep and r.name == "transport:path_created")
    switches = []      # (t, new active path id)
    for r in tr.recs:
        if r.kind == "ev" and r.ep == ep and r.name == "connectivity:active_path_updated":
            ids = re.findall(r"\bid: (\d+), is_active", r.text)
            if len(ids) == 2:
                switches.append((r.idx, r.t, int(ids[1])))
    # merge the recovery view with the switches by time (switch events carry the trace index of their instant)
    view = recovery_view(tr, ep)
    active = 0
    left = set()
    sw = list(switches)
    unresolved = {}
    for v in view:
        while sw and sw[0][1] <= v[1]:
            _, t, new = sw.pop(0)
            out["inflight-at-switch"] = max(out["inflight-at-switch"], sum(1 for k, ae in unresolved.items() if ae))
            left.add(active)
            active = new
        if v[0] == "sent" and v[2] == "app":
            unresolved[(v[2], v[3])] = v[7]
        elif v[0] == "acked" and v[2] == "app":
            for pn in range(v[3], v[4] + 1):
                if unresolved.pop(("app", pn), None) is not None and paths.get(("app", pn), active) != active:
                    out["cross-path-acked"] += 1
        elif v[0] == "lost" and v[2] == "app":
            if unresolved.pop(("app", v[3]), None) is not None and paths.get(("app", v[3]), active) != active:
                out["cross-path-lost"] += 1
        elif v[0] == "metrics":
            if v[2]["path"] in left and v[2]["path"] == active:
                out["reports-after-return"] += 1
        elif v[0] == "closed":
            break
    return out


def o_c10(tr):
    """congestion window never below the controller's minimum; bytes in flight below the window when a
    congestion-controlled packet is sent in normal mode"""
    bad = []
    cc = tr.params.get("cc", "cubic")
    factor = 4 if cc == "bbr" else 2
    for ep in ("c", "s"):
        view = recovery_view(tr, ep)
        mtu = 1200
        last = None
        prev_cwnd = None
        for v in view:
            if v[0] == "closed":
                break
            if v[0] == "mtu":
                mtu = v[2]
            elif v[0] == "metrics":
                m = v[2]
                if m["cwnd"] < factor * 1200:
                    bad.append((f"e2e:c10:{cc}:cwnd-below-min", f"endpoint {ep}: congestion window {m['cwnd']} below {factor} x 1200"))
                if m["cwnd"] >= 2**31:
                    bad.append((f"e2e:c10:{cc}:cwnd-overflow", f"endpoint {ep}: congestion window {m['cwnd']}"))
                last = m
    return bad
