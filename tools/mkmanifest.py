#!/usr/bin/env python3
"""Regenerates MANIFEST.json from props/*.py metadata (each props module defines MANIFEST = {...})."""
import importlib
import json
import os
import sys

HERE = os.path.dirname(os.path.dirname(os.path.abspath(__file__)))
sys.path.insert(0, os.path.join(HERE, "tools"))
sys.path.insert(0, HERE)

ALL = [f"C{i:02d}" for i in range(1, 21)]
PENDING_REASON = ("not yet claimed in this revision: the Lean model, theorems and correspondence harness for this property "
                  "are under construction (DESIGN.md §4/§9); it will be claimed once its check runs. No other technique is substituted.")


def main():
    checks = []
    na = []
    for pid in ALL:
        from props.meta import META
        pdir = os.path.join(HERE, "props", "parts")
        has_parts = any(f.startswith(pid + "_") and f.endswith(".py") for f in os.listdir(pdir))
        meta = META.get(pid) if (has_parts or (META.get(pid) or {}).get("not_applicable")) else None
        if not meta:
            na.append({"property_id": pid, "reason": PENDING_REASON})
            continue
        if meta.get("not_applicable"):
            na.append({"property_id": pid, "reason": meta["not_applicable"]})
            continue
        checks.append({
            "property_id": pid,
            "quick_cmd": f"./check {pid} --tier quick",
            "thorough_cmd": f"./check {pid} --tier thorough",
            "evidence_file": f"/verif/evidence/{pid}.json",
            "replay_cmd_template": f"./check {pid} --replay {{path}}",
            "engine": "lean4-proof+correspondence",
            "level_claimed": {"category": meta.get("category", "proof"), "text": meta["text"], "design_ref": meta.get("design_ref", "DESIGN.md §4 " + pid)},
            "level_note": meta["note"],
            "technique": meta["technique"],
        })
    hooks = json.load(open(os.path.join(HERE, "hooks.json")))
    man = {
        "version": 1,
        "setup_cmd": "./setup.sh",
        "hooks": hooks,
        "engines": [{"name": "lean4-proof+correspondence", "path": "/verif/check",
                     "serves_properties": [c["property_id"] for c in checks],
                     "kind_free_text": "Lean 4 theorems about executable models (lake build + #print axioms audit), tied to /repo on every run by "
                                       "regenerated model parts with bridge lemmas (tools/extract.py) and differential execution of the Lean driver "
                                       "against Rust harnesses that call the real code (harness/*)"}],
        "checks": checks,
        "not_applicable": na,
        "notes": "See DESIGN.md. known_findings.json lists accepted findings and repaired defects.",
    }
    with open(os.path.join(HERE, "MANIFEST.json"), "w") as f:
        json.dump(man, f, indent=1)
    print(f"claimed {len(checks)}, not_applicable {len(na)}")


if __name__ == "__main__":
    main()
