"""Tie G for the path-MTU controller (quic/s2n-quic-core/src/path/mtu.rs): constants and an expression-level
translation of the comparison conditions of ack / loss / probe handling into Lean functions (the Rust operator
becomes the Lean operator), re-generated on every run; QuicProofs/Bridge/Mtu.lean proves them equal to the model."""
from extract import *

SRC = "quic/s2n-quic-core/src/path/mtu.rs"
OPS = {">": ">", ">=": "≥", "<": "<", "<=": "≤", "==": "=", "!=": "≠"}
OP = r"(>=|<=|==|!=|>|<)"


def sq(s):
    return re.sub(r"\s+", "", s)


def extract(repo):
    o = Out("Mtu")
    src = strip_comments(read(repo, SRC))
    flat = sq(src)

    def const(name, ident, pat):
        m = re.search(pat, src)
        if m:
            o.define(ident, "Nat", str(rust_int(m.group(1))), f"mtu.rs {name}")
        else:
            o.fail(ident, "Nat", "0", f"{name} not found")

    const("MAX_PROBES", "maxProbes", r"const MAX_PROBES: u8 = (\w+);")
    const("ETHERNET_MTU", "ethernetMtu", r"const ETHERNET_MTU: u16 = (\w+);")
    const("PROBE_THRESHOLD", "probeThreshold", r"const PROBE_THRESHOLD: u16 = (\w+);")
    const("BLACK_HOLE_THRESHOLD", "blackHoleThreshold", r"const BLACK_HOLE_THRESHOLD: u8 = (\w+);")
    const("BLACK_HOLE_COOL_OFF_DURATION (s)", "blackHoleCoolOffSecs",
          r"const BLACK_HOLE_COOL_OFF_DURATION: Duration = Duration::from_secs\((\w+)\);")
    const("PMTU_RAISE_TIMER_DURATION (s)", "pmtuRaiseTimerSecs",
          r"const PMTU_RAISE_TIMER_DURATION: Duration = Duration::from_secs\((\w+)\);")
    const("MINIMUM_MAX_DATAGRAM_SIZE", "minimumMaxDatagramSize", r"const MINIMUM_MAX_DATAGRAM_SIZE: u16 = (\w+);")
    const("UDP_HEADER_LEN", "udpHeaderLen", r"const UDP_HEADER_LEN: u16 = (\w+);")
    const("IPV4_MIN_HEADER_LEN", "ipv4MinHeaderLen", r"const IPV4_MIN_HEADER_LEN: u16 = (\w+);")
    const("IPV6_MIN_HEADER_LEN", "ipv6MinHeaderLen", r"const IPV6_MIN_HEADER_LEN: u16 = (\w+);")
    const("DEFAULT_MAX_MTU", "defaultMaxMtu", r"const DEFAULT_MAX_MTU: MaxMtu = MaxMtu\(NonZeroU16::new\((\w+)\)")
    ok = ("constMINIMUM_MTU:u16=MINIMUM_MAX_DATAGRAM_SIZE+UDP_HEADER_LEN+const_min(IPV4_MIN_HEADER_LEN,IPV6_MIN_HEADER_LEN);" in flat
          and "constfnconst_min(a:u16,b:u16)->u16{ifa<b{a}else{b}}" in flat)
    o.define("minimumMtuIsSumWithMinHeader", "Bool", "true" if ok else "false",
             "MINIMUM_MTU = MINIMUM_MAX_DATAGRAM_SIZE + UDP_HEADER_LEN + const_min(IPV4.., IPV6..)")
    ok = ("constDEFAULT_BASE_MTU:BaseMtu=BaseMtu(NonZeroU16::new(MINIMUM_MTU).unwrap());" in flat
          and "constDEFAULT_INITIAL_MTU:InitialMtu=InitialMtu(NonZeroU16::new(MINIMUM_MTU).unwrap());" in flat)
    o.define("defaultsAreMinimum", "Bool", "true" if ok else "false", "DEFAULT_BASE_MTU = DEFAULT_INITIAL_MTU = MINIMUM_MTU")

    def cond(ident, ty, pat, build, note):
        m = re.search(pat, flat)
        if m:
            try:
                o.define(ident, ty, build(m), note + "  [" + m.group(0)[:150] + "]")
                return
            except Exception:
                pass
        o.fail(ident, ty, "fun " + " ".join("_" for _ in range(ty.count("→"))) + " => false", note + ": shape not recognised")

    L = lambda m, k=1: OPS[m.group(k)]
    cond("blackHoleCond", "Nat → Nat → Bool", r"ifself\.black_hole_counter" + OP + r"BLACK_HOLE_THRESHOLD\{",
         lambda m: f"fun counter threshold => decide (counter {L(m)} threshold)", "on_packet_loss: black hole test")
    cond("probeLostCond", "Nat → Nat → Bool", r"ifself\.probe_count" + OP + r"MAX_PROBES\{",
         lambda m: f"fun count maxProbes => decide (count {L(m)} maxProbes)", "on_packet_loss: give up on this probe size")
    cond("aboveCond", "Nat → Nat → Nat → Bool", r"self\.probed_size-self\.plpmtu" + OP + r"PROBE_THRESHOLD\}",
         lambda m: f"fun probed plpmtu threshold => decide (probed - plpmtu {L(m)} threshold)", "is_next_probe_size_above_threshold")
    cond("ackResetCond", "Nat → Nat → Nat → Option Nat → Bool",
         r"ifsent_bytes" + OP + r"self\.plpmtu&&self\.largest_acked_mtu_sized_packet\.is_none_or\(\|pn\|packet_number" + OP + r"pn\)\{",
         lambda m: f"fun bytes plpmtu pn la => decide (bytes {L(m)} plpmtu) && (match la with | none => true | some x => decide (pn {L(m, 2)} x))",
         "on_packet_ack: reset of the black hole counter")
    cond("lossCountCond", "Nat → Nat → Nat → Nat → Option Nat → Bool → Bool",
         r"if\(self\.base_plpmtu\+(\d+)(\.\.=?)self\.plpmtu\)\.contains\(&lost_bytes\)&&self\.largest_acked_mtu_sized_packet\.is_none_or\(\|pn\|packet_number" + OP + r"pn\)&&new_loss_burst\{",
         lambda m: ("fun base plpmtu bytes pn la burst => (decide (base + %s ≤ bytes) && decide (bytes %s plpmtu)) && "
                    "(match la with | none => true | some x => decide (pn %s x)) && burst")
         % (m.group(1), "≤" if m.group(2) == "..=" else "<", OPS[m.group(3)]),
         "on_packet_loss: which losses count towards a black hole")
    cond("earlyAckCond", "Nat → Nat → Bool", r"ifself\.state\.is_early_search_requested\(\)&&sent_bytes" + OP + r"self\.base_plpmtu\{",
         lambda m: f"fun bytes base => decide (bytes {L(m)} base)", "on_packet_ack: early search confirmation")
    cond("capacityCond", "Nat → Nat → Bool", r"ifcontext\.remaining_capacity\(\)" + OP + r"probe_payload_size\{",
         lambda m: f"fun cap payload => decide (cap {L(m)} payload)", "on_transmit_probe: probe does not fit")
    cond("tryFromRejects", "Nat → Nat → Bool", r"ifvalue" + OP + r"MINIMUM_MTU\{returnErr\(MtuError\);\}",
         lambda m: f"fun value minimum => decide (value {L(m)} minimum)", "TryFrom<u16>: rejected values")
    cond("isValid", "Nat → Nat → Nat → Bool",
         r"self\.base_mtu\.0" + OP + r"self\.initial_mtu\.0&&self\.initial_mtu\.0" + OP + r"self\.max_mtu\.0\}",
         lambda m: f"fun base initial mx => decide (base {L(m)} initial) && decide (initial {L(m, 2)} mx)", "Config::is_valid")
    cond("initialAboveEthernet", "Nat → Nat → Nat → Bool",
         r"ifu16::from\(config\.initial_mtu\)" + OP + r"ETHERNET_MTU-PROBE_THRESHOLD\{",
         lambda m: f"fun initial eth threshold => decide (initial {L(m)} eth - threshold)", "Controller::new: initial probe above Ethernet")
    cond("initEarly", "Nat → Nat → Bool", r"letstate=ifplpmtu" + OP + r"base_plpmtu\{",
         lambda m: f"fun plpmtu base => decide (plpmtu {L(m)} base)", "Controller::new: EarlySearchRequested")
    cond("initComplete", "Nat → Nat → Nat → Bool", r"elseifinitial_probed_size-base_plpmtu" + OP + r"PROBE_THRESHOLD\{",
         lambda m: f"fun ips base threshold => decide (ips - base {L(m)} threshold)", "Controller::new: SearchComplete")
    cond("nextProbeSize", "Nat → Nat → Nat", r"fnnext_probe_size\(current:u16,max:u16\)->u16\{current\+\(\(max-current\)/(\d+)\)\}",
         lambda m: f"fun current mx => current + ((mx - current) / {m.group(1)})", "next_probe_size")
    # statement-level shapes
    shapes = {
        "maxDatagramSizeShape": "(u16::from(*self)-UDP_HEADER_LEN-min_ip_header_len).max(MINIMUM_MAX_DATAGRAM_SIZE)",
        "raiseTimerFromProbeTime": "self.arm_pmtu_raise_timer(last_probe_time+PMTU_RAISE_TIMER_DURATION);",
        "coolOffFromNow": "self.arm_pmtu_raise_timer(now+BLACK_HOLE_COOL_OFF_DURATION);",
        "blackHoleFallsBackToBase": "self.largest_acked_mtu_sized_packet=None;self.plpmtu=self.base_plpmtu;",
        "probeLossLowersMaxProbe": "self.max_probe_size=self.probed_size;self.update_probed_size();self.request_new_search(None);",
        "probeAckRaisesMtu": "ifpacket_number==probe_packet_number{self.plpmtu=self.probed_size;",
        "armResetsMaxProbe": "self.max_probe_size=self.max_udp_payload;self.update_probed_size();ifself.is_next_probe_size_above_threshold(){",
        "newSearchResetsCount": "ifself.is_next_probe_size_above_threshold(){self.probe_count=0;self.state=State::SearchRequested;}else{",
        "txCountsProbe": "self.probe_count+=1;self.state=State::Searching(packet_number,context.current_time());",
        "initialProbedMinMaxUdp": ".min(max_udp_payload);",
    }
    for k, v in shapes.items():
        o.define(k, "Bool", "true" if v in flat else "false", "statement present: " + v[:110])
    return o
