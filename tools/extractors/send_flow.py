"""Tie G for the send-side flow-control model (C03): the expressions where realistic breaking edits live are
translated token by token from the CURRENT Rust text into Lean functions (QuicModel/Generated/SendFlow.lean);
QuicProofs/Bridge/SendFlow.lean proves them equal to the hand-written model the theorems are about.

  send_stream.rs   acquire_flow_control_window : what is requested from the connection window (the F3 clamp
                   `end_offset.min(self.max_stream_data)`), the two blocked tests, available_window,
                   set_max_stream_data (ignore non-increasing), try_acquire_connection_window (missing window),
                   init_reset (final size = acquired window)
  outgoing_connection_flow_controller.rs   acquire_window, on_max_data (ignore non-increasing, increment)
  controller/local_initiated.rs            on_max_streams (ignore non-increasing), peer_capacity,
                                           available_stream_capacity, poll_open_stream guard
"""
from extract import *

SEND = "quic/s2n-quic-transport/src/stream/send_stream.rs"
CONN = "quic/s2n-quic-transport/src/stream/outgoing_connection_flow_controller.rs"
LOCAL = "quic/s2n-quic-transport/src/stream/controller/local_initiated.rs"


def fn_body(src, name):
    """text between the braces of `fn name`"""
    m = re.search(r"\bfn\s+" + re.escape(name) + r"\s*(<[^>]*>)?\s*\(", src)
    if not m:
        return None
    i = src.find("{", m.end())
    if i < 0:
        return None
    depth = 0
    for j in range(i, len(src)):
        if src[j] == "{":
            depth += 1
        elif src[j] == "}":
            depth -= 1
            if depth == 0:
                return src[i + 1:j]
    return None


TOK = re.compile(r"\s*(::|<=|>=|==|[A-Za-z_][A-Za-z_0-9]*|\d[\d_]*|[().,<>+\-])")


class XlateError(Exception):
    pass


def camel(path):
    parts = [p for p in path if p not in ("self", "frame")]
    words = "_".join(parts).split("_")
    return words[0] + "".join(w.capitalize() for w in words[1:])


class Parser:
    """Rust expression subset -> Lean term over Nat; `vars` collects the free variables (Lean names)"""

    def __init__(self, text, env=None):
        self.toks = []
        pos = 0
        text = text.strip()
        while pos < len(text):
            m = TOK.match(text, pos)
            if not m:
                raise XlateError("cannot tokenise: " + text[pos:pos + 20])
            self.toks.append(m.group(1))
            pos = m.end()
        self.i = 0
        self.vars = []
        self.env = env or {}

    def peek(self):
        return self.toks[self.i] if self.i < len(self.toks) else None

    def take(self, t=None):
        x = self.peek()
        if x is None or (t is not None and x != t):
            raise XlateError(f"expected {t}, got {x}")
        self.i += 1
        return x

    def var(self, name):
        if name in self.env:
            return self.env[name]       # a `let` of the same function, already translated
        if name not in self.vars:
            self.vars.append(name)
        return name

    def expr(self):
        a = self.add()
        if self.peek() in ("<=", ">=", "<", ">", "=="):
            op = self.take()
            b = self.add()
            lean = {"<=": "≤", ">=": "≥", "<": "<", ">": ">", "==": "="}[op]
            return f"decide ({a} {lean} {b})"
        return a

    def add(self):
        a = self.post()
        while self.peek() in ("+", "-"):
            op = self.take()
            b = self.post()
            a = f"({a} {op} {b})"
        return a

    def args(self):
        self.take("(")
        out = []
        if self.peek() != ")":
            out.append(self.expr())
            while self.peek() == ",":
                self.take()
                if self.peek() == ")":
                    break               # trailing comma
                out.append(self.expr())
        self.take(")")
        return out

    def post(self):
        a = self.atom()
        while self.peek() == ".":
            self.take()
            name = self.take()
            if self.peek() == "(":
                args = self.args()
                if name in ("min", "max") and len(args) == 1:
                    a = f"({name} {a} {args[0]})"
                elif name == "saturating_sub" and len(args) == 1:
                    a = f"({a} - {args[0]})"
                elif name in ("as_varint", "as_u64") and not args:
                    pass
                else:
                    raise XlateError("method " + name)
            else:
                raise XlateError("field access on expression: " + name)
        return a

    def atom(self):
        t = self.take()
        if t == "(":
            e = self.expr()
            self.take(")")
            return e
        if re.fullmatch(r"\d[\d_]*", t):
            return str(int(t.replace("_", "")))
        if not re.fullmatch(r"[A-Za-z_][A-Za-z_0-9]*", t):
            raise XlateError("unexpected token " + t)
        path = [t]
        while self.peek() == "::":
            self.take()
            path.append(self.take())
        if len(path) > 1:
            full = "::".join(path)
            if full in ("core::cmp::min", "core::cmp::max", "cmp::min", "cmp::max"):
                a = self.args()
                if len(a) != 2:
                    raise XlateError(full + " arity")
                return f"({path[-1]} {a[0]} {a[1]})"
            if full in ("VarInt::from_u32", "VarInt::from_u8", "VarInt::from_u16"):
                a = self.args()
                return a[0]
            raise XlateError("path " + full)
        # self.a.b / frame.x / local
        while self.peek() == "." and self.i + 1 < len(self.toks) and re.fullmatch(r"[A-Za-z_][A-Za-z_0-9]*", self.toks[self.i + 1]) \
                and self.toks[self.i + 1] not in ("min", "max", "saturating_sub", "as_varint", "as_u64"):
            self.take()
            path.append(self.take())
        if self.peek() == "(":
            # a method of self without arguments is treated as a named quantity (e.g. self.peer_capacity())
            a = self.args()
            if a:
                raise XlateError("call with arguments: " + ".".join(path))
        return self.var(camel(path))


def xlate(text, env=None):
    p = Parser(text, env)
    e = p.expr()
    if p.peek() is not None:
        raise XlateError("trailing tokens: " + " ".join(p.toks[p.i:]))
    return e, p.vars


def emit(o, ident, params, ty, rust, note, env=None):
    """translate `rust` into `def ident (params : Nat) : ty`; free variables must be exactly ⊆ params"""
    bad = {"Nat": "0", "Bool": "false"}[ty]
    sig = " ".join(f"({p} : Nat)" for p in params)
    if rust is None:
        o.fail(ident, "Nat → " * len(params) + ty, "fun " + " ".join("_" for _ in params) + " => " + bad if params else bad, note + ": not found")
        return
    try:
        e, vs = xlate(rust, env)
        extra = [v for v in vs if v not in params]
        if extra:
            raise XlateError("unexpected variables " + ", ".join(extra))
    except XlateError as ex:
        o.fail(ident, "Nat → " * len(params) + ty, ("fun " + " ".join("_" for _ in params) + " => " + bad) if params else bad,
               f"{note}: cannot translate `{rust.strip()}` ({ex})")
        return
    o.lines.append(f"/-- {note}: `{' '.join(rust.split())}` -/")
    o.lines.append(f"def {ident} {sig} : {ty} := {e}")
    o.lines.append("")
    o.items.append(ident)


def grab(body, pattern):
    if body is None:
        return None
    m = re.search(pattern, body, re.S)
    return m.group(1) if m else None


def extract(repo):
    o = Out("SendFlow")
    send = strip_comments(read(repo, SEND))
    conn = strip_comments(read(repo, CONN))
    loc = strip_comments(read(repo, LOCAL))

    # ---- acquire_flow_control_window ---------------------------------------------------------
    acq = fn_body(send, "acquire_flow_control_window")
    lets = {}
    if acq:
        for m in re.finditer(r"let\s+([a-z_][a-z_0-9]*)\s*=\s*([^;]+);", acq):
            try:
                e, vs = xlate(m.group(2))
                lets[camel([m.group(1)])] = e
            except XlateError:
                pass
    emit(o, "streamBlocked", ["endOffset", "maxStreamData"], "Bool",
         grab(acq, r"if\s+([^{]+?)\s*\{[^}]*BlockedOnStreamWindow"), "acquire_flow_control_window: blocked on the stream window when", lets)
    emit(o, "requestedOffset", ["endOffset", "maxStreamData"], "Nat",
         grab(acq, r"highest_requested_connection_flow_control_window\s*=\s*core::cmp::max\(\s*([^,]+),\s*self\s*\.\s*highest_requested_connection_flow_control_window\s*,?\s*\)"),
         "acquire_flow_control_window: connection window is requested up to", lets)
    emit(o, "connBlocked", ["endOffset", "maxStreamData", "acquiredConnectionFlowControllerWindow"], "Bool",
         grab(acq, r"if\s+([^{]+?)\s*\{[^}]*BlockedOnConnectionWindow"), "acquire_flow_control_window: blocked on the connection window when", lets)
    emit(o, "availableWindow", ["maxStreamData", "acquiredConnectionFlowControllerWindow"], "Nat",
         (fn_body(send, "available_window") or "").strip() or None, "available_window")
    emit(o, "maxStreamDataIgnored", ["maxStreamData0", "maxStreamData"], "Bool",
         (lambda s: s.replace("max_stream_data <= self.max_stream_data", "max_stream_data0 <= self.max_stream_data") if s else s)(
             grab(fn_body(send, "set_max_stream_data"), r"if\s+([^{]+?)\s*\{\s*return;")),
         "set_max_stream_data(max_stream_data0): the frame is ignored when")
    emit(o, "missingConnectionWindow", ["highestRequestedConnectionFlowControlWindow", "acquiredConnectionFlowControllerWindow"], "Nat",
         grab(fn_body(send, "try_acquire_connection_window"), r"let\s+missing_connection_window\s*=\s*([^;]+);"),
         "try_acquire_connection_window: missing window")
    ir = fn_body(send, "init_reset")
    fs = grab(ir, r"final_size\s*:\s*([^,}]+?)\s*[,}]")
    ok = fs is not None and re.sub(r"\s+", "", fs) == "self.data_sender.flow_controller().acquired_connection_flow_controller_window()"
    getter = fn_body(send, "acquired_connection_flow_controller_window")
    ok = ok and getter is not None and re.sub(r"\s+", "", getter) == "self.acquired_connection_flow_controller_window"
    o.define("resetFinalSizeIsAcquiredWindow", "Bool", "true" if ok else "false",
             "init_reset: RESET_STREAM final_size = flow_controller().acquired_connection_flow_controller_window()")

    # ---- connection flow controller -----------------------------------------------------------
    aw = fn_body(conn, "acquire_window")
    emit(o, "acquireResult", ["availableWindow", "desired"], "Nat", grab(aw, r"let\s+result\s*=\s*([^;]+);"), "acquire_window: result")
    o.define("acquireSubtractsResult", "Bool",
             "true" if aw and re.search(r"self\s*\.\s*available_window\s*-=\s*result\s*;", aw) else "false",
             "acquire_window: self.available_window -= result")
    omd = fn_body(conn, "on_max_data")
    emit(o, "maxDataIgnored", ["totalAvailableWindow", "maximumData"], "Bool", grab(omd, r"if\s+([^{]+?)\s*\{\s*return;"),
         "on_max_data: the frame is ignored when")
    inc = grab(omd, r"let\s+increment\s*=\s*([^;]+);")
    emit(o, "maxDataIncrement", ["totalAvailableWindow", "maximumData"], "Nat", inc, "on_max_data: increment")
    emit(o, "maxDataNewTotal", ["maximumData"], "Nat", grab(omd, r"self\s*\.\s*total_available_window\s*=\s*([^;]+);"), "on_max_data: new total")
    o.define("maxDataAddsIncrement", "Bool",
             "true" if omd and re.search(r"self\s*\.\s*available_window\s*\+=\s*increment\s*;", omd) else "false",
             "on_max_data: self.available_window += increment")

    # ---- LocalInitiated ---------------------------------------------------------------------
    emit(o, "maxStreamsIgnored", ["peerCumulativeStreamLimit", "maximumStreams"], "Bool",
         grab(fn_body(loc, "on_max_streams"), r"if\s+([^{]+?)\s*\{\s*return;"), "on_max_streams: the frame is ignored when")
    emit(o, "peerCapacity", ["peerCumulativeStreamLimit", "openedStreams"], "Nat",
         (fn_body(loc, "peer_capacity") or "").strip() or None, "peer_capacity")
    asc = fn_body(loc, "available_stream_capacity")
    lets2 = {}
    if asc:
        for m in re.finditer(r"let\s+([a-z_][a-z_0-9]*)\s*=\s*([^;]+);", asc):
            try:
                e, vs = xlate(m.group(2))
                lets2[camel([m.group(1)])] = e
            except XlateError:
                pass
        tail = asc.split(";")[-1].strip()
    else:
        tail = None
    emit(o, "availableStreamCapacity", ["maxLocalLimit", "openStreamCount", "peerCapacity"], "Nat", tail or None,
         "available_stream_capacity", lets2)
    emit(o, "openBlocked", ["availableStreamCapacity"], "Bool",
         grab(fn_body(loc, "poll_open_stream"), r"^\s*if\s+([^{]+?)\s*\{"), "poll_open_stream: Pending when")
    return o
