"""Tie G for C02 (stream write waiter, reset paths): WHEN the reset-related handlers of
quic/s2n-quic-transport/src/stream/send_stream.rs wake the parked writer.
  * `on_internal_reset` (connection close / error): guard of `self.wake(events)` as a function of "init_reset returned ResetInitiated"
    — TRANSLATED (`fun initiated => ..`); the model (`WriteWaiter.onInternalReset`) wakes unconditionally: a writer parked on
    reset+flush sits in ResetSent, where init_reset answers ResetNotNecessary, and nothing but the close can release it once the
    connection is gone;
  * `on_stop_sending`: same translation; the model wakes only when the reset was initiated by the frame;
  * `on_packet_ack` in `ResetSent`: the acknowledged RESET_STREAM moves to ResetAcknowledged and sets `should_wake = true`;
  * `poll_request` with `reset` + `flush`: stores the waker with should_flush = true unless the reset is already acknowledged.
Bridge: lean/QuicProofs/Bridge/TxWake.lean; theorems: lean/QuicProofs/Props/C02ResetFlush.lean."""
from extract import *

REL = "quic/s2n-quic-transport/src/stream/send_stream.rs"


def squeeze(s):
    return re.sub(r"\s+", "", s)


def fn_body(src, name):
    m = re.search(r"fn" + name + r"(?:<[^>]*>)?\(", src)
    if not m:
        return None
    i = src.find("{", m.end())
    depth = 0
    for j in range(i, len(src)):
        if src[j] == "{":
            depth += 1
        elif src[j] == "}":
            depth -= 1
            if depth == 0:
                return src[i + 1:j]
    return None


INIT = r"self\.init_reset\(ResetSource::(\w+),error,?\)"
RI = r"InitResetResult::ResetInitiated"


def wake_guard(body):
    """-> (lean term over `initiated`, python source, reset source) or raises ValueError.  Accepted statement shapes after the
    (optional) `let error = ..;`:  [let X = INIT;] (self.wake(events); | if COND { self.wake(events); }) [Ok(())]"""
    b = re.sub(r"^leterror=StreamError::stream_reset\(frame\.application_error_code\.into\(\)\);", "", body)
    b = re.sub(r"Ok\(\(\)\)$", "", b)
    m = re.fullmatch(r"let(_|\w+)=" + INIT + r";(.*)", b)
    var = None
    if m:
        var, source, rest = m.group(1), m.group(2), m.group(3)
    else:
        m = re.fullmatch(r"if" + INIT + r"(==|!=)" + RI + r"\{self\.wake\(events\);\}", b)
        if m:
            return ("initiated" if m.group(2) == "==" else "!initiated"), ("i" if m.group(2) == "==" else "(not i)"), m.group(1)
        raise ValueError("statement shape not in the translated fragment: " + b[:120])
    if rest == "self.wake(events);":
        return "true", "True", source
    if var and var != "_":
        m2 = re.fullmatch(r"if(?:" + var + r"(==|!=)" + RI + r"|matches!\(" + var + "," + RI + r"\))\{self\.wake\(events\);\}", rest)
        if m2:
            neg = m2.group(1) == "!="
            return ("!initiated" if neg else "initiated"), ("(not i)" if neg else "i"), source
    raise ValueError("statement shape not in the translated fragment: " + rest[:120])


def guards(repo):
    src = squeeze(strip_comments(read(repo, REL)))
    out = {}
    for fn, ident in (("on_internal_reset", "internalResetWakes"), ("on_stop_sending", "stopSendingWakes")):
        body = fn_body(src, fn)
        if body is None:
            out[ident] = (None, f"fn {fn} not found")
            continue
        try:
            out[ident] = (wake_guard(body), "")
        except ValueError as e:
            out[ident] = (None, str(e))
    return out, src


def python_twin(repo):
    g, _ = guards(repo)
    return {k: ("lambda i: " + v[0][1]) for k, v in g.items() if v[0]}


def extract(repo):
    o = Out("TxWake")
    g, src = guards(repo)
    want_source = {"internalResetWakes": "InternalReset", "stopSendingWakes": "StopSendingFrame"}
    for ident, (val, why) in g.items():
        if val is None:
            o.fail(ident, "Bool → Bool", "fun _ => false", f"{REL}: {why}")
            continue
        lean, _, source = val
        o.define(ident, "Bool → Bool", f"fun initiated => {lean}",
                 f"{REL} {'on_internal_reset' if ident.startswith('internal') else 'on_stop_sending'}: guard of `self.wake(events)` as a function of "
                 f"`init_reset(ResetSource::{source}, ..) == ResetInitiated`")
        o.define(ident + "Source", "Bool", "true" if source == want_source[ident] else "false",
                 f"the reset source passed to init_reset is ResetSource::{want_source[ident]} (found {source})")
    ack = "SendStreamState::ResetSent(error_code)ifself.reset_sync.on_packet_ack(ack_set).is_ready()=>{self.state=SendStreamState::ResetAcknowledged(error_code);should_wake=true;}_=>{}}ifshould_wake{self.wake(events);}"
    o.define("resetAckWakes", "Bool", "true" if ack in src else "false",
             f"{REL} on_packet_ack: `SendStreamState::ResetSent(e) if self.reset_sync.on_packet_ack(ack_set).is_ready() => {{ self.state = ResetAcknowledged(e); should_wake = true; }} _ => {{}} }} if should_wake {{ self.wake(events); }}`")
    park = "ifrequest.flush&&!matches!(self.state,SendStreamState::ResetAcknowledged(_)){store_waker!(true);}else{self.write_waiter=None;}"
    o.define("resetFlushParks", "Bool", "true" if park in src else "false",
             f"{REL} poll_request (reset): `if request.flush && !matches!(self.state, ResetAcknowledged(_)) {{ store_waker!(true); }} else {{ self.write_waiter = None; }}`")
    notnec = "SendStreamState::ResetSent(_)|SendStreamState::ResetAcknowledged(_)=>{returnInitResetResult::ResetNotNecessary}"
    o.define("initResetNotNecessaryWhenReset", "Bool", "true" if notnec in src else "false",
             f"{REL} init_reset: ResetSent | ResetAcknowledged => return ResetNotNecessary")
    body = fn_body(src, "wake") or ""
    o.define("wakeTakesWaiter", "Bool", "true" if body.startswith("ifletSome((waker,_should_flush))=self.write_waiter.take(){events.store_write_waker(waker);return;}") else "false",
             f"{REL} fn wake: starts with `if let Some((waker, _should_flush)) = self.write_waiter.take() {{ events.store_write_waker(waker); return; }}`")
    return o
