"""Tie G for packet numbers: thresholds / tags / casts of `PacketNumberLenValue`, the
`derive_truncation_range` chain, and a statement-by-statement translation of
`decode_packet_number` (quic/s2n-quic-core/src/packet/number/{mod,packet_number,packet_number_len}.rs)."""
from extract import *

D = "quic/s2n-quic-core/src/packet/number/"

OPS = {"<=": "≤", "<": "<", ">=": "≥", ">": ">", "==": "=", "!=": "≠"}
NAMES = {"expected_pn": "expected", "pn_hwin": "hwin", "pn_win": "win", "candidate_pn": "candidate",
         "(1u64 << 62)": "2 ^ 62", "(1 << 62)": "2 ^ 62"}


def _consts(src):
    """const NAME: ty = expr;  -> {NAME: int} for the constant expressions we understand"""
    out = {}
    for m in re.finditer(r"const (\w+): \w+ = ([^;]+);", src):
        try:
            out[m.group(1)] = const_expr(m.group(2))
        except Exception:
            pass
    return out


def _nm(s):
    s = s.strip()
    if s not in NAMES:
        raise ValueError("unknown operand " + s)
    return NAMES[s]


def _flag(stmt):
    """one of the `let a = …;` flag statements of decode_packet_number -> Lean Bool expression"""
    s = " ".join(stmt.split())
    m = re.fullmatch(r"(.+?) \.checked_(sub|add)\((\w+)\) \.filter\(\|v\| (\w+) (<=|<|>=|>) \*v\) \.is_some\(\)", s) or \
        re.fullmatch(r"(.+?)\.checked_(sub|add)\((\w+)\)\.filter\(\|v\| (\w+) (<=|<|>=|>) \*v\)\.is_some\(\)", s)
    if m:
        x, kind, y, z, op = _nm(m.group(1)), m.group(2), _nm(m.group(3)), _nm(m.group(4)), OPS[m.group(5)]
        if kind == "sub":
            return f"decide ({y} ≤ {x} ∧ {z} {op} {x} - {y})"
        return f"decide ({x} + {y} ≤ u64Max ∧ {z} {op} {x} + {y})"
    m = re.fullmatch(r"(\w+) (<=|<|>=|>) (\w+)", s)
    if m:
        return f"decide ({_nm(m.group(1))} {OPS[m.group(2)]} {_nm(m.group(3))})"
    raise ValueError("flag statement not understood: " + s)


def _boolexpr(s):
    s = " ".join(s.split())
    if not re.fullmatch(r"[!\w &|()]+", s):
        raise ValueError("boolean expression not understood: " + s)
    return s


def _decode_fn(src):
    """decode_packet_number -> (lean text of `adjustCandidate`, prefix tuple, candidate form ok, clamp ok)"""
    m = re.search(r"fn decode_packet_number\((.*?)\) -> PacketNumber \{(.*?)\n\}", src, re.S)
    if not m:
        raise ValueError("decode_packet_number not found")
    body = m.group(2)
    stm = {}
    for s in re.finditer(r"let (?:mut )?(\w+) = (.*?);", body, re.S):
        stm.setdefault(s.group(1), []).append(" ".join(s.group(2).split()))

    def one(k):
        if k not in stm:
            raise ValueError(f"`let {k}` not found in decode_packet_number")
        return stm[k][0]
    mm = re.fullmatch(r"largest_pn\.as_u64\(\) \+ (\d+)", one("expected_pn"))
    ms = re.fullmatch(r"(\d+) << pn_nbits", one("pn_win"))
    mh = re.fullmatch(r"pn_win / (\d+)", one("pn_hwin"))
    mk = re.fullmatch(r"pn_win - (\d+)", one("pn_mask"))
    mb = re.fullmatch(r"truncated_pn\.bitsize\(\)", one("pn_nbits"))
    if not (mm and ms and mh and mk and mb):
        raise ValueError("prefix of decode_packet_number changed shape")
    prefix = (int(mm.group(1)), int(ms.group(1)), int(mh.group(1)), int(mk.group(1)))
    cand_ok = stm["candidate_pn"][0] == "(expected_pn & !pn_mask) | truncated_pn.into_u64()"
    clamp_ok = len(stm["candidate_pn"]) == 2 and stm["candidate_pn"][1] == "VarInt::new(candidate_pn).unwrap_or(VarInt::MAX)"
    a, b, c, d = (_flag(one(k)) for k in "abcd")
    ab, cd = _boolexpr(one("ab")), _boolexpr(one("cd"))
    # the two conditional updates, in source order
    ups = re.findall(r"if (\w+) \{\s*candidate_pn (\+=|-=) (\w+);?\s*\}", body)
    if len(ups) != 2:
        raise ValueError("conditional updates of candidate_pn changed shape")
    steps = []
    for (flag, op, by) in ups:
        fn = "checkedAdd" if op == "+=" else "checkedSub"
        steps.append((flag, fn, _nm(by)))
    ret_ok = re.search(r"PacketNumber::from_varint\(candidate_pn, space\)\s*$", body.strip()) is not None
    lean = f"""fun mx expected win candidate =>
  let hwin := win / {prefix[2]}
  let a := {a}
  let b := {b}
  let c := {c}
  let d := {d}
  let ab := {ab}
  let cd := {cd}
  match (if {steps[0][0]} then {steps[0][1]} candidate {steps[0][2]} else some candidate) with
  | none => none
  | some c1 =>
    match (if {steps[1][0]} then {steps[1][1]} c1 {steps[1][2]} else some c1) with
    | none => none
    | some c2 => some (if c2 ≤ mx then c2 else mx)"""
    return lean, prefix, cand_ok, clamp_ok and ret_ok


def extract(repo):
    o = Out("PacketNumber")
    o.lines.insert(2, "def u64Max : Nat := 18446744073709551615\n"
                      "def checkedSub (a b : Nat) : Option Nat := if b ≤ a then some (a - b) else none\n"
                      "def checkedAdd (a b : Nat) : Option Nat := if a + b ≤ u64Max then some (a + b) else none\n")
    src = strip_comments(read(repo, D + "packet_number_len.rs"))
    consts = _consts(src)
    # enum discriminants (declaration order)
    m = re.search(r"enum PacketNumberLenValue \{(.*?)\}", src, re.S)
    variants = [v.strip() for v in m.group(1).split(",") if v.strip()] if m else []
    disc = {v: i for i, v in enumerate(variants)}
    o.define("variants", "List String", "[" + ", ".join(f'"{v}"' for v in variants) + "]",
             "PacketNumberLenValue variants in declaration order (discriminant = index)") if variants else \
        o.fail("variants", "List String", "[]", "enum PacketNumberLenValue not found")
    # from_varint arms
    m = re.search(r"fn from_varint\(value: VarInt\) -> Option<Self> \{.*?match \*value \{(.*?)\n        \}", src, re.S)
    arms, default_none = [], False
    if m:
        for a in re.finditer(r"(\w+|\d+)\s*\.\.=\s*(\w+)\s*=>\s*Some\(Self::(\w+)\)|_\s*=>\s*(\w+)", m.group(1)):
            if a.group(4):
                default_none = a.group(4) == "None"
            else:
                lo, hi, var = a.group(1), a.group(2), a.group(3)
                if lo != "0" or hi not in consts or var not in disc:
                    arms = None
                    break
                arms.append((consts[hi], disc[var]))
    if arms:
        o.define("fromVarintArms", "List (Nat × Nat)", "[" + ", ".join(f"({a}, {b})" for a, b in arms) + "]",
                 "PacketNumberLenValue::from_varint arms in source order: (`0..=MAX` bound, variant discriminant)")
        o.define("fromVarintDefaultNone", "Bool", "true" if default_none else "false", "from_varint: `_ => None`")
    else:
        o.fail("fromVarintArms", "List (Nat × Nat)", "[]", "from_varint arms not recognised")
        o.fail("fromVarintDefaultNone", "Bool", "false", "from_varint arms not recognised")
    # from_packet_tag
    m = re.search(r"fn from_packet_tag\(tag: u8\) -> Self \{\s*match tag & (\w+) \{(.*?)\n        \}", src, re.S)
    src_mod = strip_comments(read(repo, D + "mod.rs"))
    mc = _consts(src_mod)
    tags = []
    if m and m.group(1) in mc:
        for a in re.finditer(r"(\w+) => Self::(\w+)", m.group(2)):
            if a.group(1) in consts and a.group(2) in disc:
                tags.append((consts[a.group(1)], disc[a.group(2)]))
        o.define("lenMask", "Nat", str(mc[m.group(1)]), "PACKET_NUMBER_LEN_MASK (from_packet_tag matches on `tag & MASK`)")
        o.define("tagArms", "List (Nat × Nat)", "[" + ", ".join(f"({a}, {b})" for a, b in tags) + "]",
                 "from_packet_tag arms (tag value, variant discriminant)")
    else:
        o.fail("lenMask", "Nat", "0", "from_packet_tag not recognised")
        o.fail("tagArms", "List (Nat × Nat)", "[]", "from_packet_tag not recognised")
    m = re.search(r"fn into_packet_tag_mask\(self\) -> u8 \{\s*self as u8\s*\}", src)
    o.define("intoTagIsDiscriminant", "Bool", "true" if m else "false", "PacketNumberLenValue::into_packet_tag_mask = `self as u8`")
    m1 = re.search(r"fn bytesize\(self\) -> usize \{\s*self as usize \+ (\d+)\s*\}", src)
    m2 = re.search(r"fn bitsize\(self\) -> usize \{\s*self\.bytesize\(\) \* (\d+)\s*\}", src)
    if m1 and m2:
        o.define("sizeParams", "Nat × Nat", f"({m1.group(1)}, {m2.group(1)})", "bytesize = discriminant + a ; bitsize = bytesize * b")
    else:
        o.fail("sizeParams", "Nat × Nat", "(0, 0)", "bytesize / bitsize not recognised")
    # truncate_packet_number casts: (variant, cast width, value mask width)
    m = re.search(r"fn truncate_packet_number\(\s*self,\s*value: VarInt,\s*space: PacketNumberSpace,?\s*\) -> TruncatedPacketNumber \{\s*match self \{(.*?)\n        \}", src, re.S)
    casts = []
    if m:
        for a in re.finditer(r"Self::(\w+) => TruncatedPacketNumber::new\((.*?), space\),", m.group(1), re.S):
            var, e = a.group(1), " ".join(a.group(2).split())
            mm = re.fullmatch(r"\*value as u(\d+)", e)
            m24 = re.fullmatch(r"u24::new_truncated\(\*value as u(\d+)\)", e)
            if var in disc and mm:
                casts.append((disc[var], int(mm.group(1)), int(mm.group(1))))
            elif var in disc and m24:
                casts.append((disc[var], int(m24.group(1)), 24))
    if len(casts) == 4:
        o.define("truncateCasts", "List (Nat × Nat × Nat)", "[" + ", ".join(f"({a}, {b}, {c})" for a, b, c in casts) + "]",
                 "truncate_packet_number arms: (variant, `as uN` width, bits kept)")
    else:
        o.fail("truncateCasts", "List (Nat × Nat × Nat)", "[]", "truncate_packet_number arms not recognised")
    # u24::new_truncated mask in s2n-codec
    try:
        un = strip_comments(read(repo, "common/s2n-codec/src/unaligned.rs"))
        mt = re.search(r"pub fn new_truncated\(value: \$storage_type\) -> Self \{\s*Self\(value & \(\(1 << \$bitsize\) - 1\)\)\s*\}", un)
        mu = re.search(r"unaligned_integer_type!\(u24, (\d+), u32,", un)
        o.define("u24TruncateBits", "Nat", mu.group(1) if (mt and mu) else "0", "s2n_codec::u24::new_truncated keeps `value & ((1 << bitsize) - 1)`, bitsize")
        if not (mt and mu):
            o.failed.append("u24TruncateBits: u24::new_truncated not recognised")
    except Exception as e:
        o.fail("u24TruncateBits", "Nat", "0", f"unaligned.rs: {e!r}")
    # derive_truncation_range chain
    m = re.search(r"fn derive_truncation_range\(\s*largest_acknowledged_packet_number: PacketNumber,\s*packet_number: PacketNumber,?\s*\) -> Option<PacketNumberLen> \{(.*?)\n\}", src_mod, re.S)
    chain = []
    if m:
        body = " ".join(m.group(1).split())
        mm = re.search(r"(\w+) \.as_u64\(\) \.checked_sub\((\w+)\.as_u64\(\)\) "
                       r"\.and_then\(\|value\| value\.checked_mul\((\d+)\)\) "
                       r"\.and_then\(\|value\| VarInt::new\(value\)\.ok\(\)\) "
                       r"\.and_then\(\|value\| PacketNumberLen::from_varint\(value, space\)\)", body)
        if mm:
            chain = [f"checked_sub {mm.group(1)} {mm.group(2)}", f"checked_mul {mm.group(3)}", "varint_new", "from_varint"]
    if chain:
        o.define("deriveChain", "List String", "[" + ", ".join(f'"{c}"' for c in chain) + "]",
                 "derive_truncation_range: the checked chain, in order")
    else:
        o.fail("deriveChain", "List String", "[]", "derive_truncation_range changed shape")
    # PacketNumber::truncate argument order, next / prev
    srcp = strip_comments(read(repo, D + "packet_number.rs"))
    m = re.search(r"derive_truncation_range\(largest_acknowledged_packet_number, self\)\?\s*\.truncate_packet_number\(Self::as_varint\(self\)\)", srcp)
    o.define("truncateCallOk", "Bool", "true" if m else "false",
             "PacketNumber::truncate = derive_truncation_range(largest_acknowledged, self)?.truncate_packet_number(as_varint(self))")
    mn = re.search(r"pub fn next\(self\) -> Option<Self> \{\s*let value = Self::as_varint\(self\)\.checked_add\(VarInt::from_u8\((\d+)\)\)\?;", srcp)
    mp = re.search(r"pub fn prev\(self\) -> Option<Self> \{\s*let value = Self::as_varint\(self\)\.checked_sub\(VarInt::from_u8\((\d+)\)\)\?;", srcp)
    if mn and mp:
        o.define("nextPrevStep", "Nat × Nat", f"({mn.group(1)}, {mp.group(1)})", "PacketNumber::next / prev: VarInt checked_add / checked_sub of")
    else:
        o.fail("nextPrevStep", "Nat × Nat", "(0, 0)", "PacketNumber::next / prev changed shape")
    # decode_packet_number
    try:
        lean, prefix, cand_ok, clamp_ok = _decode_fn(src_mod)
        o.define("adjustCandidate", "Nat → Nat → Nat → Nat → Option Nat", lean,
                 "second half of decode_packet_number (flags a b c d, ab, cd, the two conditional updates, clamp), translated statement by statement")
        o.define("decodePrefix", "Nat × Nat × Nat × Nat", f"({prefix[0]}, {prefix[1]}, {prefix[2]}, {prefix[3]})",
                 "expected = largest + a ; win = b << nbits ; hwin = win / c ; mask = win - d")
        o.define("candidateIsAndNotOr", "Bool", "true" if cand_ok else "false", "candidate_pn = (expected_pn & !pn_mask) | truncated_pn.into_u64()")
        o.define("clampToVarIntMax", "Bool", "true" if clamp_ok else "false", "VarInt::new(candidate_pn).unwrap_or(VarInt::MAX), returned as the packet number")
    except Exception as e:
        o.fail("adjustCandidate", "Nat → Nat → Nat → Nat → Option Nat", "fun _ _ _ _ => none", f"decode_packet_number: {e}")
        o.fail("decodePrefix", "Nat × Nat × Nat × Nat", "(0, 0, 0, 0)", "decode_packet_number not translated")
        o.fail("candidateIsAndNotOr", "Bool", "false", "decode_packet_number not translated")
        o.fail("clampToVarIntMax", "Bool", "false", "decode_packet_number not translated")
    # 2^62 - 1
    srcv = strip_comments(read(repo, "quic/s2n-quic-core/src/varint/mod.rs"))
    m = re.search(r"pub const MAX_VARINT_VALUE: u64 = (\d[\d_]*);", srcv)
    m2 = re.search(r"pub const MAX: Self = Self\(MAX_VARINT_VALUE\);", srcv)
    if m and m2:
        o.define("maxPn", "Nat", str(rust_int(m.group(1))), "VarInt::MAX = MAX_VARINT_VALUE (largest packet number)")
    else:
        o.fail("maxPn", "Nat", "0", "VarInt::MAX not found")
    return o
