from extract import *


def extract(repo):
    """tie G for the range sets: the default ACK range limit and the comparison shapes of the limit /
    eviction / scan-hint rules (the places where a one-token mutation changes the semantics)."""
    o = Out("AckRanges")
    st = strip_comments(read(repo, "quic/s2n-quic-core/src/ack/settings.rs"))
    m = re.search(r"const RECOMMENDED_RANGES_LIMIT: u8 = ([\w]+);", st)
    if m:
        o.define("recommendedRangesLimit", "Nat", str(rust_int(m.group(1))), "ack/settings.rs RECOMMENDED_RANGES_LIMIT")
    else:
        o.fail("recommendedRangesLimit", "Nat", "0", "RECOMMENDED_RANGES_LIMIT not found")
    uses = bool(re.search(r"ack_ranges_limit:\s*RECOMMENDED_RANGES_LIMIT", st)) and \
        bool(re.search(r"impl Default for Settings \{\s*fn default\(\) -> Self \{\s*Self::RECOMMENDED\s*\}", st))
    rg = strip_comments(read(repo, "quic/s2n-quic-core/src/ack/ranges.rs"))
    uses = uses and bool(re.search(r"Self::new\(Settings::default\(\)\.ack_ranges_limit as usize\)", rg))
    o.define("defaultIsRecommended", "Bool", "true" if uses else "false",
             "Ranges::default() = Ranges::new(Settings::default().ack_ranges_limit) and Settings::default() = RECOMMENDED with RECOMMENDED_RANGES_LIMIT")
    # eviction rule: `if min < pn_range.start()` re-insert, else `insert_front(min)`
    m = re.search(r"match self\.0\.pop_min\(\) \{\s*Some\(min\) => \{\s*if min (<=|<|>=|>) pn_range\.(start|end)\(\) \{", rg)
    if m:
        o.define("evictCmp", "String × String", f'("{m.group(1)}", "{m.group(2)}")', "ack/ranges.rs: `if min <op> pn_range.<bound>()` decides between dropping the lowest range and rejecting the new one")
    else:
        o.fail("evictCmp", "String × String", '("", "")', "eviction comparison not recognised")
    m = re.search(r"\} else \{\s*let _ = self\.0\.insert_front\(min\);", rg)
    o.define("evictElsePutsMinBack", "Bool", "true" if m else "false", "the else branch re-inserts the popped minimum")
    ins = strip_comments(read(repo, "quic/s2n-quic-core/src/interval_set/insert.rs"))
    m = re.search(r"limit\.get\(\) (<=|<|>=|>) prev_len", ins)
    if m:
        o.define("insertUnderLimitCmp", "String", f'"{m.group(1)}"', "insert.rs ensure_can_insert: `limit.get() <op> prev_len`")
    else:
        o.fail("insertUnderLimitCmp", "String", '""', "ensure_can_insert comparison not recognised")
    rem = strip_comments(read(repo, "quic/s2n-quic-core/src/interval_set/remove.rs"))
    m = re.search(r"limit\.map\(\|l\| l\.get\(\) (<=|<|>=|>) ranges\.len\(\)( \+ (\d+))?\)\.unwrap_or\((true|false)\)", rem)
    if m:
        o.define("removeCanPush", "String × Nat × Bool", f'("{m.group(1)}", {m.group(3) or 0}, {m.group(4)})',
                 "remove.rs can_push_range: `l.get() <op> ranges.len() + <k>`, default when unlimited")
    else:
        o.fail("removeCanPush", "String × Nat × Bool", '("", 0, false)', "can_push_range not recognised")
    md = strip_comments(read(repo, "quic/s2n-quic-core/src/interval_set/mod.rs"))
    m = re.search(r"fn index_for\(.*?if self\.interval_len\(\) (<=|<) (\d+) \{\s*return 0;", md, re.S)
    if m:
        o.define("indexForLinear", "String × Nat", f'("{m.group(1)}", {m.group(2)})', "mod.rs index_for: linear scan from 0 while `interval_len() <op> <n>`")
    else:
        o.fail("indexForLinear", "String × Nat", '("", 0)', "index_for threshold not recognised")
    iv = strip_comments(read(repo, "quic/s2n-quic-core/src/interval_set/interval.rs"))
    m = re.search(r"fn should_coalesce\(&self, other: &Self\) -> bool \{\s*self\.start (<=|<) other\.(end_exclusive|end_inclusive)\(\)", iv)
    if m:
        o.define("shouldCoalesce", "String × String", f'("{m.group(1)}", "{m.group(2)}")', "interval.rs should_coalesce: `self.start <op> other.<bound>()`")
    else:
        o.fail("shouldCoalesce", "String × String", '("", "")', "should_coalesce not recognised")
    return o
