"""tie G for the reassembly buffer: constants, the allocation table and the text of every `ensure!`
condition of `Cursors::handle_reader_fin` / `Reassembler::skip` / `Request::new`, re-read from the source."""
from extract import *

SRC = "quic/s2n-quic-core/src/buffer/reassembler.rs"
REQ = "quic/s2n-quic-core/src/buffer/reassembler/request.rs"
VARINT = "quic/s2n-quic-core/src/varint/mod.rs"

CMP = {"==": "==", "<=": "≤", ">=": "≥", "<": "<", ">": ">", "!=": "≠"}


def cmp_to_lean(expr, names):
    """`A op B` over known operand spellings -> Lean Bool; None when the expression has another shape"""
    m = re.fullmatch(r"\s*(.+?)\s*(==|<=|>=|!=|<|>)\s*(.+?)\s*", expr, re.S)
    if not m:
        return None
    a, op, b = m.group(1).strip(), m.group(2), m.group(3).strip()
    if a not in names or b not in names:
        return None
    if op == "==":
        return f"{names[a]} == {names[b]}"
    return f"decide ({names[a]} {CMP[op]} {names[b]})"


def body_of(src, header_re):
    """text of the brace-balanced block that follows the first match of header_re"""
    m = re.search(header_re, src)
    if not m:
        return None
    i = src.index("{", m.end() - 1)
    depth = 0
    for j in range(i, len(src)):
        if src[j] == "{":
            depth += 1
        elif src[j] == "}":
            depth -= 1
            if depth == 0:
                return src[i:j + 1]
    return None


def extract(repo):
    o = Out("Reassembler")
    src = strip_comments(read(repo, SRC))
    req = strip_comments(read(repo, REQ))
    vsrc = strip_comments(read(repo, VARINT))

    m = re.search(r"const MIN_BUFFER_ALLOCATION_SIZE: usize = ([\d_]+);", src)
    min_alloc = rust_int(m.group(1)) if m else None
    if m:
        o.define("minBufferAllocationSize", "Nat", str(min_alloc), "MIN_BUFFER_ALLOCATION_SIZE")
    else:
        o.fail("minBufferAllocationSize", "Nat", "0", "MIN_BUFFER_ALLOCATION_SIZE not found")

    m = re.search(r"const UNKNOWN_FINAL_SIZE: u64 = u64::MAX;", src)
    o.define("unknownFinalIsU64Max", "Bool", "true" if m else "false", "UNKNOWN_FINAL_SIZE = u64::MAX (not a valid VarInt)")

    m = re.search(r"pub const MAX_VARINT_VALUE: u64 = (\d[\d_]*);", vsrc)
    if m:
        o.define("maxOffset", "Nat", str(rust_int(m.group(1))), "VarInt::MAX (MAX_VARINT_VALUE)")
    else:
        o.fail("maxOffset", "Nat", "0", "MAX_VARINT_VALUE not found")

    # ---- allocation_size: the loop is evaluated, the comparison is translated ----
    body = body_of(src, r"fn allocation_size\(offset: u64\) -> usize \{")
    table = None
    if body and min_alloc is not None:
        lo_hi = re.search(r"for pow in \((\d+)\.\.=(\d+)\)(\.rev\(\))?\s*\{", body)
        e_mult = re.search(r"let mult = ([^;]+);", body)
        e_sq = re.search(r"let square = ([^;]+);", body)
        e_min = re.search(r"let min_offset = \(([^;]+)\) as u64;", body)
        e_alloc = re.search(r"let allocation_size = ([^;]+);", body)
        e_cmp = re.search(r"if ([^{]+)\{\s*return allocation_size;\s*\}", body)
        e_def = re.search(r"\}\s*(\w+)\s*\}\s*$", body)
        if lo_hi and e_mult and e_sq and e_min and e_alloc and e_cmp and e_def:
            pows = list(range(int(lo_hi.group(1)), int(lo_hi.group(2)) + 1))
            if lo_hi.group(3):
                pows.reverse()
            try:
                table = []
                for pw in pows:
                    env = {"pow": pw, "MIN_BUFFER_ALLOCATION_SIZE": min_alloc}
                    ok_expr = r"[\w\s*+<>()-]*"
                    for name, e in (("mult", e_mult), ("square", e_sq), ("min_offset", e_min), ("allocation_size", e_alloc)):
                        if not re.fullmatch(ok_expr, e.group(1)):
                            raise ValueError(e.group(1))
                        env[name] = int(eval(e.group(1), {"__builtins__": {}}, env))
                    table.append((env["min_offset"], env["allocation_size"]))
            except Exception:
                table = None
            hit = cmp_to_lean(e_cmp.group(1), {"offset": "offset", "min_offset": "minOffset"})
            if table is not None and hit and e_def.group(1) == "MIN_BUFFER_ALLOCATION_SIZE":
                o.define("allocTable", "List (Nat × Nat)", "[" + ", ".join(f"({a}, {b})" for a, b in table) + "]",
                         "Reassembler::allocation_size rows in loop order (min_offset, allocation_size); default MIN_BUFFER_ALLOCATION_SIZE")
                o.lines.append("/-- the row test of allocation_size -/")
                o.lines.append(f"def allocHit (offset minOffset : Nat) : Bool := {hit}")
                o.lines.append("")
                o.items.append("allocHit")
            else:
                table = None
    if table is None:
        o.fail("allocTable", "List (Nat × Nat)", "[]", "Reassembler::allocation_size shape changed")
        o.fail("allocHit", "Nat → Nat → Bool", "fun _ _ => false", "Reassembler::allocation_size shape changed")

    body = body_of(src, r"fn align_offset\(offset: u64, alignment: usize\) -> u64 \{")
    ok = bool(body and re.search(r"\(offset / \(alignment as u64\)\) \* \(alignment as u64\)\s*\}\s*$", body))
    o.define("alignIsFloorMultiple", "Bool", "true" if ok else "false", "align_offset = (offset / alignment) * alignment")

    # ---- Cursors::handle_reader_fin ----
    body = body_of(src, r"fn handle_reader_fin<R>\(&mut self, reader: &mut R\) -> Result<\(\), Error<R::Error>>\s*where\s*R: Reader \+ \?Sized,\s*\{")
    conds = {}
    shape = False
    if body:
        bo = re.search(r"let buffered_offset = reader\s*\.current_offset\(\)\s*\.checked_add_usize\(reader\.buffered_len\(\)\)\s*"
                       r"\.ok_or\(Error::OutOfRange\)\?\s*\.as_u64\(\);", body)
        mt = re.search(r"match \(reader\.final_offset\(\), self\.final_size\(\)\) \{", body)
        a1 = re.search(r"\(Some\(actual\), Some\(expected\)\) => \{\s*ensure!\(([^,]+), Err\(Error::InvalidFin\)\);\s*\}", body)
        a2 = re.search(r"\(Some\(final_offset\), None\) => \{\s*let final_offset = final_offset\.as_u64\(\);\s*"
                       r"ensure!\(([^,]+), Err\(Error::InvalidFin\)\);\s*self\.final_offset = final_offset;\s*\}", body)
        a3 = re.search(r"\(None, Some\(expected\)\) => \{\s*ensure!\(([^,]+), Err\(Error::InvalidFin\)\);\s*\}", body)
        a4 = re.search(r"\(None, None\) => \{\s*\}", body)
        mx = re.search(r"\}\s*self\.max_recv_offset = self\.max_recv_offset\.max\(buffered_offset\);\s*Ok\(\(\)\)\s*\}\s*$", body)
        shape = all([bo, mt, a1, a2, a3, a4, mx])
        if a1:
            conds["finKnownOk"] = cmp_to_lean(a1.group(1), {"actual": "actual", "expected": "expected"})
        if a2:
            conds["finNewOk"] = cmp_to_lean(a2.group(1), {"self.max_recv_offset": "maxRecv", "final_offset": "finalOffset"})
        if a3:
            conds["dataKnownOk"] = cmp_to_lean(a3.group(1), {"expected": "expected", "buffered_offset": "bufferedOffset"})
    o.define("handleReaderFinShape", "Bool", "true" if shape else "false",
             "handle_reader_fin: buffered_offset = current_offset +? buffered_len (OutOfRange), 4-arm match on (reader fin, known final), "
             "ensure! before `self.final_offset = final_offset`, then max_recv_offset = max(max_recv_offset, buffered_offset)")
    sigs = {"finKnownOk": "(actual expected : Nat)", "finNewOk": "(maxRecv finalOffset : Nat)", "dataKnownOk": "(expected bufferedOffset : Nat)"}
    for k, sig in sigs.items():
        if conds.get(k):
            o.lines.append(f"/-- ensure! condition of handle_reader_fin ({k}) -/")
            o.lines.append(f"def {k} {sig} : Bool := {conds[k]}")
            o.lines.append("")
            o.items.append(k)
        else:
            o.fail(k, "Nat → Nat → Bool", "fun _ _ => false", f"handle_reader_fin condition {k} not recognised")

    # ---- Reassembler::skip ----
    body = body_of(src, r"pub fn skip\(&mut self, len: VarInt\) -> Result<\(\), Error> \{")
    shape = False
    cond = None
    if body:
        z = re.search(r"ensure!\(len > VarInt::ZERO, Ok\(\(\)\)\);", body)
        ns = re.search(r"let new_start_offset = self\s*\.cursors\s*\.start_offset\s*\.checked_add\(len\.as_u64\(\)\)\s*"
                       r"\.and_then\(\|v\| VarInt::new\(v\)\.ok\(\)\)\s*\.ok_or\(Error::OutOfRange\)\?;", body)
        fs = re.search(r"if let Some\(final_size\) = self\.final_size\(\) \{\s*ensure!\(\s*([^,]+),\s*Err\(Error::InvalidFin\)\s*\);\s*\}", body)
        mx = re.search(r"self\.cursors\.max_recv_offset = self\.cursors\.max_recv_offset\.max\(new_start_offset\.as_u64\(\)\);", body)
        st = re.search(r"self\.cursors\.start_offset = new_start_offset\.as_u64\(\);", body)
        shape = all([z, ns, fs, mx, st]) and z.start() < ns.start() < fs.start() < mx.start() < st.start()
        if fs:
            cond = cmp_to_lean(fs.group(1), {"final_size": "finalSize", "new_start_offset.as_u64()": "newStart"})
    o.define("skipShape", "Bool", "true" if shape else "false",
             "skip: zero-length no-op; start_offset +? len must be a VarInt (OutOfRange); final-size ensure!; "
             "max_recv_offset = max(.., new start); start_offset = new start — in this order")
    if cond:
        o.lines.append("/-- ensure! condition of skip -/")
        o.lines.append(f"def skipFinalOk (finalSize newStart : Nat) : Bool := {cond}")
        o.lines.append("")
        o.items.append("skipFinalOk")
    else:
        o.fail("skipFinalOk", "Nat → Nat → Bool", "fun _ _ => false", "skip final-size condition not recognised")

    # ---- Request::new, write_reader, observers ----
    ok = bool(re.search(r"pub fn new\(offset: VarInt, data: &'a \[u8\], is_fin: bool\) -> Result<Self, Error> \{\s*offset\s*"
                        r"\.checked_add_usize\(data\.len\(\)\)\s*\.ok_or\(Error::OutOfRange\)\?;", req))
    o.define("requestNewChecksEnd", "Bool", "true" if ok else "false", "Request::new: offset +? data.len() must be a VarInt (OutOfRange)")
    ok = bool(re.search(r"fn final_offset\(&self\) -> Option<VarInt> \{\s*if self\.is_fin \{\s*Some\(self\.current_offset\(\) \+ self\.data\.len\(\)\)\s*"
                        r"\} else \{\s*None\s*\}\s*\}", req))
    o.define("requestFinalIsEnd", "Bool", "true" if ok else "false", "Request::final_offset = current_offset + data.len() iff is_fin")
    body = body_of(src, r"pub fn write_reader<R>\(&mut self, reader: &mut R\) -> Result<\(\), Error<R::Error>>\s*where\s*R: Reader \+ \?Sized,\s*\{")
    ok = False
    if body:
        a = re.search(r"reader\.skip_until\(self\.current_offset\(\)\)\?;", body)
        b = re.search(r"self\.cursors\.handle_reader_fin\(reader\)\?;", body)
        c = re.search(r"self\.write_reader_impl\(reader\)", body)
        ok = bool(a and b and c and a.start() < b.start() < c.start())
    o.define("writeReaderOrder", "Bool", "true" if ok else "false", "write_reader: trim consumed data, then handle_reader_fin, then store")
    ok = bool(re.search(r"pub fn is_reading_complete\(&self\) -> bool \{\s*self\.final_size\(\) == Some\(self\.cursors\.start_offset\)\s*\}", src))
    o.define("readingCompleteIsFinalEqStart", "Bool", "true" if ok else "false", "is_reading_complete = (final_size == Some(start_offset))")
    ok = bool(re.search(r"pub fn is_writing_complete\(&self\) -> bool \{\s*self\.final_size\(\)\s*\.is_some_and\(\|len\| self\.total_received_len\(\) == len\)\s*\}", src))
    o.define("writingCompleteIsTotalEqFinal", "Bool", "true" if ok else "false", "is_writing_complete = final_size.is_some_and(total_received_len == final)")
    return o
