from extract import *

AM = "quic/s2n-quic-transport/src/ack/ack_manager.rs"
TS = "quic/s2n-quic-transport/src/ack/ack_transmission_state.rs"
TR = "quic/s2n-quic-core/src/ack/transmission.rs"
ST = "quic/s2n-quic-core/src/ack/settings.rs"
RG = "quic/s2n-quic-core/src/ack/ranges.rs"
TP = "quic/s2n-quic-core/src/transport/parameters/mod.rs"
SP = "quic/s2n-quic-transport/src/space/mod.rs"


def norm(s):
    return re.sub(r"\s+", " ", s).strip()


def lean_str(s):
    return '"' + s.replace("\\", "\\\\").replace('"', '\\"') + '"'


def str_list(xs):
    return "[" + ", ".join(lean_str(x) for x in xs) + "]"


def non_test(src):
    """source text up to the `#[cfg(test)] mod tests` block"""
    m = re.search(r"#\[cfg\(test\)\]\s*mod tests", src)
    return src[:m.start()] if m else src


def fn_body(src, name):
    """text of `fn <name>` from its signature to the matching closing brace (brace counting)"""
    m = re.search(r"\bfn " + re.escape(name) + r"\b", src)
    if not m:
        return None
    i = src.index("{", m.end())
    # skip generic bounds / where clauses containing braces: find the first `{` that follows `)` or `->` section
    depth = 0
    j = i
    while j < len(src):
        if src[j] == "{":
            depth += 1
        elif src[j] == "}":
            depth -= 1
            if depth == 0:
                return src[m.start():j + 1]
        j += 1
    return None


def extract(repo):
    """tie G for the ACK half of C08: the constants, comparison shapes and statement orders of AckManager /
    AckTransmissionState / ack::transmission::Set that the Lean model (QuicModel/Conn/AckManager.lean) transcribes."""
    o = Out("AckManager")
    am = non_test(strip_comments(read(repo, AM)))
    ts = non_test(strip_comments(read(repo, TS)))
    tr = non_test(strip_comments(read(repo, TR)))
    st = non_test(strip_comments(read(repo, ST)))
    rg = non_test(strip_comments(read(repo, RG)))
    tp = strip_comments(read(repo, TP))
    sp = non_test(strip_comments(read(repo, SP)))

    # --- on_processed_packet ---------------------------------------------------------------
    pp = fn_body(am, "on_processed_packet") or ""
    m = re.search(r"let packet_tolerance = (\w+);", pp)
    if m:
        o.define("packetTolerance", "Nat", str(rust_int(m.group(1))), "ack_manager.rs on_processed_packet: `let packet_tolerance = <n>;`")
    else:
        o.fail("packetTolerance", "Nat", "0", "packet_tolerance not found")
    terms = [norm(x) for x in re.findall(r"should_activate \|= (.*?);", pp, re.S)]
    o.define("activationTerms", "List String", str_list(terms), "the `should_activate |= <term>;` statements of on_processed_packet, in order")
    m = re.search(r"let mut should_activate = (\w+);", pp)
    o.define("activationInit", "String", lean_str(m.group(1) if m else ""), "`let mut should_activate = <init>;`")
    m1 = re.search(r"let is_ordered = (.*?);", pp, re.S)
    m2 = re.search(r"let is_largest = (.*?);", pp, re.S)
    m3 = re.search(r"\.unwrap_or\(\((\w+), (\w+)\)\)", pp)
    o.define("orderedLargestDefs", "List String",
             str_list([norm(m1.group(1)) if m1 else "", norm(m2.group(1)) if m2 else "", f"{m3.group(1)},{m3.group(2)}" if m3 else ""]),
             "`let is_ordered = …;` `let is_largest = …;` and the `(is_ordered, is_largest)` default when the set is empty / `next()` overflows")
    # statement order inside on_processed_packet (first occurrence of each key token)
    keys = [("orderedLargest", r"let \(is_ordered, is_largest\)"), ("insert", r"self\.ack_ranges\.insert_packet_number\(packet_number\)"),
            ("ecn", r"self\.ecn_counts\.increment\("), ("onUpdate", r"self\.transmission_state\.on_update\(&self\.ack_ranges\)"),
            ("count", r"self\.processed_packets_since_transmission \+= 1"), ("largestAt", r"if is_largest \{"),
            ("schedule", r"if processed_packet\.is_ack_eliciting\(\) \{"), ("poll", r"self\.ack_delay_timer\.poll_expiration\(now\)\.is_ready\(\)")]
    found = []
    for k, rx in keys:
        mm = re.search(rx, pp)
        if mm:
            found.append((mm.start(), k))
    found.sort()
    o.define("processedOrder", "List String", str_list([k for _, k in found]),
             "order of the key statements of on_processed_packet (is_ordered/is_largest BEFORE the insert; the insert before on_update; the timer poll last)")
    m = re.search(r"if should_activate \{\s*self\.transmission_state\.activate\(\);\s*\} else if (.*?) \{\s*self\.ack_delay_timer\s*\.set\((.*?)\)\s*;?\s*\}", pp, re.S)
    if m:
        o.define("timerArm", "String × String", f"({lean_str(norm(m.group(1)))}, {lean_str(norm(m.group(2)))})",
                 "`if should_activate { activate } else if <cond> { self.ack_delay_timer.set(<deadline>) }`")
    else:
        o.fail("timerArm", "String × String", '("", "")', "timer arming statement not recognised")
    m = re.search(r"if self\.ack_delay_timer\.poll_expiration\(now\)\.is_ready\(\) \{\s*self\.transmission_state\.activate\(\);\s*\}", pp)
    o.define("processedPollActivates", "Bool", "true" if m else "false", "`if self.ack_delay_timer.poll_expiration(now).is_ready() { self.transmission_state.activate(); }` closes on_processed_packet")
    # the insert happens only here, and only after the frames were processed
    n_calls = 0
    for root, _, files in os.walk(os.path.join(repo, "quic/s2n-quic-transport/src")):
        for f in files:
            if f.endswith(".rs") and "test" not in f and "/tests" not in root and "snapshots" not in root:
                txt = non_test(strip_comments(open(os.path.join(root, f)).read()))
                n_calls += len(re.findall(r"\.ack_ranges\s*\.(?:insert\w*|union|insert_front)\(", txt))
    o.define("insertCallSites", "Nat × Bool", f"({n_calls}, {'true' if 'insert_packet_number(' in pp else 'false'})",
             "number of places in s2n-quic-transport (non-test) that add to an `.ack_ranges` field (`.ack_ranges.insert*(` / `.union(`), and whether on_processed_packet has the insert")
    # an insertion that reports an error (range could not be inserted / the LOWEST range was evicted to make room for this packet)
    # only publishes events: the rest of on_processed_packet (ECN count, on_update, activation, ack-delay timer) still runs
    o.define("processedEarlyExits", "Nat", str(len(re.findall(r"\breturn\b", pp))),
             "number of `return` statements in on_processed_packet (the function returns `()`; the model runs every step for every processed packet)")
    hp = fn_body(sp, "handle_cleartext_payload") or ""
    i_icpt = hp.find("intercept_rx_payload(")
    i_loop = hp.find("while !payload.is_empty()")
    i_noframes = hp.find("processed_packet.frames == 0")
    i_proc = hp.find("self.on_processed_packet(")
    ok = 0 <= i_icpt < i_loop < i_noframes < i_proc and hp.count("self.on_processed_packet(") == 1
    o.define("processedAfterFrames", "Bool", "true" if ok else "false",
             "space/mod.rs handle_cleartext_payload: intercept_rx_payload < `while !payload.is_empty()` frame loop < `frames == 0` check < the single `self.on_processed_packet(` call")
    sites = []
    for f in ("initial", "handshake", "application"):
        txt = non_test(strip_comments(read(repo, f"quic/s2n-quic-transport/src/space/{f}.rs")))
        body = fn_body(txt, "on_processed_packet") or ""
        sites.append(txt.count("ack_manager.on_processed_packet(") == 1 and "self.ack_manager.on_processed_packet(" in body)
    o.define("spacesNotifyInOnProcessed", "Bool", "true" if all(sites) else "false",
             "space/{initial,handshake,application}.rs: the only `ack_manager.on_processed_packet(` call is inside `fn on_processed_packet`")

    # --- AckTransmissionState ----------------------------------------------------------------
    vals = {}
    for c in ("INTERVAL_SCALE", "RANGE_SCALE", "MAX_RETRANSMISSIONS"):
        m = re.search(r"const " + c + r": usize = (\w+);", ts)
        vals[c] = rust_int(m.group(1)) if m else None
    if all(v is not None for v in vals.values()):
        o.define("scales", "Nat × Nat × Nat", f"({vals['INTERVAL_SCALE']}, {vals['RANGE_SCALE']}, {vals['MAX_RETRANSMISSIONS']})",
                 "ack_transmission_state.rs on_update: INTERVAL_SCALE, RANGE_SCALE, MAX_RETRANSMISSIONS")
    else:
        o.fail("scales", "Nat × Nat × Nat", "(0, 0, 0)", "scale constants not found")
    ou = fn_body(ts, "on_update") or ""
    budget = [norm(x) for x in re.findall(r"(?:let mut )?new_retransmissions (?:\+?=) (.*?);", ou, re.S)]
    o.define("budgetStatements", "List String", str_list(budget), "right-hand sides of the `new_retransmissions` assignments of on_update, in order")
    m = re.search(r"if ack_ranges\.is_empty\(\) \{\s*\*self = AckTransmissionState::Disabled;\s*return self;\s*\}", ou)
    o.define("updateEmptyDisables", "Bool", "true" if m else "false", "on_update: empty ranges => Disabled")
    arms = re.search(r"match self \{(.*)\}\s*self\s*\}$", ou, re.S)
    upd = [norm(pat + " => " + body) for pat, body in
           re.findall(r"(Self::\w+(?: \{ \w+ \})?) => \{\s*(.*?)\s*\}(?=\s*Self::|\s*$)", arms.group(1) if arms else "", re.S)]
    o.define("updateArms", "List String", str_list(upd), "on_update: the three match arms (pattern => body)")
    sh = fn_body(ts, "should_transmit") or ""
    m = re.search(r"match self \{(.*?)\}\s*\}$", sh, re.S)
    arms = [norm(a) for a in re.split(r",\s*\n", m.group(1)) if norm(a)] if m else []
    arms = [a.rstrip(",") for a in arms]
    o.define("shouldTransmitArms", "List String", str_list(arms), "should_transmit: the match arms in source order")
    ac = fn_body(ts, "activate") or ""
    m = re.search(r"if let Self::Passive \{ retransmissions \} = \*self \{\s*\*self = AckTransmissionState::Active \{ retransmissions \}\s*;?\s*\}", ac)
    o.define("activatePassiveOnly", "Bool", "true" if m and ac.count("*self =") == 1 else "false", "activate: only `Passive{n}` becomes `Active{n}`")
    ot = fn_body(ts, "on_transmit") or ""
    m = re.search(r"Self::Active \{ retransmissions \} \| Self::Passive \{ retransmissions \} => \{\s*if let Some\(retransmissions\) = retransmissions\.checked_sub\((\d+)\) \{\s*"
                  r"\*self = AckTransmissionState::Passive \{ retransmissions \};\s*\} else \{\s*\*self = AckTransmissionState::Disabled;\s*\}", ot)
    o.define("onTransmitStep", "Nat", m.group(1) if m else "0", "on_transmit: Active|Passive{n} -> Passive{n - <k>} via checked_sub, else Disabled")
    ti = ts[ts.find("fn transmission_interest"):]
    o.define("interestForcedWhenActive", "Bool", "true" if re.search(r"if self\.is_active\(\) \{\s*query\.on_forced\(\)\?;\s*\}", ti) else "false",
             "transmission_interest: `if self.is_active() { query.on_forced()?; }`")

    # --- on_transmit / on_transmit_complete / on_packet_ack / on_packet_loss / on_timeout --------------
    tc = fn_body(am, "on_transmit_complete") or ""
    order = []
    for k, rx in [("cancel", r"self\.ack_delay_timer\.cancel\(\)"), ("largestAcked", r"self\.largest_received_packet_number_acked = self\s*\.ack_ranges\s*\.max_value\(\)"),
                  ("record", r"self\.ack_eliciting_transmissions\s*\.on_transmit\("), ("stateOnTransmit", r"self\.transmission_state\s*\.on_transmit\("),
                  ("resetCount", r"self\.processed_packets_since_transmission = Counter::new\(0\)")]:
        mm = re.search(rx, tc)
        if mm:
            order.append((mm.start(), k))
    order.sort()
    o.define("completeOrder", "List String", str_list([k for _, k in order]), "key statements of on_transmit_complete, in order")
    m = re.search(r"self\.transmissions_since_elicitation\s*(>=|>|==|<=|<)\s*self\.ack_settings\.ack_elicitation_interval", tc)
    o.define("pingCmp", "String", lean_str(m.group(1) if m else ""), "on_transmit_complete: `transmissions_since_elicitation <op> ack_elicitation_interval`")
    m = re.search(r"ack::Transmission \{\s*sent_in_packet: context\.packet_number\(\),\s*largest_received_packet_number_acked: self\.largest_received_packet_number_acked,\s*\}", tc)
    o.define("recordsLargestAcked", "Bool", "true" if m else "false", "the recorded Transmission carries the packet number of the packet and `largest_received_packet_number_acked` (= max_value at transmission)")
    pa = fn_body(am, "on_packet_ack") or ""
    m = re.search(r"if let Some\(ack_range\) = self\.ack_eliciting_transmissions\.on_update\(ack_set\) \{\s*self\.ack_ranges\s*\.remove\(ack_range\)", pa)
    o.define("packetAckRemovesRange", "Bool", "true" if m and "transmission_state" not in pa else "false",
             "on_packet_ack: removes the range handed out by `ack_eliciting_transmissions.on_update(ack_set)` and does not touch transmission_state")
    ar = fn_body(tr, "ack_range") or ""
    m = re.search(r"if ack_set\.contains\(self\.sent_in_packet\) \{.*?Some\((\w+)(\.\.=|\.\.)(.*?)\)\s*\} else \{\s*None", ar, re.S)
    z = re.search(r"let pn_zero = self\s*\.largest_received_packet_number_acked\s*\.space\(\)\s*\.new_packet_number\(Default::default\(\)\);", ar)
    if m:
        o.define("cutoffRange", "String × String × String", f"({lean_str(m.group(1) if z or m.group(1) != 'pn_zero' else '?')}, {lean_str(m.group(2))}, {lean_str(norm(m.group(3)))})",
                 "ack/transmission.rs Transmission::ack_range: `Some(<lo><op><hi>)` when the set contains `sent_in_packet`; `pn_zero` = packet number 0 of the space")
    else:
        o.fail("cutoffRange", "String × String × String", '("", "", "")', "Transmission::ack_range not recognised")
    su = fn_body(tr, "on_update") or ""
    i_latest = su.find(".latest")
    i_stable = su.find(".stable\n")
    if i_stable < 0:
        i_stable = su.find("self\n            .stable")
    m_l = re.search(r"\.latest\s*\.as_ref\(\)\s*\.and_then\(\|transmission\| transmission\.ack_range\(ack_set\)\)\s*\{\s*self\.stable = None;\s*self\.latest = None;\s*return Some\(ack_range\);", su)
    m_s = re.search(r"\.stable\s*\.as_ref\(\)\s*\.and_then\(\|transmission\| transmission\.ack_range\(ack_set\)\)\s*\{\s*self\.stable = self\.latest;\s*return Some\(ack_range\);", su)
    o.define("setUpdateShape", "Bool × Bool × Bool", f"({'true' if m_l else 'false'}, {'true' if m_s else 'false'}, {'true' if (m_l and m_s and m_l.start() < m_s.start()) else 'false'})",
             "Set::on_update: latest match clears both slots; stable match promotes latest; latest is tried first")
    so = fn_body(tr, "on_transmit") or ""
    m = re.search(r"self\.latest = Some\(transmission\);\s*if self\.stable\.is_none\(\) \{\s*self\.stable = Some\(transmission\);\s*\}", so)
    o.define("setTransmitShape", "Bool", "true" if m else "false", "Set::on_transmit: latest := t; stable := t if empty")
    pl = fn_body(am, "on_packet_loss") or ""
    m = re.search(r"\.on_update\(ack_set\)\s*\.is_some\(\)\s*\{\s*self\.transmission_state\.on_update\(&self\.ack_ranges\);\s*self\.transmission_state\.activate\(\);\s*\}", pl)
    o.define("lossUpdatesThenActivates", "Bool", "true" if m else "false", "on_packet_loss: on_update(&ack_ranges) then activate() when a recorded transmission was lost")
    to = fn_body(am, "on_timeout") or ""
    m = re.search(r"if self\.ack_delay_timer\.poll_expiration\(timestamp\)\.is_ready\(\) \{\s*self\.transmission_state\.activate\(\);\s*\}", to)
    o.define("timeoutActivates", "Bool", "true" if m else "false", "on_timeout: expired delay timer => activate()")
    ot2 = fn_body(am, "on_transmit") or ""
    m = re.search(r"let has_ranges = !self\.ack_ranges\.is_empty\(\);.*?\.should_transmit\(constraint, mode, has_ranges\);\s*if !should_transmit \{\s*return false;\s*\}.*?"
                  r"ack_ranges: &self\.ack_ranges,", ot2, re.S)
    o.define("transmitWritesAllRanges", "Bool", "true" if m else "false", "on_transmit: gated by should_transmit(constraint, mode, !ack_ranges.is_empty()); the frame borrows the whole `ack_ranges`")

    # --- ranges iteration order, settings -----------------------------------------------------------
    m = re.search(r"fn ack_ranges\(&self\) -> Self::Iter \{\s*self\.0\.inclusive_ranges\(\)(\.rev\(\))?\.map\(", rg)
    o.define("ackRangesDescending", "Bool", "true" if m and m.group(1) else "false", "ack/ranges.rs `ack_ranges()`: `inclusive_ranges().rev()` (largest range first)")
    m = re.search(r"impl MaxAckDelay \{\s*pub const RECOMMENDED: Self = Self\(VarInt::from_u\d+\((\w+)\)\);", tp)
    d = re.search(r"pub const fn as_duration\(self\) -> Duration \{\s*Duration::from_millis\(self\.0\.as_u64\(\)\)", tp)
    if m and d:
        o.define("defaultMaxAckDelayUs", "Nat", str(rust_int(m.group(1)) * 1000), "MaxAckDelay::RECOMMENDED (ms, `as_duration` = from_millis) in µs")
    else:
        o.fail("defaultMaxAckDelayUs", "Nat", "0", "MaxAckDelay::RECOMMENDED not found")
    m = re.search(r"impl AckDelayExponent \{\s*pub const RECOMMENDED: Self = Self\((\w+)\);", tp)
    e = re.search(r"const RECOMMENDED_ELICITATION_INTERVAL: u8 = (\w+);", st)
    l = re.search(r"const RECOMMENDED_RANGES_LIMIT: u8 = (\w+);", st)
    rec = re.search(r"pub const RECOMMENDED: Self = Self \{\s*max_ack_delay: MaxAckDelay::RECOMMENDED\.as_duration\(\),\s*ack_delay_exponent: AckDelayExponent::RECOMMENDED\.as_u8\(\),\s*"
                    r"ack_elicitation_interval: RECOMMENDED_ELICITATION_INTERVAL,\s*ack_ranges_limit: RECOMMENDED_RANGES_LIMIT,\s*\};", st)
    if m and e and l and rec:
        o.define("recommended", "Nat × Nat × Nat", f"({rust_int(m.group(1))}, {rust_int(e.group(1))}, {rust_int(l.group(1))})",
                 "Settings::RECOMMENDED: ack_delay_exponent, ack_elicitation_interval, ack_ranges_limit")
    else:
        o.fail("recommended", "Nat × Nat × Nat", "(0, 0, 0)", "Settings::RECOMMENDED not recognised")
    early = re.search(r"pub const EARLY: Self = Self \{\s*max_ack_delay: Duration::from_secs\((\d+)\),\s*ack_delay_exponent: (\d+),\s*\.\.Self::RECOMMENDED\s*\};", st)
    if early:
        o.define("early", "Nat × Nat", f"({int(early.group(1)) * 1000000}, {early.group(2)})", "Settings::EARLY: max_ack_delay (µs), ack_delay_exponent")
    else:
        o.fail("early", "Nat × Nat", "(1, 1)", "Settings::EARLY not recognised")
    nw = fn_body(am, "new") or ""
    m = re.search(r"ack_ranges: ack::Ranges::new\(ack_settings\.ack_ranges_limit as usize\)", nw)
    o.define("rangesLimitFromSettings", "Bool", "true" if m else "false", "AckManager::new: `ack::Ranges::new(ack_settings.ack_ranges_limit as usize)`")
    rt = strip_comments(read(repo, "quic/s2n-quic-core/src/recovery/rtt_estimator.rs"))
    tsx = strip_comments(read(repo, "quic/s2n-quic-core/src/time/timestamp.rs"))
    m = re.search(r"pub const K_GRANULARITY: Duration = Duration::from_millis\((\d+)\);", rt)
    h = re.search(r"now \+= K_GRANULARITY\.as_micros\(\) as u64;\s*self\.0\.get\(\) (<=|<) now", tsx)
    if m and h:
        o.define("granularity", "Nat × String", f"({int(m.group(1)) * 1000}, {lean_str(h.group(1))})", "K_GRANULARITY in µs and the comparison of Timestamp::has_elapsed (`self <op> now + K_GRANULARITY`)")
    else:
        o.fail("granularity", "Nat × String", '(0, "")', "K_GRANULARITY / has_elapsed not recognised")
    return o
