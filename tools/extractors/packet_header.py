"""Tie G for packet headers: first-byte tag constants and the dispatch of `decode_packet`, the version peek, the
20-byte connection-ID limit and the decode sites where it is enforced (token level: which of
`decode_destination_connection_id` / `decode_source_connection_id` / `decode_checked_range` each long-header
decoder calls for DCID and SCID), the length-prefix types, the Retry integrity-tag length and the Retry / Version
Negotiation structural checks, the `usize` connection-ID validator, version constants and encoder tag masks
(quic/s2n-quic-core/src/packet/{mod,decoding,long,initial,zero_rtt,handshake,retry,version_negotiation,short,key_phase}.rs,
crypto/retry.rs, connection/id.rs)."""
from extract import *

P = "quic/s2n-quic-core/src/packet/"
CMP = {"<=": "le", "<": "lt", ">=": "ge", ">": "gt", "==": "eq", "!=": "ne"}


def _macro_range(src, name):
    m = re.search(r"macro_rules!\s*" + name + r"\s*\{\s*\(\)\s*=>\s*\{\s*([^}]*?)\s*\};?\s*\}", src, re.S)
    if not m:
        return None
    body = m.group(1).strip()
    r = re.fullmatch(r"(\w+)\s*\.\.=\s*(\w+)", body)
    if r:
        return rust_int(r.group(1)), rust_int(r.group(2))
    try:
        v = rust_int(body)
        return v, v
    except Exception:
        return None


def _fn_body(src, sig_regex):
    """text of the first function whose header matches, up to the closing brace at the function's indentation"""
    m = re.search(sig_regex, src)
    if not m:
        return None
    start = m.start()
    line_start = src.rfind("\n", 0, start) + 1
    indent = re.match(r"[ \t]*", src[line_start:]).group(0)
    end = re.search(r"\n" + indent + r"\}", src[m.end():])
    if not end:
        return None
    return src[m.start():m.end() + end.end()]


def extract(repo):
    o = Out("PacketHeader")
    srcs = {}
    for f in ("mod", "decoding", "long", "initial", "zero_rtt", "handshake", "retry", "version_negotiation", "short", "key_phase"):
        try:
            srcs[f] = strip_comments(read(repo, P + f + ".rs"))
        except Exception:
            srcs[f] = ""

    # --- tag macros ------------------------------------------------------------------------------------------------
    for ident, f, macro, pair in (("shortTag", "short", "short_tag", True), ("vnTag", "version_negotiation", "version_negotiation_no_fixed_bit_tag", True),
                                  ("initialTag", "initial", "initial_tag", False), ("zeroRttTag", "zero_rtt", "zero_rtt_tag", False),
                                  ("handshakeTag", "handshake", "handshake_tag", False), ("retryTag", "retry", "retry_tag", False)):
        r = _macro_range(srcs[f], macro)
        if pair:
            if r:
                o.define(ident, "Nat × Nat", f"({r[0]}, {r[1]})", f"{f}.rs {macro}!() range")
            else:
                o.fail(ident, "Nat × Nat", "(0, 0)", f"{macro}! not found")
        else:
            if r and r[0] == r[1]:
                o.define(ident, "Nat", str(r[0]), f"{f}.rs {macro}!()")
            else:
                o.fail(ident, "Nat", "0", f"{macro}! not found")

    # --- decode_packet dispatch ---------------------------------------------------------------------------------------
    body = _fn_body(srcs["mod"], r"fn decode_packet<")
    shift = None
    arms = []
    peeks = False
    vn_guard = None
    if body:
        m = re.search(r"match tag >> (\d+) \{(.*)\}", body, re.S)
        if m:
            shift = int(m.group(1))
            mb = m.group(2)
            for a in re.finditer(r"(\w+)!\(\) => (long_packet!\((\w+), \w+\)|\{(.*?)\n\s{12}\})", mb, re.S):
                tagm = a.group(1)
                if a.group(3):
                    arms.append((tagm, a.group(3)))
                else:
                    blk = a.group(4)
                    if "ProtectedShort::decode" in blk:
                        arms.append((tagm, "ProtectedShort"))
                    elif "version_negotiation!(version)" in blk:
                        arms.append((tagm, "VersionNegotiationGuarded"))
                        g = re.search(r"decoder_invariant!\(\s*version_negotiation::VERSION (==|!=) version", blk)
                        vn_guard = g.group(1) if g else None
                    else:
                        arms.append((tagm, "?"))
            if re.search(r"_ => Err\(DecoderError::InvariantViolation\(\"invalid packet\"\)", mb):
                arms.append(("_", "InvalidPacket"))
        lp = re.search(r"macro_rules! long_packet \{(.*?)\n\s{8}\}", body, re.S)
        if lp:
            t = " ".join(lp.group(1).split())
            peeks = bool(re.search(r"let \(version, _peek\) = peek\.decode\(\)\?; if version == version_negotiation::VERSION \{ "
                                   r"version_negotiation!\(version\) \} else \{ let \(packet, buffer\) = \$struct::decode\(tag, version, buffer\)\?;", t))
    if shift is not None:
        o.define("dispatchShift", "Nat", str(shift), "mod.rs decode_packet: `match tag >> N`")
    else:
        o.fail("dispatchShift", "Nat", "0", "`match tag >> N` not found in decode_packet")
    if arms:
        o.define("dispatchArms", "List (String × String)", "[" + ", ".join(f'("{a}", "{b}")' for a, b in arms) + "]",
                 "mod.rs decode_packet arms in source order (tag macro, decoder)")
    else:
        o.fail("dispatchArms", "List (String × String)", "[]", "decode_packet arms not recognised")
    o.define("longPacketPeeksVersion", "Bool", "true" if peeks else "false",
             "long_packet!: `let (version, _peek) = peek.decode()?; if version == version_negotiation::VERSION { version_negotiation!(version) } else { $struct::decode(tag, version, buffer)? }`")
    o.define("vnGuardIsEq", "Bool", "true" if vn_guard == "==" else "false",
             "no-fixed-bit arm: `decoder_invariant!(version_negotiation::VERSION == version, ..)`")

    # --- limits and their comparison operators ---------------------------------------------------------------------------
    lg = srcs["long"]
    for ident, const, fn in (("maxDcidLen", "DESTINATION_CONNECTION_ID_MAX_LEN", "validate_destination_connection_id_len"),
                             ("maxScidLen", "SOURCE_CONNECTION_ID_MAX_LEN", "validate_source_connection_id_len")):
        m = re.search(r"const " + const + r": usize = ([^;]+);", lg)
        if m:
            o.define(ident, "Nat", str(const_expr(m.group(1))), "long.rs " + const)
        else:
            o.fail(ident, "Nat", "0", const + " not found")
        b = _fn_body(lg, r"fn " + fn + r"\(")
        m = re.search(r"decoder_invariant!\(\s*len (<=|<|>=|>|==|!=) " + const, b or "")
        o.define(ident + "Cmp", "String", f'"{CMP[m.group(1)]}"' if m else '"?"', f"long.rs {fn}: `len <op> {const}`")
    for ident, ty in (("dcidLenPrefix", "DestinationConnectionIdLen"), ("scidLenPrefix", "SourceConnectionIdLen")):
        m = re.search(r"type " + ty + r" = (\w+);", lg)
        o.define(ident, "String", f'"{m.group(1)}"' if m else '"?"', f"long.rs type {ty}")
    m1 = re.search(r"pub\(crate\) type Tag = (\w+);", srcs["mod"])
    m2 = re.search(r"type Version = (\w+);", lg)
    o.define("tagAndVersionTypes", "String × String", f'("{m1.group(1) if m1 else "?"}", "{m2.group(1) if m2 else "?"}")', "mod.rs type Tag, long.rs type Version")

    # --- decoding.rs: what the validated readers do ------------------------------------------------------------------------
    dc = srcs["decoding"]
    for ident, fn, val in (("decodeDcidValidates", "decode_destination_connection_id", "validate_destination_connection_id_range"),
                           ("decodeScidValidates", "decode_source_connection_id", "validate_source_connection_id_range"),
                           ("decodeShortDcidValidates", "decode_short_destination_connection_id", "validate_destination_connection_id_range")):
        b = _fn_body(dc, r"pub fn " + fn + r"\b")
        ok = bool(b and re.search(val + r"\(&\w+\)\?;", b))
        o.define(ident, "Bool", "true" if ok else "false", f"decoding.rs {fn} calls {val}(..)?")
    b = _fn_body(dc, r"pub fn decode_checked_range<")
    o.define("checkedRangeIsPlain", "Bool", "true" if b and "validate" not in b and "skip_into_range_with_len_prefix::<Len>" in b else "false",
             "decoding.rs decode_checked_range: skip_into_range_with_len_prefix::<Len>, no validation")
    b = _fn_body(lg, r"fn validate_destination_connection_id_range\(")
    b2 = _fn_body(lg, r"fn validate_source_connection_id_range\(")
    o.define("rangeValidatorsUseLen", "Bool",
             "true" if b and "validate_destination_connection_id_len(range.len())" in b and b2 and "validate_source_connection_id_len(range.len())" in b2 else "false",
             "long.rs validate_*_connection_id_range = validate_*_connection_id_len(range.len())")
    b = _fn_body(dc, r"pub fn new_long<")
    m = re.search(r"\.skip\(size_of::<Tag>\(\) \+ size_of::<Version>\(\)\)", b or "")
    b2 = _fn_body(dc, r"pub fn new_short<")
    m2 = re.search(r"\.skip\(size_of::<Tag>\(\)\)", b2 or "")
    o.define("headerDecoderSkips", "Bool × Bool", f"({'true' if m else 'false'}, {'true' if m2 else 'false'})",
             "decoding.rs new_long skips Tag+Version, new_short skips Tag")
    b = _fn_body(dc, r"pub fn finish_long\(")
    t = " ".join((b or "").split())
    ok = ("let (payload_len, peek) = self.peek.decode::<VarInt>()?;" in t and "let header_len = self.decoded_len();" in t
          and "self.peek = peek.skip(*payload_len as usize)?;" in t and "let packet_len = self.decoded_len();" in t)
    o.define("finishLongShape", "Bool", "true" if ok else "false", "decoding.rs finish_long: VarInt length, header_len, skip(length), packet_len")
    b = _fn_body(dc, r"pub fn finish_short\(")
    t = " ".join((b or "").split())
    o.define("finishShortShape", "Bool", "true" if "let header_len = self.decoded_len();" in t and "let packet_len = self.initial_buffer_len;" in t else "false",
             "decoding.rs finish_short: packet_len = initial_buffer_len")

    # --- which reader each long-header decoder calls ------------------------------------------------------------------------
    sites = []
    for f in ("initial", "zero_rtt", "handshake", "retry"):
        b = _fn_body(srcs[f], r"pub\(crate\) fn decode\(")
        d = s = None
        if b:
            t = " ".join(b.split())
            md = re.search(r"let destination_connection_id = decoder\s*\.\s*(decode_destination_connection_id\(&buffer\)|decode_checked_range::<DestinationConnectionIdLen>\(&buffer\))\?;", t)
            ms = re.search(r"let source_connection_id = decoder\s*\.\s*(decode_source_connection_id\(&buffer\)|decode_checked_range::<SourceConnectionIdLen>\(&buffer\))\?;", t)
            d = None if not md else md.group(1).startswith("decode_destination")
            s = None if not ms else ms.group(1).startswith("decode_source")
        if d is None or s is None:
            sites = None
            break
        sites.append((f, d, s))
    if sites:
        o.define("cidSites", "List (String × Bool × Bool)",
                 "[" + ", ".join(f'("{f}", {"true" if d else "false"}, {"true" if s else "false"})' for f, d, s in sites) + "]",
                 "per long-header decoder: (DCID read with the validated decode_destination_connection_id, SCID with decode_source_connection_id); false = plain decode_checked_range")
    else:
        o.fail("cidSites", "List (String × Bool × Bool)", "[]", "DCID/SCID readers of the long-header decoders not recognised")
    b = _fn_body(srcs["initial"], r"pub\(crate\) fn decode\(")
    t = " ".join((b or "").split())
    m = re.search(r"let token = decoder\.decode_checked_range::<(\w+)>\(&buffer\)\?;", t)
    o.define("initialTokenLenPrefix", "String", f'"{m.group(1)}"' if m else '"?"', "initial.rs: token = decode_checked_range::<T>")
    order = [x for x in re.findall(r"let (destination_connection_id|source_connection_id|token) =", t)]
    o.define("initialFieldOrder", "List String", "[" + ", ".join(f'"{x}"' for x in order) + "]", "initial.rs decode: field order")
    fin = all("decoder.finish_long()?.split_off_packet(buffer)?" in " ".join((_fn_body(srcs[f], r"pub\(crate\) fn decode\(") or "").split())
              for f in ("initial", "zero_rtt", "handshake"))
    o.define("longDecodersFinishLong", "Bool", "true" if fin else "false", "initial/zero_rtt/handshake decode end with finish_long()?.split_off_packet(buffer)?")

    # --- Retry ---------------------------------------------------------------------------------------------------------------
    try:
        cr = strip_comments(read(repo, "quic/s2n-quic-core/src/crypto/retry.rs"))
    except Exception:
        cr = ""
    m = re.search(r"pub const INTEGRITY_TAG_LEN: usize = ([^;]+);", cr)
    if m:
        o.define("integrityTagLen", "Nat", str(const_expr(m.group(1))), "crypto/retry.rs INTEGRITY_TAG_LEN")
    else:
        o.fail("integrityTagLen", "Nat", "0", "INTEGRITY_TAG_LEN not found")
    b = _fn_body(srcs["retry"], r"pub\(crate\) fn decode\(")
    t = " ".join((b or "").split())
    ok = ("let buffer_len = buffer.len().saturating_sub(retry::INTEGRITY_TAG_LEN);" in t
          and re.search(r"decoder_invariant!\(buffer_len > 0,", t) is not None
          and "let (retry_token, buffer) = buffer.decode_slice(buffer_len)?;" in t
          and "let (retry_integrity_tag, buffer) = buffer.decode_slice(retry::INTEGRITY_TAG_LEN)?;" in t)
    o.define("retryShape", "Bool", "true" if ok else "false",
             "retry.rs decode: token = all but the last INTEGRITY_TAG_LEN bytes, `buffer_len > 0`, tag = INTEGRITY_TAG_LEN bytes")

    # --- Version Negotiation ---------------------------------------------------------------------------------------------------
    vn = srcs["version_negotiation"]
    m = re.search(r"const VERSION: u32 = ([^;]+);", vn)
    if m:
        o.define("vnVersion", "Nat", str(const_expr(m.group(1))), "version_negotiation.rs VERSION")
    else:
        o.fail("vnVersion", "Nat", "1", "version_negotiation::VERSION not found")
    b = _fn_body(vn, r"pub fn decode\(")
    t = " ".join((b or "").split())
    ok = ("validate_destination_connection_id_len(destination_connection_id.len())?;" in t
          and "validate_source_connection_id_len(source_connection_id.len())?;" in t
          and "supported_versions.len() >= size_of::<u32>()," in t
          and "supported_versions.len().is_multiple_of(size_of::<u32>())," in t
          and t.index("validate_destination_connection_id_len") < t.index("decode_slice_with_len_prefix::<SourceConnectionIdLen>"))
    o.define("vnShape", "Bool", "true" if ok else "false",
             "version_negotiation.rs decode: both IDs validated (DCID before the SCID is read), payload >= 4 bytes and a multiple of 4")
    m = re.search(r"const ENCODING_TAG: u8 = ([^;]+);", vn)
    o.define("vnEncodingTag", "Nat", str(const_expr(m.group(1))) if m else "0", "version_negotiation.rs ENCODING_TAG")

    # --- short header ---------------------------------------------------------------------------------------------------------
    sh = srcs["short"]
    for ident, const, src in (("shortEncodingTag", "ENCODING_TAG", sh), ("spinBitMask", "SPIN_BIT_MASK", sh), ("keyPhaseMask", "KEY_PHASE_MASK", srcs["key_phase"])):
        m = re.search(r"const " + const + r": u8 = ([^;]+);", src)
        if m:
            o.define(ident, "Nat", str(const_expr(m.group(1))), const)
        else:
            o.fail(ident, "Nat", "0", const + " not found")
    try:
        cid = strip_comments(read(repo, "quic/s2n-quic-core/src/connection/id.rs"))
    except Exception:
        cid = ""
    b = _fn_body(cid, r"impl Validator for usize")
    t = " ".join((b or "").split())
    m = re.search(r"if buffer\.len\(\) (>=|>|<=|<|==) \*self \{ Some\(\*self\) \} else \{ None \}", t)
    o.define("usizeValidatorCmp", "String", f'"{CMP[m.group(1)]}"' if m else '"?"', "connection/id.rs impl Validator for usize: `buffer.len() <op> *self`")
    b = _fn_body(dc, r"pub fn decode_short_destination_connection_id<")
    t = " ".join((b or "").split())
    o.define("shortDcidUsesValidatorLen", "Bool",
             "true" if ".skip_into_range(destination_connection_id_len, buffer)?" in t and "self.peek.peek().into_less_safe_slice()" in t else "false",
             "decoding.rs decode_short_destination_connection_id: validator sees the bytes after the tag, range = the length it returns")
    return o
