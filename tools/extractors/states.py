"""Tie G (TRANSLATOR) for the protocol state machines written with the `event!` / `is!` macros of
quic/s2n-quic-core/src/state.rs.  Every `event! { name(A | B => C, ..); .. }` block of the files in MACHINES is parsed from
/repo's CURRENT source and re-emitted as a Lean machine (generated `inductive State`, `inductive Event`, the arm table
`arms : Event -> List (List State x State)` in source order, `step` = the macro semantics `Quic.State.step` applied to the arm
table, the `is!` predicates, the `#[default]` state).  The theorems of QuicProofs.Props.C20States are stated about these
generated machines, so a changed / added / removed arrow in the Rust source changes the object the theorems talk about.
The macro itself (state.rs) is fingerprinted: arm order = first match, assignment only in the matching arm, the NoOp rule
`targets.len() == <n> && targets[0].eq($state)` (the literal <n> is translated into `noOpArms`)."""
from extract import *

MACHINES = [
    ("Sender", "quic/s2n-quic-core/src/stream/state/send.rs"),
    ("Receiver", "quic/s2n-quic-core/src/stream/state/recv.rs"),
    ("DcSendWorker", "dc/s2n-quic-dc/src/stream/send/worker.rs"),
    ("DcRecvWorker", "dc/s2n-quic-dc/src/stream/recv/worker.rs"),
    ("DcHandshake", "dc/s2n-quic-dc/src/stream/shared/handshake.rs"),
    ("DcManager", "quic/s2n-quic-transport/src/dc/manager.rs"),
]
IDENT = r"[A-Za-z_][A-Za-z0-9_]*"


def balanced(src, i, open_c="{", close_c="}"):
    """src[i] == open_c; returns index after the matching close"""
    d = 0
    for j in range(i, len(src)):
        if src[j] == open_c:
            d += 1
        elif src[j] == close_c:
            d -= 1
            if d == 0:
                return j + 1
    raise ValueError("unbalanced")


def parse_machine(src):
    src = strip_comments(src)
    src = re.sub(r"#\s*\[\s*doc\s*=\s*\"[^\"]*\"\s*\]", "", src)
    ms = list(re.finditer(r"\bevent!\s*\{", src))
    if len(ms) != 1:
        raise ValueError(f"{len(ms)} event! blocks")
    ev_start = ms[0].end() - 1
    ev_end = balanced(src, ev_start)
    body = src[ev_start + 1:ev_end - 1]
    impls = [m for m in re.finditer(r"\bimpl\s+(" + IDENT + r")\s*\{", src) if m.end() <= ev_start]
    if not impls:
        raise ValueError("enclosing impl not found")
    im = impls[-1]
    impl_end = balanced(src, im.end() - 1)
    if impl_end < ev_end:
        raise ValueError("event! block outside the impl")
    enum_name = im.group(1)
    impl_body = src[im.end():impl_end - 1]
    em = re.search(r"\benum\s+" + enum_name + r"\s*\{", src)
    if not em:
        raise ValueError("enum not found")
    ebody = src[em.end():balanced(src, em.end() - 1) - 1]
    states, default = [], None
    for part in ebody.split(","):
        part = part.strip()
        if not part:
            continue
        m = re.fullmatch(r"((?:#\s*\[[^\]]*\]\s*)*)(" + IDENT + r")", part)
        if not m:
            raise ValueError(f"enum variant not plain: {part!r}")
        if re.search(r"#\s*\[\s*default\s*\]", m.group(1)):
            default = m.group(2)
        states.append(m.group(2))
    if len(set(states)) != len(states) or not states:
        raise ValueError("bad variant list")
    # events
    events = []
    i = 0
    while True:
        rest = body[i:]
        if not rest.strip():
            break
        m = re.match(r"\s*(" + IDENT + r")\s*\(", rest)
        if not m:
            raise ValueError(f"event syntax: {rest.strip()[:40]!r}")
        j = i + m.end() - 1
        k = balanced(body, j, "(", ")")
        arms_src = body[j + 1:k - 1]
        m2 = re.match(r"\s*;", body[k:])
        if not m2:
            raise ValueError("missing `;` after event")
        i = k + m2.end()
        arms = []
        for a in arms_src.split(","):
            a = a.strip()
            if not a:
                continue
            m3 = re.fullmatch(r"(" + IDENT + r"(?:\s*\|\s*" + IDENT + r")*)\s*=>\s*(" + IDENT + r")", a)
            if not m3:
                raise ValueError(f"arm syntax: {a!r}")
            valid = [v.strip() for v in m3.group(1).split("|")]
            for v in valid + [m3.group(2)]:
                if v not in states:
                    raise ValueError(f"unknown state {v}")
            arms.append((valid, m3.group(2)))
        if not arms:
            raise ValueError(f"event {m.group(1)} without arms")
        events.append((m.group(1), arms))
    if len(set(e for e, _ in events)) != len(events) or not events:
        raise ValueError("bad event list")
    iss = []
    for m in re.finditer(r"\bis!\s*\(\s*(" + IDENT + r")\s*,\s*(" + IDENT + r"(?:\s*\|\s*" + IDENT + r")*)\s*,?\s*\)\s*;", impl_body):
        vs = [v.strip() for v in m.group(2).split("|")]
        for v in vs:
            if v not in states:
                raise ValueError(f"is!: unknown state {v}")
        iss.append((m.group(1), vs))
    if len(re.findall(r"\bis!\s*\(", impl_body)) != len(iss):
        raise ValueError("is! invocation not recognised")
    return enum_name, states, default, events, iss


def lean_id(x):
    return x if x not in ("end", "at", "from", "open", "in", "do", "then", "else", "if", "fun", "match", "with", "Type", "Prop") else f"«{x}»"


def emit(o, ns, rel, parsed):
    enum_name, states, default, events, iss = parsed
    L = o.lines
    L.append(f"/-! ### {ns}: `enum {enum_name}` of {rel} -/")
    L.append(f"namespace {ns}")
    L.append("inductive State where")
    L += [f"  | {lean_id(s)}" for s in states]
    L.append("  deriving DecidableEq, Repr")
    L.append("inductive Event where")
    L += [f"  | {lean_id(e)}" for e, _ in events]
    L.append("  deriving DecidableEq, Repr")
    L.append("def State.all : List State := [" + ", ".join("." + lean_id(s) for s in states) + "]")
    L.append("def Event.all : List Event := [" + ", ".join("." + lean_id(e) for e, _ in events) + "]")
    L.append("def State.name : State → String")
    L += [f"  | .{lean_id(s)} => \"{s}\"" for s in states]
    L.append("def Event.name : Event → String")
    L += [f"  | .{lean_id(e)} => \"{e}\"" for e, _ in events]
    L.append("/-- the `#[default]` variant -/")
    L.append("def init : Option State := " + (f"some .{lean_id(default)}" if default else "none"))
    L.append("/-- the arms of every event function, in source order: (valid states, target) -/")
    L.append("def arms : Event → List (List State × State)")
    for e, arms in events:
        L.append(f"  | .{lean_id(e)} => [" + ", ".join("([" + ", ".join("." + lean_id(v) for v in valid) + f"], .{lean_id(t)})" for valid, t in arms) + "]")
    L.append("/-- the event function generated by `event!` -/")
    L.append("def step (s : State) (e : Event) : Except Quic.State.Err State := Quic.State.step noOpArms (arms e) s")
    L.append("/-- the `is!` predicates (function name, states) -/")
    L.append("def isTable : List (String × List State) := [" + ", ".join(f"(\"{n}\", [" + ", ".join("." + lean_id(v) for v in vs) + "])" for n, vs in iss) + "]")
    L.append("def is (fn : String) (s : State) : Option Bool := (isTable.lookup fn).map (·.contains s)")
    L.append(f"end {ns}")
    L.append("")
    o.items.append(ns)


def emit_failed(o, ns, rel, why):
    L = o.lines
    L.append(f"/-! ### {ns}: EXTRACTION FAILED ({rel}): {why} -/")
    L.append(f"namespace {ns}")
    L.append("inductive State where\n  | ExtractionFailed\n  deriving DecidableEq, Repr")
    L.append("inductive Event where\n  | ExtractionFailed\n  deriving DecidableEq, Repr")
    L.append("def State.all : List State := []\ndef Event.all : List Event := []")
    L.append("def State.name : State → String := fun _ => \"?\"\ndef Event.name : Event → String := fun _ => \"?\"")
    L.append("def init : Option State := none")
    L.append("def arms : Event → List (List State × State) := fun _ => []")
    L.append("def step (s : State) (e : Event) : Except Quic.State.Err State := Quic.State.step noOpArms (arms e) s")
    L.append("def isTable : List (String × List State) := []")
    L.append("def is (fn : String) (s : State) : Option Bool := (isTable.lookup fn).map (·.contains s)")
    L.append(f"end {ns}")
    L.append("")
    o.failed.append(f"{ns}: {why}")


def norm(s):
    return re.sub(r"\s+", " ", s)


def extract(repo):
    o = Out("States")
    o.lines = ["/- GENERATED by /verif/tools/extract.py (tools/extractors/states.py) from /repo's working tree. Do not edit. -/",
               "import QuicModel.State.Machine",
               "namespace Quic.Generated.States", ""]
    # --- the macro
    try:
        msrc = norm(strip_comments(read(repo, "quic/s2n-quic-core/src/state.rs")))
    except Exception:
        msrc = ""
    m = re.search(r"macro_rules! __state_transition__ \{(.*?)\} pub use crate::__state_transition__ as transition;", msrc)
    tr = m.group(1) if m else ""
    m = re.search(r"if targets\.len\(\) == (\d+) && targets\[0\]\.eq\(\$state\) \{ let current = targets\[0\]\.clone\(\); "
                  r"Err\(\$crate::state::Error::NoOp \{ current \}\) \} else \{ Err\(\$crate::state::Error::InvalidTransition \{ "
                  r"current: \$state\.clone\(\), event: stringify!\(\$event\), \}\) \}", tr)
    if m:
        o.define("noOpArms", "Nat", m.group(1), "state.rs @build terminal rule: `if targets.len() == <n> && targets[0].eq($state) { Err(NoOp) } else { Err(InvalidTransition) }`")
    else:
        o.fail("noOpArms", "Nat", "0", "state.rs: the NoOp / InvalidTransition rule of __state_transition__ changed shape")
    first = re.search(r"if matches!\(\$state, \$valid\) \{.*?\*\$state = \$target; Ok\(\(\)\) \} else \{ \$crate::state::transition!\( "
                      r"@build \[\$\(\$targets,\)\* \$target\], \$event, \$state, \$\(\$remaining\)\* \) \}", tr)
    o.define("macroFirstMatch", "Bool", "true" if first and tr.count("*$state =") == 1 else "false",
             "state.rs @build: `if matches!($state, $valid) { .. *$state = $target; Ok(()) } else { <remaining arms, target appended to $targets> }`, the only assignment to the state")
    try:
        esrc = norm(strip_comments(read(repo, "quic/s2n-quic-core/src/state.rs")))
        ev = re.search(r"pub fn \$event\(&mut self\) -> \$crate::state::Result<Self> \{ \$crate::state::transition!\( @build \[\], \$event, self, "
                       r"\$\( \[\$\(Self::\$valid\)\|\* => Self::\$target\] \)\* \) \}", esrc)
        isok = re.search(r"pub fn \$function\(&self\) -> bool \{ matches!\(self, \$\(Self::\$state\)\|\*\) \}", esrc)
    except Exception:
        ev = isok = None
    o.define("macroEventPassesArmsInOrder", "Bool", "true" if ev else "false",
             "state.rs __state_event__: `fn $event(&mut self)` expands to transition!(@build [], $event, self, [Self::valid|.. => Self::target]*)")
    o.define("macroIsMatches", "Bool", "true" if isok else "false", "state.rs __state_is__: `matches!(self, Self::A | ..)`")
    # --- the machines
    for ns, rel in MACHINES:
        try:
            parsed = parse_machine(read(repo, rel))
        except Exception as e:
            emit_failed(o, ns, rel, str(e)[:200])
            continue
        emit(o, ns, rel, parsed)
    # --- dc use site: try_finish only calls on_recv_all_acks when no error was recorded, on_error records the error first
    try:
        ssrc = norm(strip_comments(read(repo, "dc/s2n-quic-dc/src/stream/send/state.rs")))
    except Exception:
        ssrc = ""
    g1 = re.search(r"fn try_finish\(&mut self\) \{ ensure!\(self\.unacked_ranges\.is_empty\(\)\); ensure!\(self\.error\.is_none\(\)\); "
                   r"ensure!\(self\.state\.on_recv_all_acks\(\)\.is_ok\(\)\); self\.clean_up\(\); \}", ssrc)
    g2 = re.search(r"ensure!\(self\.error\.is_none\(\)\); let error = Error::from\(error\); self\.error = Some\(ErrorState \{ error, source \}\);"
                   r".{0,200}?let _ = self\.state\.on_queue_reset\(\);", ssrc)
    n_acks = len(re.findall(r"\.on_recv_all_acks\(\)", ssrc))
    n_queue = len(re.findall(r"\.on_queue_reset\(\)", ssrc))
    o.define("dcTryFinishGuardsError", "Bool", "true" if (g1 and g2 and n_acks == 1 and n_queue == 1) else "false",
             "dc send/state.rs: the only `on_recv_all_acks()` is in try_finish after `ensure!(self.error.is_none())`, and the only `on_queue_reset()` is in on_error after `self.error = Some(..)` "
             "(so the arrow ResetQueued -> DataRecvd of the core machine is never taken by dc)")
    return o
