"""Tie G for property C04: which frames each packet-number space processes and which transport error code /
comparison each receive-side check uses — read from /repo's current source text.

FrameTable.lean:
  overrides        per space, the `handle_*_frame` methods its `impl PacketSpace` block defines itself
  dispatch         Frame::X  ->  handle_y_frame   (the `match frame` in `handle_cleartext_payload`)
  inlineFrames     frame variants consumed without any handler call
  required / defaultRejecting / defaultAccepting   the trait's own methods by kind of default body
  defaultCode      the code of `default_frame_handler!`
  closeTagOnly     `if frame.tag() != 0x1c { return Err(..PROTOCOL_VIOLATION) }` per space
  roleChecks       handlers of the application space that reject when `ENDPOINT_TYPE.is_server()`
  check_*          (comparison, error constant) at each anchored receive-side check
  errorCodes       `impl_errors!` name -> number
"""
from extract import *

SPACES = [("initial", "quic/s2n-quic-transport/src/space/initial.rs", "InitialSpace"),
          ("handshake", "quic/s2n-quic-transport/src/space/handshake.rs", "HandshakeSpace"),
          ("application", "quic/s2n-quic-transport/src/space/application.rs", "ApplicationSpace")]


def lean_str(s):
    return '"' + s.replace("\\", "\\\\").replace('"', '\\"') + '"'


def str_list(xs):
    return "[" + ", ".join(lean_str(x) for x in xs) + "]"


def block_after(src, start):
    """text of the brace block that opens at or after index `start`"""
    i = src.index("{", start)
    depth = 0
    for j in range(i, len(src)):
        if src[j] == "{":
            depth += 1
        elif src[j] == "}":
            depth -= 1
            if depth == 0:
                return src[i:j + 1]
    raise ValueError("unbalanced braces")


def fn_body(src, name):
    m = re.search(r"fn\s+" + re.escape(name) + r"\b", src)
    if not m:
        return None
    # skip the signature up to the body brace (the signature may contain `<...>` and `where`)
    return block_after(src, m.end())


def norm(s):
    return re.sub(r"\s+", " ", s).strip()


def extract(repo):
    o = Out("FrameTable")
    mod = strip_comments(read(repo, "quic/s2n-quic-transport/src/space/mod.rs"))

    # ---- per-space overrides ------------------------------------------------------------------
    ov = []
    close_only = []
    ok = True
    app_block = None
    for name, rel, ty in SPACES:
        try:
            src = strip_comments(read(repo, rel))
            m = re.search(r"impl<[^>]*>\s*PacketSpace<Config>\s*for\s*" + ty + r"<Config>", src)
            blk = block_after(src, m.end())
            hs = sorted(set(re.findall(r"fn\s+handle_(\w+)_frame\b", blk)))
            ov.append((name, hs))
            body = fn_body(blk, "handle_connection_close_frame") or ""
            mm = re.search(r"if\s+frame\.tag\(\)\s*!=\s*(0x[0-9a-fA-F]+|\d+)\s*\{\s*return\s+Err\(\s*transport::Error::(\w+)", body)
            close_only.append((name, (rust_int(mm.group(1)), mm.group(2)) if mm else None))
            if name == "application":
                app_block = blk
        except Exception:
            ok = False
    ty_ov = "List (String × List String)"
    if ok and len(ov) == 3:
        o.define("overrides", ty_ov, "[" + ", ".join(f"({lean_str(n)}, {str_list(h)})" for n, h in ov) + "]",
                 "handle_*_frame methods defined in each space's `impl PacketSpace` block")
        o.define("closeTagOnly", "List (String × Option (Nat × String))",
                 "[" + ", ".join(f"({lean_str(n)}, " + (f"some ({c[0]}, {lean_str(c[1])})" if c else "none") + ")" for n, c in close_only) + "]",
                 "`if frame.tag() != T { return Err(transport::Error::E) }` in handle_connection_close_frame")
    else:
        o.fail("overrides", ty_ov, "[]", "impl PacketSpace blocks not found")
        o.fail("closeTagOnly", "List (String × Option (Nat × String))", "[]", "impl PacketSpace blocks not found")

    # ---- the trait's own methods ---------------------------------------------------------------
    try:
        m = re.search(r"pub\s+trait\s+PacketSpace<[^{]*", mod)
        trait = block_after(mod, m.end() - 1)
        mac = re.search(r"macro_rules!\s*default_frame_handler\s*\{(.*?)\n\}", mod, re.S)
        mac_code = re.search(r"Err\(\s*transport::Error::(\w+)", mac.group(1)).group(1)
        required, rejecting, accepting = [], [], []
        for mm in re.finditer(r"default_frame_handler!\(\s*handle_(\w+)_frame\s*,", trait):
            rejecting.append((mm.group(1), mac_code))
        for mm in re.finditer(r"fn\s+handle_(\w+)_frame\b", trait):
            name = mm.group(1)
            # find whether the signature ends with `;` (required) or a body
            k = mm.end()
            depth = 0
            while True:
                ch = trait[k]
                if ch in "(<[":
                    depth += 1
                elif ch in ")>]":
                    # `->` contains '>' : ignore it
                    if not (ch == ">" and trait[k - 1] == "-"):
                        depth -= 1
                elif ch == ";" and depth == 0:
                    required.append(name)
                    break
                elif ch == "{" and depth == 0:
                    body = block_after(trait, k)
                    e = re.match(r"\{\s*Err\(\s*transport::Error::(\w+)", body)
                    if e:
                        rejecting.append((name, e.group(1)))
                    else:
                        accepting.append(name)
                    break
                k += 1
        o.define("required", "List String", str_list(sorted(required)), "PacketSpace methods without a default body")
        o.define("defaultRejecting", "List (String × String)",
                 "[" + ", ".join(f"({lean_str(n)}, {lean_str(c)})" for n, c in sorted(rejecting)) + "]",
                 "PacketSpace handle_*_frame defaults that return Err(transport::Error::<code>) (incl. default_frame_handler!)")
        o.define("defaultAccepting", "List String", str_list(sorted(accepting)), "PacketSpace handle_*_frame defaults that do not reject")
    except Exception as e:
        o.fail("required", "List String", "[]", f"trait PacketSpace not parsed: {e!r}")
        o.fail("defaultRejecting", "List (String × String)", "[]", "trait PacketSpace not parsed")
        o.fail("defaultAccepting", "List String", "[]", "trait PacketSpace not parsed")

    # ---- dispatch in handle_cleartext_payload ---------------------------------------------------
    try:
        body = fn_body(mod, "handle_cleartext_payload")
        mm = re.search(r"match\s+frame\s*\{", body)
        mblk = block_after(body, mm.start())
        arms = re.split(r"\n\s{16}Frame::", mblk)
        disp, inline = [], []
        for a in arms[1:]:
            var = re.match(r"(\w+)\(frame\)", a).group(1)
            h = re.search(r"self\s*\.\s*handle_(\w+)_frame\s*\(", a)
            if h:
                disp.append((var, h.group(1)))
            else:
                inline.append(var)
        o.define("dispatch", "List (String × String)", "[" + ", ".join(f"({lean_str(a)}, {lean_str(b)})" for a, b in sorted(disp)) + "]",
                 "Frame::<variant> => self.handle_<x>_frame(..) in handle_cleartext_payload")
        o.define("inlineFrames", "List String", str_list(sorted(inline)), "frame variants consumed without a handler call")
    except Exception as e:
        o.fail("dispatch", "List (String × String)", "[]", f"handle_cleartext_payload not parsed: {e!r}")
        o.fail("inlineFrames", "List String", "[]", "handle_cleartext_payload not parsed")

    # ---- role checks in the application space ----------------------------------------------------
    roles = []
    if app_block:
        for h in ("handshake_done", "new_token"):
            b = fn_body(app_block, f"handle_{h}_frame") or ""
            mm = re.search(r"if\s+Config::ENDPOINT_TYPE\.is_server\(\)\s*\{\s*return\s+Err\(\s*transport::Error::(\w+)", b)
            if mm:
                roles.append((h, mm.group(1)))
    o.define("roleChecks", "List (String × String)", "[" + ", ".join(f"({lean_str(a)}, {lean_str(b)})" for a, b in roles) + "]",
             "application-space handlers that start with `if Config::ENDPOINT_TYPE.is_server() { return Err(<code>) }`")

    # ---- receive-side checks: (comparison / shape, error constant) ----------------------------------
    def check(ident, rel, fn, pattern, note, container=None):
        try:
            src = strip_comments(read(repo, rel))
            if container:
                m = re.search(container, src)
                src = block_after(src, m.end())
            body = fn_body(src, fn)
            mm = re.search(pattern, norm(body))
            if not mm:
                raise ValueError("pattern not found")
            o.define(ident, "String × String", f"({lean_str(mm.group(1))}, {lean_str(mm.group(2))})", note)
        except Exception as e:
            o.fail(ident, "String × String", '("", "")', f"{note}: {e!r}")

    RS = "quic/s2n-quic-transport/src/stream/receive_stream.rs"
    check("checkStreamWindow", RS, "acquire_window_up_to",
          r"if offset (\S+) self\.read_window_sync\.latest_value\(\) \{ return Err\(transport::Error::(\w+)",
          "acquire_window_up_to: `if offset <op> self.read_window_sync.latest_value() { return Err(<code>) }`")
    check("checkConnWindow", "quic/s2n-quic-transport/src/stream/incoming_connection_flow_controller.rs", "acquire_window",
          r"if self\.remaining_window\(\) (\S+) desired \{ return Err\(transport::Error::(\w+)\)",
          "IncomingConnectionFlowControllerImpl::acquire_window: `if self.remaining_window() <op> desired { return Err(<code>) }`",
          container=r"impl IncomingConnectionFlowControllerImpl")
    check("checkDataOverflow", RS, "on_data",
          r"\.(checked_add_usize)\(frame\.data\.len\(\)\) \.ok_or_else\(\|\| \{ transport::Error::(\w+)",
          "on_data: offset + len overflow", container=r"impl ReceiveStream\b")
    check("checkOutOfRange", RS, "on_data", r"buffer::Error::(OutOfRange) => transport::Error::(\w+)", "on_data: reassembler OutOfRange", container=r"impl ReceiveStream\b")
    check("checkInvalidFin", RS, "on_data", r"buffer::Error::(InvalidFin) => transport::Error::(\w+)", "on_data: reassembler InvalidFin", container=r"impl ReceiveStream\b")
    check("checkResetFinalSize", RS, "init_reset",
          r"if Into::<u64>::into\(actual_size\) (\S+) total_size \{ return Err\(transport::Error::(\w+)",
          "init_reset: `if actual_size <op> total_size { return Err(<code>) }`")
    check("checkStreamLimit", "quic/s2n-quic-transport/src/stream/controller/remote_initiated.rs", "on_remote_open_stream",
          r"if stream_id (\S+) not_allowed_stream_id \{ return Err\(transport::Error::(\w+)\)",
          "on_remote_open_stream: `if stream_id <op> not_allowed_stream_id { return Err(<code>) }`")
    check("checkLocalUnopened", "quic/s2n-quic-transport/src/stream/manager.rs", "open_stream_if_necessary",
          r"\} else \{ if stream_id (\S+) first_unopened_id \{ return Err\( transport::Error::(\w+)",
          "open_stream_if_necessary, locally initiated id: `if stream_id <op> first_unopened_id { return Err(<code>) }`")
    check("checkMaxStreamDataRecvOnly", "quic/s2n-quic-transport/src/stream/stream_impl.rs", "on_max_stream_data",
          r"if (!self\.has_send) \{ return Err\(transport::Error::(\w+)",
          "StreamImpl::on_max_stream_data", container=r"impl StreamTrait for StreamImpl")
    check("checkRetireSeq", "quic/s2n-quic-transport/src/connection/local_id_registry.rs", "on_retire_connection_id",
          r"if sequence_number (\S+) self\.next_sequence_number \{ return Err\(LocalIdRegistrationError::(\w+)\)",
          "on_retire_connection_id: `if sequence_number <op> self.next_sequence_number`")
    check("checkRetireDcid", "quic/s2n-quic-transport/src/connection/local_id_registry.rs", "on_retire_connection_id",
          r"if id_info\.id (\S+) \*destination_connection_id \{ return Err\(LocalIdRegistrationError::(\w+)\)",
          "on_retire_connection_id: the id the packet was addressed to")

    # formulas of the advertised values
    def flag(ident, rel, fn, pattern, note, container=None):
        try:
            src = strip_comments(read(repo, rel))
            if container:
                m = re.search(container, src)
                src = block_after(src, m.end())
            body = norm(fn_body(src, fn))
            o.define(ident, "Bool", "true" if re.search(pattern, body) else "false", note)
        except Exception as e:
            o.fail(ident, "Bool", "false", f"{note}: {e!r}")

    flag("streamAdvertiseIsReleasedPlusDesired", RS, "release_window",
         r"^\{ self\.released_connection_window \+= amount; self\.read_window_sync\.update_latest_value\( self\.released_connection_window \.saturating_add\(VarInt::from_u32\(self\.desired_flow_control_window\)\), \); self\.connection_flow_controller\.release_window\(amount\); \}$",
         "ReceiveStreamFlowController::release_window: latest = released + desired (saturating); forwards `amount` to the connection controller")
    flag("connAdvertiseIsConsumedPlusDesired", "quic/s2n-quic-transport/src/stream/incoming_connection_flow_controller.rs", "release_window",
         r"^\{ self\.consumed_window \+= amount; debug_assert!\(.*?\); self\.read_window_sync\.update_latest_value\( self\.consumed_window \.saturating_add\(VarInt::from_u32\(self\.desired_flow_control_window\)\), \); \}$",
         "IncomingConnectionFlowControllerImpl::release_window: latest = consumed + desired (saturating)",
         container=r"impl IncomingConnectionFlowControllerImpl")
    flag("releaseOutstandingIsAcquiredMinusReleased", RS, "release_outstanding_window",
         r"^\{ let unreleased = self\.acquired_connection_window - self\.released_connection_window; self\.release_window\(unreleased\); \}$",
         "release_outstanding_window")
    flag("streamDesiredIsInitialWindow", "quic/s2n-quic-transport/src/stream/manager.rs", "insert_stream",
         r"initial_receive_window, desired_flow_control_window: initial_receive_window\.as_u64\(\) as u32,",
         "insert_stream: desired window = initial receive window")
    flag("connDesiredIsInitialWindow", "quic/s2n-quic-transport/src/stream/manager.rs", "new",
         r"IncomingConnectionFlowController::new\( initial_local_limits\.max_data, initial_local_limits\.max_data\.as_u64\(\) as u32, \)",
         "AbstractStreamManager::new: desired connection window = initial_max_data", container=r"impl<S: 'static \+ StreamTrait> stream::Manager for AbstractStreamManager<S>")
    flag("maxStreamsIsSyncedPlusLimitPlusRefillCapped", "quic/s2n-quic-transport/src/stream/controller/remote_initiated.rs", "on_timeout",
         r"let refill = self\.closed_streams - synced_closed_streams; let refill = self\.rtt_refill\.take\(refill\.as_u64\(\), now\);.*let max_streams = synced_closed_streams \.saturating_add\(self\.max_local_limit\) \.saturating_add\(refill\) \.min\(MAX_STREAMS_MAX_VALUE\); self\.max_streams_sync\.update_latest_value\(max_streams\);",
         "RemoteInitiated::on_timeout: MAX_STREAMS = synced_closed + max_local_limit + refill (refill ≤ closed - synced), capped")

    # decoder invariants
    def decoder(ident, rel, pattern, ty, render, note):
        try:
            src = norm(strip_comments(read(repo, rel)))
            mm = re.search(pattern, src)
            if not mm:
                raise ValueError("pattern not found")
            o.define(ident, ty, render(mm), note)
        except Exception as e:
            o.fail(ident, ty, {"Nat": "0", "Nat × Nat": "(0, 0)", "String": '""'}[ty], f"{note}: {e!r}")

    decoder("maxStreamsDecoderBound", "quic/s2n-quic-core/src/frame/max_streams.rs",
            r"decoder_invariant!\( \*maximum_streams <= ([^,]+),", "Nat", lambda m: str(const_expr(m.group(1))), "MAX_STREAMS decoder: value <= bound")
    decoder("streamsBlockedDecoderBound", "quic/s2n-quic-core/src/frame/streams_blocked.rs",
            r"decoder_invariant!\( \*stream_limit <= ([^,]+),", "Nat", lambda m: str(const_expr(m.group(1))), "STREAMS_BLOCKED decoder: value <= bound")
    decoder("ncidRetireInvariant", "quic/s2n-quic-core/src/frame/new_connection_id.rs",
            r"decoder_invariant!\( (retire_prior_to \S+ sequence_number),", "String", lambda m: lean_str(m.group(1)), "NEW_CONNECTION_ID decoder invariant")
    decoder("ncidLenRange", "quic/s2n-quic-core/src/frame/new_connection_id.rs",
            r"decoder_invariant!\( \((\d+)\.\.=(\d+)\)\.contains\(&connection_id_len\),", "Nat × Nat", lambda m: f"({m.group(1)}, {m.group(2)})", "NEW_CONNECTION_ID decoder: cid length range")
    decoder("decoderErrorCode", "quic/s2n-quic-core/src/transport/error.rs",
            r"impl From<DecoderError> for Error \{ fn from\(decoder_error: DecoderError\) -> Self \{ match decoder_error \{ DecoderError::InvariantViolation\(reason\) => \{ Self::(\w+)\.with_reason\(reason\) \} _ => Self::(\w+)\.with_reason",
            "String", lambda m: lean_str(m.group(1) if m.group(1) == m.group(2) else m.group(1) + "/" + m.group(2)), "every DecoderError becomes this transport error")
    decoder("retireErrorCode", "quic/s2n-quic-transport/src/space/application.rs",
            r"\.on_retire_connection_id\( .*? \) \.map_err\(\|err\| transport::Error::(\w+)\.with_reason\(err\.message\(\)\)\)", "String",
            lambda m: lean_str(m.group(1)), "handle_retire_connection_id_frame maps registry errors to this code")
    decoder("maxStreamsMaxValue", "quic/s2n-quic-transport/src/stream/controller/remote_initiated.rs",
            r"const MAX_STREAMS_MAX_VALUE: VarInt = unsafe \{ VarInt::new_unchecked\(([^)]+)\) \};", "Nat", lambda m: str(const_expr(m.group(1))), "MAX_STREAMS_MAX_VALUE")

    # error code numbers
    try:
        src = strip_comments(read(repo, "quic/s2n-quic-core/src/transport/error.rs"))
        m = re.search(r"\nimpl_errors!\s*\{(.*?)\n\}", src, re.S)
        codes = re.findall(r"^\s*([A-Z_]+)\s*=\s*(0x[0-9a-fA-F]+|\d+)", m.group(1), re.M)
        o.define("errorCodes", "List (String × Nat)", "[" + ", ".join(f"({lean_str(n)}, {rust_int(v)})" for n, v in codes) + "]", "impl_errors! table")
    except Exception as e:
        o.fail("errorCodes", "List (String × Nat)", "[]", f"impl_errors! not parsed: {e!r}")
    return o
