"""Tie G for C19: the constants and comparison operators of the dc replay window
(dc/s2n-quic-dc/src/path/secret/receiver.rs) and of the sender key-id counter (sender.rs).

Everything is captured as plain numbers / small token tables so that a semantic edit
(`>`->`>=`, `896`->`895`, `fetch_max`->`store`, a dropped `.filter(..)`, `u64::MAX`->`0`) changes the
generated value and breaks the bridge lemma in QuicProofs/Bridge/DcReplay.lean.
"""
from extract import *


def _fn_body(src, name):
    m = re.search(r"fn\s+" + name + r"\s*\(", src)
    if not m:
        return None
    i = src.index("{", m.end())
    depth = 0
    for j in range(i, len(src)):
        if src[j] == "{":
            depth += 1
        elif src[j] == "}":
            depth -= 1
            if depth == 0:
                return src[i:j + 1]
    return None


def _flag(o, ident, cond, note):
    o.define(ident, "Bool", "true" if cond else "false", note)


def extract(repo):
    o = Out("DcReplay")
    rx = strip_comments(read(repo, "dc/s2n-quic-dc/src/path/secret/receiver.rs"))
    sx = strip_comments(read(repo, "dc/s2n-quic-dc/src/path/secret/sender.rs"))

    m = re.search(r"const WINDOW: usize = ([^;]+);", rx)
    try:
        o.define("window", "Nat", str(const_expr(m.group(1))), "receiver.rs: const WINDOW")
    except Exception:
        o.fail("window", "Nat", "0", "const WINDOW not found")
    m = re.search(r"type Seen = BitArr!\(for (\w+)\);", rx)
    _flag(o, "seenIsWindowBits", bool(m and m.group(1) == "WINDOW"), "type Seen = BitArr!(for WINDOW)")
    # BitArr!(for N) rounds N up to whole usize words: len() = ceil(N/64)*64 on the 64-bit targets
    try:
        w = const_expr(re.search(r"const WINDOW: usize = ([^;]+);", rx).group(1))
        o.define("seenLen", "Nat", str((w + 63) // 64 * 64), "seen.len(): WINDOW rounded up to 64-bit words")
    except Exception:
        o.fail("seenLen", "Nat", "0", "const WINDOW not found")

    m = re.search(r"max_seen_key_id: AtomicU64::new\(([^)]+)\)", rx)
    if m and m.group(1).strip() == "u64::MAX":
        o.define("sentinel", "Nat", str(2**64 - 1), "State::new: max_seen_key_id sentinel")
    else:
        o.fail("sentinel", "Nat", "0", "State::new sentinel is not u64::MAX")

    pre = _fn_body(rx, "pre_authentication")
    m = pre and re.search(r"if identity\.key_id (==|!=|>=|<=|>|<) KeyId::MAX \{\s*return Err\(Error::(\w+)\);\s*\}\s*Ok\(\(\)\)", pre)
    if m:
        o.define("preCheck", "String × String", f'("{m.group(1)}", "{m.group(2)}")', "pre_authentication: comparison with KeyId::MAX and the error returned")
    else:
        o.fail("preCheck", "String × String", '("", "")', "pre_authentication shape changed")

    post = _fn_body(rx, "post_authentication")
    if post:
        norm = re.sub(r"\s+", " ", post)
        _flag(o, "postCallsPre", "self.pre_authentication(identity)?;" in norm, "post_authentication starts with the pre-check")
        i_lock = norm.find("self.seen.lock()")
        i_load = norm.find("self.max_seen_key_id.load(")
        i_store = norm.find("self.max_seen_key_id.store(")
        _flag(o, "maxAccessedUnderLock", 0 <= i_lock < i_load < i_store, "the lock is taken before max_seen_key_id is loaded and stored")
        m = re.search(r"let new_max = if previous_max (==|!=) u64::MAX \{ previous_max = (\d+); key_id \} else \{ previous_max\.(\w+)\(key_id\) \};", norm)
        if m:
            o.define("newMax", "String × Nat × String", f'("{m.group(1)}", {m.group(2)}, "{m.group(3)}")',
                     "new_max = if previous_max == u64::MAX { previous_max = 0; key_id } else { previous_max.max(key_id) }")
        else:
            o.fail("newMax", "String × Nat × String", '("", 1, "")', "new_max computation shape changed")
        _flag(o, "storesNewMax", "self.max_seen_key_id.store(new_max," in norm, "max_seen_key_id.store(new_max)")
        m = re.search(r"let delta = (\w+) (\S) (\w+);", norm)
        if m:
            o.define("delta", "String × String × String", f'("{m.group(1)}", "{m.group(2)}", "{m.group(3)}")', "delta = new_max - previous_max")
        else:
            o.fail("delta", "String × String × String", '("", "", "")', "delta shape changed")
        m = re.search(r"if delta (>=|<=|>|<|==) seen\.len\(\) as u64 \{ seen\.(\w+)\((\w+)\); \} else \{ seen\.(\w+)\(delta as usize\); \}", norm)
        if m:
            o.define("shift", "String × String × String × String", f'("{m.group(1)}", "{m.group(2)}", "{m.group(3)}", "{m.group(4)}")',
                     "if delta > seen.len() { seen.fill(false) } else { seen.shift_end(delta) }")
        else:
            o.fail("shift", "String × String × String × String", '("", "", "", "")', "window shift shape changed")
        m = re.search(r"let Ok\(idx\) = usize::try_from\((\w+) (\S) (\w+)\) else \{ return Err\(Error::(\w+)\); \};", norm)
        if m:
            o.define("index", "String × String × String × String", f'("{m.group(1)}", "{m.group(2)}", "{m.group(3)}", "{m.group(4)}")',
                     "idx = new_max - key_id (else Unknown)")
        else:
            o.fail("index", "String × String × String × String", '("", "", "", "")', "index computation shape changed")
        m = re.search(r"let ret = if let Some\(mut entry\) = seen\.get_mut\(idx\) \{ if (\!?)\*entry \{ return Err\(Error::(\w+)\); \} entry\.set\((\w+)\); Ok\(\(\)\) \} else \{ return Err\(Error::(\w+)\); \}; ret \}", norm)
        if m:
            o.define("testAndSet", "String × String × String × String", f'("{m.group(1)}", "{m.group(2)}", "{m.group(3)}", "{m.group(4)}")',
                     "if *entry { AlreadyExists } ; entry.set(true) ; Ok  /  out of range => Unknown")
        else:
            o.fail("testAndSet", "String × String × String × String", '("", "", "", "")', "test-and-set shape changed")
    else:
        for ident, ty, bv in [("postCallsPre", "Bool", "false"), ("maxAccessedUnderLock", "Bool", "false"), ("storesNewMax", "Bool", "false")]:
            o.fail(ident, ty, bv, "post_authentication not found")

    mu = _fn_body(rx, "minimum_unseen_key_id")
    norm = re.sub(r"\s+", " ", mu or "")
    m = re.search(r"KeyId::try_from\( self\.max_seen_key_id \.load\(Ordering::\w+\) \.(\w+)\((\d+)\), \) \.unwrap_or\( KeyId::(\w+), \)", norm)
    if m:
        o.define("minUnseen", "String × Nat × String", f'("{m.group(1)}", {m.group(2)}, "{m.group(3)}")', "minimum_unseen_key_id = max_seen.wrapping_add(1) or KeyId::MAX")
    else:
        o.fail("minUnseen", "String × Nat × String", '("", 0, "")', "minimum_unseen_key_id shape changed")

    # ---- sender -----------------------------------------------------------------
    m = re.search(r"current_id: AtomicU64::new\((\d+)\)", sx)
    if m:
        o.define("senderStart", "Nat", m.group(1), "sender::State::new: current_id start")
    else:
        o.fail("senderStart", "Nat", "1", "sender start value not found")
    nk = _fn_body(sx, "next_key_id")
    norm = re.sub(r"\s+", " ", nk or "")
    m = re.search(r"\.current_id \.(\w+)\(Ordering::\w+, Ordering::\w+, \|current\| \{ VarInt::try_from\(current (\S) (\d+)\) \.ok\(\) \.filter\(\|id\| \*id (==|!=|<|<=|>|>=) VarInt::(\w+)\) \.map\(\|id\| \*id\) \}\);", norm)
    if m:
        o.define("nextKeyId", "String × String × Nat × String × String",
                 f'("{m.group(1)}", "{m.group(2)}", {m.group(3)}, "{m.group(4)}", "{m.group(5)}")',
                 "next_key_id: fetch_update(|c| VarInt::try_from(c + 1).ok().filter(|id| *id != VarInt::MAX))")
    else:
        o.fail("nextKeyId", "String × String × Nat × String × String", '("", "", 0, "", "")', "next_key_id shape changed")
    _flag(o, "nextReturnsPrevious", bool(re.search(r'let id = id\.expect\("[^"]*"\);', norm)) and "VarInt::try_from(id).unwrap()" in norm,
          "next_key_id returns the value fetch_update handed back (the previous counter)")
    us = _fn_body(sx, "update_for_stale_key")
    norm = re.sub(r"\s+", " ", us or "")
    m = re.search(r"\{ self\.current_id\.(\w+)\((\*min_key_id[^,]*), Ordering::\w+\); \}", norm)
    if m:
        o.define("staleKey", "String × String", f'("{m.group(1)}", "{m.group(2).strip()}")', "update_for_stale_key: fetch_max(*min_key_id)")
    else:
        o.fail("staleKey", "String × String", '("", "")', "update_for_stale_key shape changed")
    return o
