"""Tie G for C13 (routing by connection ID, peer IDs of known paths): token-level extraction of

  connection/connection_id_mapper.rs  lookup_internal_connection_id: WHICH map is consulted first. `local_id_map` holds
                                      the ids the endpoint issued, `initial_id_map` the client-chosen original DCIDs
                                      of young connections (remote-controlled content). Consulting the initial map
                                      first lets a second client capture the datagrams of an established connection;
                                      no single-connection scenario notices the reordering, so it is pinned here.
  s2n-quic-core connection/id.rs      InitialId::MIN_LEN (ids shorter than this never hit the initial map)
  path/manager.rs                     update_active_path: when the peer migrates back to a KNOWN path whose peer
                                      connection id was retired meanwhile, a fresh id is consumed AND written back to
                                      `self[new_path_id].peer_connection_id` (dropping the write-back keeps sending to
                                      the retired id); on_new_connection_id replaces the active path's retired id.

Codes: map 1 = local_id_map, 2 = initial_id_map (0 = not recognised).
"""
from extract import *

MAPPER = "quic/s2n-quic-transport/src/connection/connection_id_mapper.rs"
IDRS = "quic/s2n-quic-core/src/connection/id.rs"
PATHMGR = "quic/s2n-quic-transport/src/path/manager.rs"


def squeeze(s):
    return re.sub(r"\s+", "", s)


def fn_body(src, name):
    m = re.search(r"\bfn\s+" + re.escape(name) + r"\b", src)
    if not m:
        return None
    i = src.find("{", m.end())
    if i < 0:
        return None
    depth = 0
    for j in range(i, len(src)):
        if src[j] == "{":
            depth += 1
        elif src[j] == "}":
            depth -= 1
            if depth == 0:
                return src[i + 1:j]
    return None


LOOKUP_SHAPE = ("letguard=self.state.lock().expect(\"shouldsucceedunlessthelockispoisoned\");"
                "guard.local_id_map.get(connection_id).map(|id|(id,connection::id::Classification::Local))"
                ".or_else(||{ifself.endpoint_type.is_server(){connection::InitialId::try_from(*connection_id).ok()"
                ".and_then(|initial_id|guard.initial_id_map.get(&initial_id))"
                ".map(|id|(id,connection::id::Classification::Initial))}else{None}})")


def extract(repo):
    o = Out("CidMapper")
    src = strip_comments(read(repo, MAPPER))
    body = fn_body(src, "lookup_internal_connection_id")
    sq = squeeze(body or "")
    # every consultation of one of the two maps inside the lookup, in source (= evaluation) order
    hits = [(m.start(), {"local_id_map": 1, "initial_id_map": 2}[m.group(1)])
            for m in re.finditer(r"\b(local_id_map|initial_id_map)\.get\(", sq)]
    order = [c for _, c in sorted(hits)]
    if body is None or not order:
        o.fail("lookupOrder", "List Nat", "[]", "lookup_internal_connection_id: no `<map>.get(` found")
    else:
        o.define("lookupOrder", "List Nat", nat_list(order),
                 "lookup_internal_connection_id: maps consulted, in evaluation order (1 = local_id_map, 2 = initial_id_map)")
    # the later consultations happen only when the earlier ones answered None: they live inside `.or_else(|| ..)`
    # closures chained on the first one
    nested = False
    if len(hits) >= 2:
        first_end = sq.find(")", hits[0][0])
        between = sq[first_end:hits[1][0]]
        nested = ".or_else(||" in between and between.count("{") > between.count("}")
    o.define("fallbackInsideOrElse", "Bool", "true" if nested else "false",
             "the second map is consulted inside `.or_else(|| { .. })` chained on the first lookup (only when the first answered None)")
    cls = []
    for pos, code in sorted(hits):
        m = re.search(r"Classification::(\w+)", sq[pos:])     # the classification attached to THIS map's answer
        cls.append((code, {"Local": 1, "Initial": 2}.get(m.group(1), 0) if m else 0))
    o.define("classificationOf", "List (Nat × Nat)", "[" + ", ".join(f"({a}, {b})" for a, b in cls) + "]",
             "(map, Classification attached to its answer): 1 = Local, 2 = Initial")
    o.define("initialMapServerOnly", "Bool",
             "true" if re.search(r"ifself\.endpoint_type\.is_server\(\)\{connection::InitialId::try_from\(\*connection_id\)\.ok\(\)\.and_then\(\|initial_id\|guard\.initial_id_map\.get\(&initial_id\)\)", sq) and sq.endswith("else{None}})") else "false",
             "the initial map is consulted only `if self.endpoint_type.is_server()` (else None), through InitialId::try_from(*connection_id).ok()")
    o.define("lookupShapeExact", "Bool", "true" if sq == LOOKUP_SHAPE else "false",
             "whitespace-insensitive text of the whole function body equals the transcribed one")
    ids = strip_comments(read(repo, IDRS))
    m = re.search(r"\bid!\(\s*InitialId\s*,\s*(\d+)\s*\)", ids)
    if m:
        o.define("initialIdMinLen", "Nat", str(rust_int(m.group(1))), "s2n-quic-core connection/id.rs: id!(InitialId, <MIN_LEN>)")
    else:
        o.fail("initialIdMinLen", "Nat", "0", "id!(InitialId, n) not found")

    # ---- path manager: peer ids of known paths ------------------------------------------------------
    pm = strip_comments(read(repo, PATHMGR))
    body = squeeze(fn_body(pm, "update_active_path") or "")
    guard = ("letmutpeer_connection_id=self[new_path_id].peer_connection_id;"
             "if!self.peer_id_registry.is_active(&peer_connection_id){peer_connection_id=self.peer_id_registry"
             ".consume_new_id_for_existing_path(new_path_id,peer_connection_id,publisher).ok_or(transport::Error::INTERNAL_ERROR,)?;};")
    i = body.find(guard)
    o.define("knownPathRetiredIdReplaced", "Bool", "true" if i >= 0 else "false",
             "update_active_path: `if !peer_id_registry.is_active(&peer_connection_id) { peer_connection_id = consume_new_id_for_existing_path(new_path_id, ..)? }`")
    wb = "self[new_path_id].peer_connection_id=peer_connection_id;"
    j = body.find(wb)
    k = body.find("self.activate_path(publisher,prev_path_id,new_path_id)")
    o.define("knownPathWritesBackPeerId", "Bool", "true" if (i >= 0 and j >= i + len(guard) - 1 and k > j) else "false",
             "update_active_path: `self[new_path_id].peer_connection_id = peer_connection_id;` after the replacement and before activate_path")
    body = squeeze(fn_body(pm, "on_new_connection_id") or "")
    ok = ("letactive_path_connection_id=self.active_path().peer_connection_id;"
          "if!self.peer_id_registry.is_active(&active_path_connection_id){self.active_path_mut().peer_connection_id=self.peer_id_registry"
          ".consume_new_id_for_existing_path(self.active_path_id(),active_path_connection_id,publisher,)") in body
    o.define("activePathRetiredIdReplaced", "Bool", "true" if ok else "false",
             "on_new_connection_id: a retired id of the ACTIVE path is replaced at once (`active_path_mut().peer_connection_id = consume_new_id_for_existing_path(..)`)")
    return o
