"""Tie G for C17 (lock-free spsc queue / wakers): the memory orderings of every atomic operation and
the ORDER of the synchronisation-relevant calls (store-then-wake, check/register/re-check, ...) of
the sync primitives, as plain string tables.  QuicProofs/Bridge/SyncOrderings.lean pins them; the
theorems are about an RA-semantics model whose transitions carry exactly these orderings."""
from extract import *

CORE = "quic/s2n-quic-core/src/"
PLATFORM = "quic/s2n-quic-platform/src/"

# files scanned for table (a), in this order
ATOMIC_FILES = ["sync/spsc/state.rs", "sync/cursor.rs", "sync/worker.rs", "sync/atomic_waker.rs"]

# (b): (crate prefix, file, emitted fn name, impl-header regex or None, fn name, tokens)
# a token `x` matches a call or macro invocation `x(` / `x!(`; `load:f` matches `f.load(` / `f().load(`
CALLS = [
    (CORE, "sync/spsc/state.rs", "persist_head", None, "persist_head", ["store", "wake"]),
    (CORE, "sync/spsc/state.rs", "persist_tail", None, "persist_tail", ["store", "wake"]),
    (CORE, "sync/spsc/state.rs", "close", None, "close", ["wake", "swap", "drop_contents"]),
    (CORE, "sync/spsc/state.rs", "acquire_capacity", None, "acquire_capacity", ["load:open", "load:head"]),
    (CORE, "sync/spsc/state.rs", "acquire_filled", None, "acquire_filled", ["load:tail", "load:open"]),
    (CORE, "sync/spsc/state.rs", "drop_contents", None, "drop_contents", ["load:head", "load:tail", "dealloc"]),
    (CORE, "sync/spsc/send.rs", "poll_slice", None, "poll_slice", ["acquire_capacity", "register"]),
    (CORE, "sync/spsc/recv.rs", "poll_slice", None, "poll_slice", ["acquire_filled", "register"]),
    (CORE, "sync/worker.rs", "poll_acquire", None, "poll_acquire", ["acquire", "register", "load:senders"]),
    (CORE, "sync/worker.rs", "submit", None, "submit", ["fetch_add", "wake"]),
    (CORE, "sync/worker.rs", "drop", r"impl\s+Drop\s+for\s+Sender\b", "drop", ["fetch_sub", "wake"]),
    (CORE, "sync/atomic_waker.rs", "poll_close", None, "poll_close", ["is_open", "register"]),
    (CORE, "sync/atomic_waker.rs", "drop", r"impl\s+Drop\s+for\s+Handle\b", "drop", ["store", "wake"]),
    (PLATFORM, "socket/ring.rs", "Consumer::poll_acquire", r"impl\s*<[^>]*>\s*Consumer\s*<", "poll_acquire", ["try_acquire", "register"]),
    (PLATFORM, "socket/ring.rs", "Producer::poll_acquire", r"impl\s*<[^>]*>\s*Producer\s*<", "poll_acquire", ["try_acquire", "register"]),
]


def _prep(src):
    """comments stripped, everything from `#[cfg(test)] mod tests` on removed"""
    src = strip_comments(src)
    m = re.search(r"#\[cfg\(test\)\]\s*mod\s+tests\b", src)
    return src[:m.start()] if m else src


def _match_close(src, i, op="{", cl="}"):
    """index of the bracket closing the one at src[i] (or None)"""
    d = 0
    for j in range(i, len(src)):
        c = src[j]
        if c == op:
            d += 1
        elif c == cl:
            d -= 1
            if d == 0:
                return j
    return None


def _fn_spans(src, lo=0, hi=None):
    """[(name, body_start, body_end)] of every `fn name ... { body }` inside src[lo:hi]"""
    hi = len(src) if hi is None else hi
    out = []
    for m in re.finditer(r"\bfn\s+(\w+)", src[lo:hi]):
        i = lo + m.end()
        depth = 0
        start = None
        while i < hi:
            c = src[i]
            if c in "([":
                depth += 1
            elif c in ")]":
                depth -= 1
            elif c == ";" and depth == 0:
                break                      # declaration without a body
            elif c == "{" and depth == 0:
                start = i
                break
            i += 1
        if start is None:
            continue
        end = _match_close(src, start)
        if end is not None:
            out.append((m.group(1), start, end))
    return out


def _enclosing_fn(spans, pos):
    best = None
    for name, a, b in spans:
        if a < pos < b and (best is None or a > best[1]):
            best = (name, a, b)
    return best[0] if best else "-"


def _receiver(src, dot):
    """name of the field / accessor the method at src[dot] ('.') is called on"""
    j = dot - 1
    while j >= 0 and src[j].isspace():
        j -= 1
    if j < 0:
        return "?"
    if src[j] == ")":
        # walk back to the matching '('
        d = 0
        k = j
        while k >= 0:
            if src[k] == ")":
                d += 1
            elif src[k] == "(":
                d -= 1
                if d == 0:
                    break
            k -= 1
        if k < 0:
            return "?"
        m = re.search(r"(\w+)\s*$", src[:k])
        if m:                                           # accessor call: self.consumer().load(..)
            return m.group(1)
        ids = re.findall(r"[A-Za-z_]\w*", src[k + 1:j])  # (*self.is_open).load(..)
        return ids[-1] if ids else "?"
    m = re.search(r"(\w+)$", src[:j + 1])
    return m.group(1) if m else "?"


def _atomic_rows(rel, src):
    spans = _fn_spans(src)
    calls = {}     # position of the call's '(' -> [ordering names]
    order = []
    for m in re.finditer(r"\bOrdering\s*::\s*(\w+)", src):
        # unmatched '(' to the left = the call this ordering is an argument of
        d = 0
        k = m.start() - 1
        while k >= 0:
            c = src[k]
            if c == ")":
                d += 1
            elif c == "(":
                if d == 0:
                    break
                d -= 1
            elif c in ";{}" and d == 0:
                k = -1
                break
            k -= 1
        if k < 0:
            continue          # `use ...::Ordering::X` or a bare constant: not an operation
        if k not in calls:
            calls[k] = []
            order.append(k)
        calls[k].append(m.group(1))
    rows = []
    for k in order:
        head = src[:k]
        mm = re.search(r"(\.)?\s*(\w+)\s*(?:::\s*<[^>]*>\s*)?$", head)
        if not mm:
            rows.append((rel, _enclosing_fn(spans, k), "?", "?", "+".join(calls[k])))
            continue
        opname = mm.group(2)
        if mm.group(1):
            recv = _receiver(src, mm.start(1))
        else:
            recv = "-"        # free function such as fence(Ordering::X)
        rows.append((rel, _enclosing_fn(spans, k), recv, opname, "+".join(calls[k])))
    return rows


def _lean_str(s):
    return '"' + s.replace("\\", "\\\\").replace('"', '\\"') + '"'


def _find_fn(src, impl_re, fn_name):
    """(body_start, body_end) of fn `fn_name` (inside the impl block matching impl_re, if given)"""
    lo, hi = 0, len(src)
    if impl_re:
        m = re.search(impl_re, src)
        if not m:
            return None
        b = src.find("{", m.end())
        if b < 0:
            return None
        e = _match_close(src, b)
        if e is None:
            return None
        lo, hi = b, e
    found = [(a, b) for (n, a, b) in _fn_spans(src, lo, hi) if n == fn_name]
    if len(found) != 1:
        return None
    return found[0]


def _blank_macro_defs(body):
    """macro_rules! definitions are blanked: a macro counts where it is INVOKED"""
    out = body
    for m in re.finditer(r"macro_rules!\s*\w+\s*\{", body):
        b = m.end() - 1
        e = _match_close(body, b)
        if e is None:
            continue
        out = out[:m.start()] + " " * (e + 1 - m.start()) + out[e + 1:]
    return out


def _call_seq(body, tokens):
    body = _blank_macro_defs(body)
    hits = []
    for t in tokens:
        if t.startswith("load:"):
            f = re.escape(t[5:])
            pat = r"\b" + f + r"\s*(?:\(\s*\))?\s*\)?\s*\.\s*load\s*\("
        else:
            pat = r"\b" + re.escape(t) + r"\s*!?\s*\("
        for m in re.finditer(pat, body):
            hits.append((m.start(), t))
    hits.sort()
    # `match side { Side::Sender => a.wake(), Side::Receiver => b.wake() }` is ONE wake
    blocks = []
    for m in re.finditer(r"\bmatch\s+side\s*\{", body):
        e = _match_close(body, m.end() - 1)
        if e is not None:
            blocks.append((m.start(), e))
    seq = []
    seen = set()
    for pos, t in hits:
        blk = next((i for i, (a, b) in enumerate(blocks) if a < pos < b), None)
        if blk is not None:
            if (blk, t) in seen:
                continue
            seen.add((blk, t))
        seq.append(t)
    return seq


def extract(repo):
    o = Out("SyncOrderings")
    # ---- (a) every atomic operation with its ordering -----------------------------------
    ty = "List (String × String × String × String × String)"
    rows = []
    problems = []
    for rel in ATOMIC_FILES:
        try:
            src = _prep(read(repo, CORE + rel))
        except OSError:
            problems.append(f"{rel} not readable")
            continue
        r = _atomic_rows(rel, src)
        if not r:
            problems.append(f"no atomic operation found in {rel}")
        if any("?" in x[2:4] or x[1] == "-" for x in r):
            problems.append(f"unrecognised atomic operation shape in {rel}")
        rows += r
    val = "[\n" + ",\n".join("  (" + ", ".join(_lean_str(c) for c in row) + ")" for row in rows) + "]"
    note = ("every atomic operation of sync/spsc/state.rs, sync/cursor.rs, sync/worker.rs, sync/atomic_waker.rs in source order: "
            "(file, enclosing fn, field, operation, Ordering)")
    if problems:
        o.fail("table", ty, val if rows else "[]", "; ".join(problems))
    else:
        o.define("table", ty, val, note)
    # ---- (b) order of the synchronisation-relevant calls ---------------------------------
    ty = "List (String × String × List String)"
    ents = []
    problems = []
    cache = {}
    for prefix, rel, shown, impl_re, fn_name, tokens in CALLS:
        key = prefix + rel
        if key not in cache:
            try:
                cache[key] = _prep(read(repo, key))
            except OSError:
                cache[key] = None
        src = cache[key]
        if src is None:
            problems.append(f"{rel} not readable")
            continue
        span = _find_fn(src, impl_re, fn_name)
        if span is None:
            problems.append(f"{rel}: fn {shown} not found (or not unique)")
            continue
        seq = _call_seq(src[span[0]:span[1] + 1], tokens)
        ents.append((rel, shown, seq))
    val = "[\n" + ",\n".join(
        "  (" + _lean_str(f) + ", " + _lean_str(n) + ", [" + ", ".join(_lean_str(t) for t in seq) + "])"
        for f, n, seq in ents) + "]"
    note = ("order of the synchronisation-relevant calls per function (macro invocations counted where invoked; "
            "a `match side` block with a wake in both arms is one wake)")
    if problems:
        o.fail("calls", ty, val if ents else "[]", "; ".join(problems))
    else:
        o.define("calls", ty, val, note)
    return o
