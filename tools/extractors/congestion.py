"""Tie G for C10: constants, comparison operators and guards of the two congestion controllers and of
`Path::transmission_constraint`, read from /repo's current source text.

Comparison operators are encoded as numbers: `<` 0, `<=` 1, `>` 2, `>=` 3 (anything else 99)."""
from fractions import Fraction

from extract import *

CUBIC = "quic/s2n-quic-core/src/recovery/cubic.rs"
BBR = "quic/s2n-quic-core/src/recovery/bbr.rs"
BBR_DIR = "quic/s2n-quic-core/src/recovery/bbr"
PATH = "quic/s2n-quic-transport/src/path/mod.rs"
CONSTRAINT = "quic/s2n-quic-core/src/transmission/constraint.rs"

CMP = {"<": 0, "<=": 1, ">": 2, ">=": 3}


def cmp_code(s):
    return CMP.get(s.strip(), 99)


def body_of(src, header_re):
    """text of the `{ … }` block following the first match of header_re (brace matching)"""
    m = re.search(header_re, src)
    if not m:
        return None
    i = src.find("{", m.end() - 1)
    if i < 0:
        return None
    depth = 0
    for j in range(i, len(src)):
        if src[j] == "{":
            depth += 1
        elif src[j] == "}":
            depth -= 1
            if depth == 0:
                return src[i + 1:j]
    return None


def ws(s):
    return re.sub(r"\s+", " ", s).strip()


def frac(lit):
    f = Fraction(lit.replace("_", ""))
    return f.numerator, f.denominator


def strip_tests(src):
    i = src.find("#[cfg(test)]")
    return src if i < 0 else src[:i]


def extract(repo):
    o = Out("Congestion")
    cubic = strip_tests(strip_comments(read(repo, CUBIC)))
    bbr = strip_tests(strip_comments(read(repo, BBR)))

    def rat(name, src, const, note):
        m = re.search(r"const\s+" + const + r"\s*:\s*f32\s*=\s*([0-9_.]+)\s*;", src)
        if m:
            n, d = frac(m.group(1))
            o.define(name, "Nat × Nat", f"({n}, {d})", note + " as numerator/denominator")
        else:
            o.fail(name, "Nat × Nat", "(0, 0)", const + " not found")

    def flag(name, cond, note):
        if cond:
            o.define(name, "Bool", "true", note)
        else:
            o.fail(name, "Bool", "false", note + " — not found in this shape")

    rat("betaCubic", cubic, "BETA_CUBIC", "cubic.rs BETA_CUBIC")
    rat("cubicC", cubic, "C", "cubic.rs C")
    rat("slowStartMaxCwndMultiplier", cubic, "SLOW_START_MAX_CWND_MULTIPLIER", "on_ack SLOW_START_MAX_CWND_MULTIPLIER")
    rat("maxCwndMultiplier", cubic, "MAX_CWND_MULTIPLIER", "on_ack MAX_CWND_MULTIPLIER")

    # ---- CUBIC minimum window -------------------------------------------------------------
    b = body_of(cubic, r"fn\s+minimum_window\s*\(\s*&self\s*\)\s*->\s*f32\s*\{")
    m = re.fullmatch(r"([0-9_.]+) \* self\.max_datagram_size as f32", ws(b)) if b else None
    if m and Fraction(m.group(1)).denominator == 1:
        o.define("cubicMinWindowPackets", "Nat", str(Fraction(m.group(1)).numerator), "Cubic::minimum_window = k * max_datagram_size")
    else:
        o.fail("cubicMinWindowPackets", "Nat", "0", "Cubic::minimum_window is not `k * self.max_datagram_size as f32`")

    # ---- initial window (both) -------------------------------------------------------------
    def initial_window(prefix, src, floor_re):
        b = body_of(src, r"fn\s+initial_window\s*\(")
        ok = False
        if b:
            t = ws(b)
            lim = re.search(r"const INITIAL_WINDOW_LIMIT: u32 = ([0-9_]+);", t)
            shp = re.search(r"let default = min\( (\d+) \* max_datagram_size as u32, max\(INITIAL_WINDOW_LIMIT, (\d+) \* max_datagram_size as u32\), \);", t)
            flo = re.search(floor_re, t)
            dft = "app_settings.initial_congestion_window.unwrap_or(default)" in t
            if lim and shp and flo and dft:
                o.define(prefix + "InitialWindow", "Nat × Nat × Nat",
                         f"({shp.group(1)}, {rust_int(lim.group(1))}, {shp.group(2)})",
                         "initial_window: max(min(a * mds, max(LIMIT, b * mds)), minimum_window) as (a, LIMIT, b)")
                ok = True
        if not ok:
            o.fail(prefix + "InitialWindow", "Nat × Nat × Nat", "(0, 0, 0)", "initial_window shape changed")

    initial_window("cubic", cubic, r"max\(initial_window, cubic\.minimum_window\(\) as u32\)$")
    initial_window("bbr", bbr, r"max\(initial_window, Self::minimum_window\(max_datagram_size\)\)$")

    # ---- is_congestion_limited (both) -------------------------------------------------------
    def limited(prefix, src):
        b = body_of(src, r"fn\s+is_congestion_limited\s*\(\s*&self\s*\)\s*->\s*bool\s*\{")
        m = re.fullmatch(r"let available_congestion_window = self \.congestion_window\(\) \.(\w+)\(\*self\.bytes_in_flight\); "
                         r"available_congestion_window (<=|<|>=|>) self\.max_datagram_size as u32", ws(b)) if b else None
        if m and m.group(1) == "saturating_sub":
            o.define(prefix + "LimitedCmp", "Nat", str(cmp_code(m.group(2))),
                     "is_congestion_limited: congestion_window().saturating_sub(bytes_in_flight) <cmp> max_datagram_size")
            op = m.group(2)
            o.define(prefix + "IsCongestionLimited", "Nat → Nat → Nat → Bool",
                     f"fun cwnd inflight mds => decide (cwnd - inflight {op.replace('<=', '≤').replace('>=', '≥')} mds)",
                     "is_congestion_limited as a function of (congestion_window(), bytes_in_flight, max_datagram_size)")
        else:
            o.fail(prefix + "LimitedCmp", "Nat", "99", "is_congestion_limited shape changed")
            o.fail(prefix + "IsCongestionLimited", "Nat → Nat → Nat → Bool", "fun _ _ _ => false", "is_congestion_limited shape changed")

    limited("cubic", cubic)
    limited("bbr", bbr)

    # ---- CUBIC under-utilisation ------------------------------------------------------------
    b = body_of(cubic, r"fn\s+is_congestion_window_under_utilized\s*\(\s*&self\s*\)\s*->\s*bool\s*\{")
    t = ws(b) if b else ""
    mb = re.search(r"const MAX_BURST_MULTIPLIER: u32 = (\d+);", t)
    m1 = re.search(r"if self\.is_congestion_limited\(\) \{ return false; \}", t)
    m2 = re.search(r"if self\.state\.is_slow_start\(\) && self\.bytes_in_flight (<=|<|>=|>) self\.congestion_window\(\) / (\d+) \{ return false; \}", t)
    m3 = re.search(r"available_congestion_window (<=|<|>=|>) self\.max_datagram_size as u32 \* MAX_BURST_MULTIPLIER$", t)
    if mb and m1 and m2 and m3:
        o.define("underUtilized", "Nat × Nat × Nat × Nat",
                 f"({mb.group(1)}, {cmp_code(m2.group(1))}, {m2.group(2)}, {cmp_code(m3.group(1))})",
                 "is_congestion_window_under_utilized: (MAX_BURST_MULTIPLIER, cmp of `bytes_in_flight ? cwnd / d`, d, cmp of `available ? mds * MAX_BURST`)")
    else:
        o.fail("underUtilized", "Nat × Nat × Nat × Nat", "(0, 99, 0, 99)", "is_congestion_window_under_utilized shape changed")
    b = body_of(cubic, r"fn\s+on_packet_sent\s*<")
    t = ws(b) if b else ""
    flag("cubicSentSetsUnderUtilized",
         "self.under_utilized = app_limited && self.is_congestion_window_under_utilized();" in t
         and "self.under_utilized = self.is_congestion_window_under_utilized();" in t
         and re.search(r"if bytes_sent == 0 \{ return; \}", t) is not None,
         "on_packet_sent: under_utilized = app_limited && is_congestion_window_under_utilized() (None: the latter alone); bytes_sent == 0 returns")

    # ---- CUBIC on_ack guards ----------------------------------------------------------------
    b = body_of(cubic, r"fn\s+on_ack\s*<")
    t = ws(b) if b else ""
    i_uu = t.find("if self.under_utilized {")
    i_match = t.find("let max_cwnd = match self.state")
    uu_block = t[i_uu:i_match] if 0 <= i_uu < i_match else ""
    flag("cubicAckUnderUtilizedReturns", "return; }" in uu_block and "self.congestion_window =" not in uu_block,
         "on_ack: `if self.under_utilized { …; return; }` before any window update")
    m = re.search(r"if newest_acked_time_sent (<=|<|>=|>) recovery_start_time \{", t)
    if m:
        o.define("cubicRecoveryExitCmp", "Nat", str(cmp_code(m.group(1))), "on_ack: recovery ends when newest_acked_time_sent <cmp> recovery_start_time")
    else:
        o.fail("cubicRecoveryExitCmp", "Nat", "99", "on_ack recovery exit check not found")
    flag("cubicMaxCwndFloored", re.search(r"\} \.max\(self\.cubic\.minimum_window\(\)\);", t) is not None
         and "Recovery(_, _) => self.congestion_window," in t,
         "on_ack: max_cwnd = match … { Recovery => self.congestion_window, … }.max(minimum_window())")
    m = re.search(r"if self\.congestion_window (<=|<|>=|>) max_cwnd \{ return; \}", t)
    if m:
        o.define("cubicAtMaxCmp", "Nat", str(cmp_code(m.group(1))), "on_ack: early return when congestion_window <cmp> max_cwnd")
    else:
        o.fail("cubicAtMaxCmp", "Nat", "99", "on_ack max_cwnd early return not found")
    flag("cubicSlowStartCapped", re.search(r"self\.congestion_window = \(self\.congestion_window \+ self\.slow_start\.cwnd_increment\(bytes_acknowledged\)\) \.min\(max_cwnd\);", t) is not None,
         "on_ack SlowStart: (cwnd + cwnd_increment(bytes)).min(max_cwnd)")
    flag("cubicRecoveryArmEmpty", re.search(r"Recovery\(_, _\) => \{ \}", t) is not None, "on_ack: the Recovery arm does not touch the window")
    b = body_of(cubic, r"fn\s+congestion_avoidance\s*\(\s*&mut self")
    t = ws(b) if b else ""
    flag("cubicAvoidanceCapped",
         "let max_cwnd = (self.congestion_window + sent_bytes as f32 / 2.0).min(max_cwnd);" in t
         and "self.congestion_window = self.packets_to_bytes(w_est).min(max_cwnd);" in t
         and "if self.congestion_window >= target_congestion_window { return; }" in t
         and "self.congestion_window = (self.congestion_window + window_increment).min(max_cwnd);" in t,
         "congestion_avoidance: both assignments are `.min(max_cwnd)`, max_cwnd = (cwnd + acked/2).min(max_cwnd), early return at the target")

    # ---- CUBIC congestion event ---------------------------------------------------------------
    b = body_of(cubic, r"fn\s+on_congestion_event\s*\(")
    t = ws(b) if b else ""
    flag("cubicRecoveryCheck", re.search(r"if matches!\(self\.state, Recovery\(_, _\)\) \{ return; \}", t) is not None
         and t.find("return; }") < t.find("self.congestion_window ="),
         "on_congestion_event: no reaction if already in a recovery period (checked before the reduction)")
    flag("cubicEventEntersRecovery", "self.state = Recovery(event_time, RequiresTransmission);" in t
         and "self.congestion_window = self.cubic.multiplicative_decrease(self.congestion_window);" in t
         and "self.bytes_in_flight_hi = BytesInFlight::new(0);" in t,
         "on_congestion_event: bytes_in_flight_hi reset, Recovery(event_time, RequiresTransmission), multiplicative_decrease")
    b = body_of(cubic, r"fn\s+multiplicative_decrease\s*\(")
    t = ws(b) if b else ""
    flag("cubicDecreaseFloored", "let cwnd_start = (cwnd * BETA_CUBIC).max(self.minimum_window());" in t and t.endswith("cwnd_start"),
         "multiplicative_decrease returns (cwnd * BETA_CUBIC).max(minimum_window())")
    b = body_of(cubic, r"fn\s+on_packet_lost\s*<")
    t = ws(b) if b else ""
    flag("cubicLostSubtracts", "self.bytes_in_flight -= lost_bytes;" in t, "on_packet_lost: bytes_in_flight -= lost_bytes")
    flag("cubicPersistentCollapses",
         re.search(r"if persistent_congestion \{ self\.congestion_window = self\.cubic\.minimum_window\(\); self\.state = State::SlowStart; self\.cubic\.reset\(\); \}", t) is not None
         and t.find("self.on_congestion_event(timestamp);") < t.find("if persistent_congestion {"),
         "on_packet_lost: persistent congestion sets the window to minimum_window() and the state to SlowStart, after on_congestion_event")
    b = body_of(cubic, r"fn\s+on_mtu_update\s*<")
    t = ws(b) if b else ""
    flag("cubicMtuFloored", "self.congestion_window = max(congestion_window as u32, initial_window) as f32;" in t,
         "on_mtu_update: max(rescaled window, initial_window(new mds))")

    # ---- BBR ------------------------------------------------------------------------------------
    m = re.search(r"const\s+MIN_PIPE_CWND_PACKETS\s*:\s*(u\d+)\s*=\s*(\d+)\s*;", bbr)
    b = body_of(bbr, r"fn\s+minimum_window\s*\(\s*max_datagram_size\s*:\s*(u\d+)\s*\)\s*->\s*u32\s*\{")
    mt = re.search(r"fn\s+minimum_window\s*\(\s*max_datagram_size\s*:\s*(u\d+)\s*\)", bbr)
    if m and b and mt and ws(b) == "(MIN_PIPE_CWND_PACKETS * max_datagram_size) as u32":
        # pre-fix shape: product computed in the operands' own (u16) type, widened afterwards
        o.define("bbrMinPipeCwndPackets", "Nat", m.group(2), "bbr.rs MIN_PIPE_CWND_PACKETS; minimum_window = (MIN_PIPE_CWND_PACKETS * max_datagram_size) as u32")
        bits = max(int(m.group(1)[1:]), int(mt.group(1)[1:]))
        o.define("bbrMinWindowProductBits", "Nat", str(bits), "width of the integer type the product is computed in")
    elif m and b and mt and ws(b) == "MIN_PIPE_CWND_PACKETS as u32 * max_datagram_size as u32":
        o.define("bbrMinPipeCwndPackets", "Nat", m.group(2), "bbr.rs MIN_PIPE_CWND_PACKETS; minimum_window = MIN_PIPE_CWND_PACKETS as u32 * max_datagram_size as u32")
        o.define("bbrMinWindowProductBits", "Nat", "32", "width of the integer type the product is computed in (both operands widened to u32 first)")
    else:
        o.fail("bbrMinPipeCwndPackets", "Nat", "0", "MIN_PIPE_CWND_PACKETS / minimum_window shape changed")
        o.fail("bbrMinWindowProductBits", "Nat", "0", "MIN_PIPE_CWND_PACKETS / minimum_window shape changed")
    # write sites of cwnd: every `self.cwnd =` / `.cwnd =` outside tests, in bbr.rs and bbr/*.rs
    sites = len(re.findall(r"\bself\.cwnd\s*(?:=[^=]|\+=|-=|\*=)", bbr))
    for f in sorted(os.listdir(os.path.join(repo, BBR_DIR))):
        if f.endswith(".rs") and f != "tests.rs":
            s = strip_tests(strip_comments(read(repo, BBR_DIR + "/" + f)))
            sites += len(re.findall(r"\.cwnd\s*(?:=[^=]|\+=|-=|\*=)", s))
    o.define("bbrCwndWriteSites", "Nat", str(sites), "number of assignments to `cwnd` outside `new` (on_mtu_update, set_cwnd, restore_cwnd)")
    b = body_of(bbr, r"fn\s+set_cwnd\s*\(")
    t = ws(b) if b else ""
    flag("bbrSetCwndClamped", t.endswith("self.cwnd = cwnd.clamp( Self::minimum_window(self.max_datagram_size), self.bound_cwnd_for_model(), );")
         and t.count("self.cwnd =") == 1,
         "set_cwnd: the only write is cwnd.clamp(minimum_window(mds), bound_cwnd_for_model())")
    m = re.search(r"\} else if cwnd < max_inflight \|\| self\.bw_estimator\.delivered_bytes\(\) < 2 \* initial_cwnd as u64 \{ ([^{}]*) \} else \{", t)
    site = m.group(1).strip() if m else None
    variants = {"cwnd += newly_acked as u32;": "false", "cwnd = cwnd.saturating_add(newly_acked as u32);": "true"}
    if site in variants and "cwnd = cwnd.saturating_add(newly_acked as u32); if cwnd >= max_inflight {" in t:
        o.define("bbrGrowthSaturating", "Bool", variants[site],
                 "set_cwnd, not-filled-pipe branch: `cwnd += newly_acked as u32` (false) or `cwnd = cwnd.saturating_add(newly_acked as u32)` (true); "
                 "the filled-pipe branch is saturating_add")
    else:
        o.fail("bbrGrowthSaturating", "Bool", "false", "set_cwnd growth branches changed: " + repr(site))
    b = body_of(bbr, r"fn\s+bound_cwnd_for_model\s*\(")
    t = ws(b) if b else ""
    flag("bbrBoundFloored", t.endswith("cap.min(inflight_lo) .max(Self::minimum_window(self.max_datagram_size))"),
         "bound_cwnd_for_model ends with .max(minimum_window(mds))")
    b = body_of(bbr, r"fn\s+restore_cwnd\s*\(")
    flag("bbrRestoreIsMax", b is not None and "self.cwnd = self.cwnd.max(self.prior_cwnd);" in ws(b), "restore_cwnd: cwnd = cwnd.max(prior_cwnd)")
    b = body_of(bbr, r"fn\s+save_cwnd\s*\(")
    flag("bbrSaveIsMax", b is not None and "self.prior_cwnd = self.prior_cwnd.max(self.cwnd);" in ws(b), "save_cwnd: prior_cwnd = prior_cwnd.max(cwnd)")
    b = body_of(bbr, r"fn\s+on_mtu_update\s*<")
    flag("bbrMtuFloored", b is not None and "self.cwnd = max(cwnd, initial_window);" in ws(b)
         and "let initial_window = Self::initial_window(max_datagram_size, &Default::default());" in ws(b),
         "on_mtu_update: max(rescaled window, initial_window(new mds))")
    b = body_of(bbr, r"fn\s+on_packet_lost\s*<")
    flag("bbrLostSubtracts", b is not None and "self.bytes_in_flight -= lost_bytes;" in ws(b), "on_packet_lost: bytes_in_flight -= lost_bytes")
    prt = strip_tests(strip_comments(read(repo, BBR_DIR + "/probe_rtt.rs")))
    b = body_of(prt, r"fn\s+probe_rtt_cwnd\s*\(")
    flag("bbrProbeRttCwndFloored", b is not None and ws(b).endswith(".max(Self::minimum_window(self.max_datagram_size))"),
         "probe_rtt_cwnd ends with .max(minimum_window(mds))")

    # ---- send gate ----------------------------------------------------------------------------------
    path = strip_comments(read(repo, PATH))
    b = body_of(path, r"fn\s+transmission_constraint\s*\(\s*&self\s*\)\s*->\s*transmission::Constraint\s*\{")
    want = ("if self.at_amplification_limit() { transmission::Constraint::AmplificationLimited } "
            "else if self.congestion_controller.is_congestion_limited() { "
            "if self.congestion_controller.requires_fast_retransmission() { transmission::Constraint::RetransmissionOnly } "
            "else { transmission::Constraint::CongestionLimited } } "
            "else { transmission::Constraint::None }")
    flag("sendGateShape", b is not None and ws(b) == want,
         "Path::transmission_constraint: amplification limit first, then is_congestion_limited (fast retransmission → RetransmissionOnly), else None")
    cons = strip_comments(read(repo, CONSTRAINT))
    m = re.search(r"pub enum Constraint \{([^}]*)\}", cons)
    names = [x.strip() for x in m.group(1).split(",") if x.strip()] if m else []
    order = {"None": 0, "RetransmissionOnly": 1, "CongestionLimited": 2, "AmplificationLimited": 3}
    if names and all(n in order for n in names):
        o.define("constraintOrder", "List Nat", nat_list([order[n] for n in names]), "declaration (= Ord) order of transmission::Constraint")
    else:
        o.fail("constraintOrder", "List Nat", "[]", "transmission::Constraint variants changed")
    b1 = body_of(cons, r"pub fn can_transmit\s*\(self\)\s*->\s*bool\s*\{")
    b2 = body_of(cons, r"pub fn can_retransmit\s*\(self\)\s*->\s*bool\s*\{")
    b3 = body_of(cons, r"fn is_none\s*\(self\)\s*->\s*bool\s*\{")
    flag("canTransmitShape", b1 is not None and b2 is not None and b3 is not None and ws(b1) == "self.is_none()"
         and ws(b2) == "self.can_transmit() || self.is_retransmission_only()" and ws(b3) == "matches!(self, Self::None)",
         "can_transmit = is_none; can_retransmit = can_transmit || is_retransmission_only")
    return o
