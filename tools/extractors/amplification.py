"""Tie G for C11: anti-amplification multiplier and counter operations (path/mod.rs), stateless-reset
length logic (core packet/stateless_reset.rs, random.rs), Version Negotiation decision (endpoint/version.rs),
the 1200-byte constants (initial.rs, mtu.rs) and the Initial padding rule (connection/transmission.rs,
core packet/encoding.rs)."""
from extract import *

T = "quic/s2n-quic-transport/src/"
C = "quic/s2n-quic-core/src/"


def ws(s):
    """collapse whitespace so that rustfmt line breaks do not matter"""
    return re.sub(r"\s+", " ", s)


def fn_body(src, sig_re):
    """text of the function whose signature matches sig_re (brace matching)"""
    m = re.search(sig_re, src)
    if not m:
        return None
    i = src.find("{", m.end() - 1)
    # skip a possible return type containing braces: find the first '{' after the signature's ')'
    depth = 0
    start = None
    k = m.start()
    par = 0
    # advance to the end of the parameter list
    while k < len(src):
        if src[k] == "(":
            par += 1
        elif src[k] == ")":
            par -= 1
            if par == 0:
                break
        k += 1
    i = src.find("{", k)
    if i < 0:
        return None
    for j in range(i, len(src)):
        if src[j] == "{":
            depth += 1
            if start is None:
                start = j
        elif src[j] == "}":
            depth -= 1
            if depth == 0:
                return src[start:j + 1]
    return None


def const_of(o, src, regex, ident, note, ty="Nat"):
    m = re.search(regex, src)
    if m:
        try:
            o.define(ident, ty, str(const_expr(m.group(1))), note)
            return const_expr(m.group(1))
        except Exception as e:
            o.fail(ident, ty, "0", f"{note}: not a constant expression ({e})")
    else:
        o.fail(ident, ty, "0", f"{note}: not found")
    return None


def flag(o, ident, cond, note):
    """a shape fact: true iff the code still has exactly the transcribed form"""
    if cond:
        o.define(ident, "Bool", "true", note)
    else:
        o.fail(ident, "Bool", "false", note + " — shape changed")


def cmp_of(o, ident, text, regex, note, consts=None):
    """(operator, constant) of a comparison"""
    m = re.search(regex, text) if text else None
    if m:
        op, rhs = m.group(1), m.group(2)
        try:
            v = consts[rhs] if consts and rhs in consts else const_expr(rhs)
            o.define(ident, "String × Nat", f'("{op}", {v})', note)
            return
        except Exception:
            pass
    o.fail(ident, "String × Nat", '("?", 0)', note + " — not found")


def extract(repo):
    o = Out("Amplification")
    limits = strip_comments(read(repo, C + "connection/limits.rs"))
    mtu = strip_comments(read(repo, C + "path/mtu.rs"))
    path = strip_comments(read(repo, T + "path/mod.rs"))
    sr = strip_comments(read(repo, C + "packet/stateless_reset.rs"))
    rnd = strip_comments(read(repo, C + "random.rs"))
    ver = strip_comments(read(repo, T + "endpoint/version.rs"))
    ini = strip_comments(read(repo, T + "endpoint/initial.rs"))
    ctx = strip_comments(read(repo, T + "connection/transmission.rs"))
    enc = strip_comments(read(repo, C + "packet/encoding.rs"))
    tok = strip_comments(read(repo, C + "stateless_reset/token.rs"))
    pnl = strip_comments(read(repo, C + "packet/number/packet_number_len.rs"))
    lng = strip_comments(read(repo, C + "packet/long.rs"))
    cid = strip_comments(read(repo, C + "connection/id.rs"))
    pkt = strip_comments(read(repo, C + "packet/mod.rs"))
    mgr = strip_comments(read(repo, T + "path/manager.rs"))

    # ---- constants -------------------------------------------------------------------
    const_of(o, limits, r"pub const ANTI_AMPLIFICATION_MULTIPLIER: u8 = ([^;]+);", "multiplier", "connection::limits::ANTI_AMPLIFICATION_MULTIPLIER")
    flag(o, "limitsDefaultUsesMultiplier", re.search(r"anti_amplification_multiplier: ANTI_AMPLIFICATION_MULTIPLIER,", limits) is not None,
         "Limits::default(): anti_amplification_multiplier: ANTI_AMPLIFICATION_MULTIPLIER")
    flag(o, "managerPassesLimitsMultiplier", len(re.findall(r"limits\.anti_amplification_multiplier\(\)", mgr)) >= 1,
         "path::Manager creates new paths with limits.anti_amplification_multiplier()")
    min_dgram = const_of(o, mtu, r"pub const MINIMUM_MAX_DATAGRAM_SIZE: u16 = ([^;]+);", "minimumMaxDatagramSize", "path::MINIMUM_MAX_DATAGRAM_SIZE")

    # ---- the allowance counter -------------------------------------------------------
    flag(o, "counterIsSaturatingU32", re.search(r"AmplificationLimited \{\s*tx_allowance: Counter<u32, Saturating>,\s*\}", path) is not None,
         "State::AmplificationLimited { tx_allowance: Counter<u32, Saturating> }")
    new = fn_body(path, r"pub fn new\(\s*handle: Config::PathHandle") or ""
    flag(o, "serverStartsLimitedAtZero",
         re.search(r"Type::Server => \{\s*State::AmplificationLimited \{\s*tx_allowance: Default::default\(\),\s*\}\s*\}", new) is not None
         and re.search(r"Type::Client => State::Validated,", new) is not None,
         "Path::new: Server => AmplificationLimited{tx_allowance: 0}, Client => Validated")
    rx = ws(fn_body(path, r"pub fn on_bytes_received\(&mut self, bytes: usize\)") or "")
    flag(o, "recvAddsSaturatingMulAsU32",
         "if let State::AmplificationLimited { tx_allowance } = &mut self.state { *tx_allowance += bytes.saturating_mul(self.anti_amplification_multiplier as usize) as u32; }" in rx,
         "on_bytes_received: *tx_allowance += bytes.saturating_mul(self.anti_amplification_multiplier as usize) as u32")
    flag(o, "recvUnblockedIsWasAndNotNow",
         "let was_at_amplification_limit = self.at_amplification_limit();" in rx
         and "let unblocked = was_at_amplification_limit && !self.at_amplification_limit();" in rx,
         "on_bytes_received: unblocked = was_at_limit && !at_limit")
    tx = ws(fn_body(path, r"pub fn on_bytes_transmitted\(&mut self, bytes: usize\)") or "")
    flag(o, "sendSubtractsAsU32",
         "if let State::AmplificationLimited { tx_allowance, .. } = &mut self.state { *tx_allowance -= bytes as u32 }" in tx
         and "if bytes == 0 { return; }" in tx,
         "on_bytes_transmitted: if bytes == 0 {return}; *tx_allowance -= bytes as u32")
    flag(o, "sendAssertsNotLimited",
         re.search(r"debug_assert_ne!\( self\.clamp_datagram_size\(bytes, transmission::Mode::Normal\), 0,", tx) is not None
         and "debug_assert!( !self.at_amplification_limit()," in ws(fn_body(path, r"pub fn clamp_datagram_size\(") or ""),
         "on_bytes_transmitted debug-asserts !at_amplification_limit via clamp_datagram_size")
    lim = ws(fn_body(path, r"pub fn at_amplification_limit\(&self\)") or "")
    flag(o, "validatedNeverLimited", "State::Validated => false," in lim, "at_amplification_limit: Validated => false")
    cmp_of(o, "limitCmp", lim, r"State::AmplificationLimited \{ tx_allowance \} => tx_allowance (==|<=|<|>=|>|!=) (\w+),",
           "at_amplification_limit: AmplificationLimited{tx_allowance} => tx_allowance == 0")
    flag(o, "handshakePacketValidates",
         "self.on_validated();" in ws(fn_body(path, r"pub fn on_handshake_packet\(&mut self\)") or "")
         and "self.state = State::Validated;" in ws(fn_body(path, r"fn on_validated\(&mut self\)") or ""),
         "on_handshake_packet -> on_validated: state = Validated")
    tc = ws(fn_body(path, r"pub fn transmission_constraint\(&self\)") or "")
    flag(o, "constraintChecksLimitFirst", tc.startswith("{ if self.at_amplification_limit() { transmission::Constraint::AmplificationLimited }"),
         "transmission_constraint: at_amplification_limit() => AmplificationLimited, checked first")
    ct = ws(fn_body(path, r"pub fn can_transmit\(&self, timestamp: Timestamp\)") or "")
    flag(o, "canTransmitRequiresNotLimited", ct.startswith("{ !self.at_amplification_limit() &&"), "can_transmit: !at_amplification_limit() && ..")

    # ---- stateless reset -------------------------------------------------------------
    tag_size = 1 if re.search(r"pub\(crate\) type Tag = u8;", pkt) else None
    pn_max = None
    m = re.search(r"pub const MAX_LEN: usize = (\w+);", pnl)
    if m:
        m2 = re.search(r"const " + re.escape(m.group(1)) + r": usize = ([^;]+);", pnl)
        try:
            pn_max = const_expr(m2.group(1) if m2 else m.group(1))
        except Exception:
            pn_max = None
    cid_max = None
    m = re.search(r"pub const MAX_LEN: usize = crate::packet::long::DESTINATION_CONNECTION_ID_MAX_LEN;", cid)
    m2 = re.search(r"const DESTINATION_CONNECTION_ID_MAX_LEN: usize = (\d+);", lng)
    if m and m2:
        cid_max = int(m2.group(1))
    m = re.search(r"const MIN_INDISTINGUISHABLE_PACKET_LEN_WITHOUT_TAG: usize =\s*core::mem::size_of::<Tag>\(\) \+ PacketNumberLen::MAX_LEN \+ connection::id::MAX_LEN \+ (\d+);", sr)
    if m and None not in (tag_size, pn_max, cid_max):
        o.define("minLenWithoutTagParts", "List Nat", nat_list([tag_size, pn_max, cid_max, int(m.group(1))]),
                 "MIN_INDISTINGUISHABLE_PACKET_LEN_WITHOUT_TAG = size_of::<Tag>() + PacketNumberLen::MAX_LEN + connection::id::MAX_LEN + 1")
    else:
        o.fail("minLenWithoutTagParts", "List Nat", "[]", "MIN_INDISTINGUISHABLE_PACKET_LEN_WITHOUT_TAG formula / its constants not recognised")
    flag(o, "minLenAddsTag", "MIN_INDISTINGUISHABLE_PACKET_LEN_WITHOUT_TAG + max_tag_len" in ws(fn_body(sr, r"pub fn min_indistinguishable_packet_len\(") or ""),
         "min_indistinguishable_packet_len = WITHOUT_TAG + max_tag_len")
    const_of(o, tok, r"pub const LEN: usize = ([^;]+);", "tokenLen", "stateless_reset::token::LEN")
    ep = ws(fn_body(sr, r"pub fn encode_packet\(") or "")
    m = re.search(r"let max_len = triggering_packet_len \.saturating_sub\((\d+)\) \.min\(packet_buf\.len\(\)\);", ep)
    if m:
        o.define("maxLenSub", "Nat", m.group(1), "max_len = triggering_packet_len.saturating_sub(1).min(packet_buf.len())")
    else:
        o.fail("maxLenSub", "Nat", "0", "max_len expression not recognised")
    m = re.search(r"if max_len (<|<=|>|>=) min_len \{ return None; \}", ep)
    if m:
        o.define("noneCmp", "String", f'"{m.group(1)}"', "if max_len < min_len { return None }")
    else:
        o.fail("noneCmp", "String", '"?"', "None guard not recognised")
    flag(o, "bitsRangeIsMinMaxMinusToken",
         "let unpredictable_bits_min_len = min_len - stateless_reset::token::LEN;" in ep
         and "let unpredictable_bits_max_len = max_len - stateless_reset::token::LEN;" in ep
         and "generate_unpredictable_bits( random_generator, unpredictable_bits_min_len, &mut packet_buf[..unpredictable_bits_max_len], );" in ep
         and "let packet_len = unpredictable_bits_len + stateless_reset::token::LEN;" in ep
         and "Some(packet_len)" in ep,
         "unpredictable bits drawn from (min_len - LEN) ..= (max_len - LEN); packet_len = bits + LEN")
    gub = ws(fn_body(sr, r"fn generate_unpredictable_bits\(") or "")
    flag(o, "bitsDrawIsGenRangeBiased", "let len = random::gen_range_biased(random_generator, min_len..=buffer.len());" in gub,
         "generate_unpredictable_bits: gen_range_biased(min_len ..= buffer.len())")
    m1 = re.search(r"const TAG: u8 = (0b[01_]+);", sr)
    m2 = re.search(r"const TAG_OFFSET: u8 = (\d+);", sr)
    if m1 and m2 and "packet_buf[0] = (packet_buf[0] >> TAG_OFFSET) | TAG;" in ep:
        o.define("firstByteTag", "Nat × Nat", f"({rust_int(m1.group(1))}, {m2.group(1)})", "packet_buf[0] = (packet_buf[0] >> TAG_OFFSET) | TAG")
    else:
        o.fail("firstByteTag", "Nat × Nat", "(0, 0)", "first byte rule not recognised")
    grb = ws(fn_body(rnd, r"pub\(crate\) fn gen_range_biased<") or "")
    flag(o, "genRangeBiasedShape",
         "if range.start() == range.end() { return *range.start(); }" in grb
         and "let result = usize::from_le_bytes(dest);" in grb
         and "let max_variance = (range.end() - range.start()).saturating_add(1);" in grb
         and "range.start() + result % max_variance" in grb,
         "gen_range_biased: start + usize::from_le_bytes(8 random bytes) % (end - start).saturating_add(1)")
    disp = strip_comments(read(repo, T + "endpoint/stateless_reset.rs"))
    flag(o, "dispatchBufferIsMinDatagram", "let mut packet_buf = [0u8; MINIMUM_MAX_DATAGRAM_SIZE as usize];" in disp
         and "triggering_packet_len," in disp, "endpoint stateless reset buffer = [0; MINIMUM_MAX_DATAGRAM_SIZE]")

    # ---- version negotiation ---------------------------------------------------------
    m = re.search(r"const SUPPORTED_VERSIONS: &\[u32\] = &\[(.*?)\];", ver, re.S)
    try:
        vs = [rust_int(x) for x in m.group(1).split(",") if x.strip()]
        o.define("supportedVersions", "List Nat", nat_list(vs), "endpoint::version::SUPPORTED_VERSIONS")
    except Exception:
        o.fail("supportedVersions", "List Nat", "[]", "SUPPORTED_VERSIONS not found")
    op = ws(fn_body(ver, r"pub fn on_packet<Pub: event::EndpointPublisher>\(") or "")
    cmp_of(o, "vnMinLenCmp", op, r"if payload_len (<|<=|>|>=) \(?(\w+)(?: as usize\))? \{ return Err\(Error\); \}",
           "on_packet: if payload_len < MINIMUM_MAX_DATAGRAM_SIZE { return Err(Error) }", {"MINIMUM_MAX_DATAGRAM_SIZE": min_dgram})
    flag(o, "vnNeverForVn", "ProtectedPacket::VersionNegotiation(_packet) => { return Ok(()); }" in op,
         "on_packet: VersionNegotiation(_) => return Ok(()) (never answered)")
    flag(o, "vnClientForwards", "if Config::ENDPOINT_TYPE.is_client() { return Ok(()); }" in op, "on_packet: clients forward everything")
    flag(o, "vnInitialArm", "ProtectedPacket::Initial(packet) => { if is_supported!(packet, publisher) { return Ok(()); } packet }" in op,
         "on_packet: Initial with supported version is forwarded, otherwise falls through to the size check")
    flag(o, "vnZeroRttArm", "ProtectedPacket::ZeroRtt(packet) => { if is_supported!(packet, publisher) { return Ok(()); } return Err(Error); }" in op,
         "on_packet: unsupported 0-RTT is dropped without Version Negotiation")
    flag(o, "vnOtherKindsForwarded", "_ => return Ok(())," in op, "on_packet: all other packet kinds are forwarded")
    flag(o, "vnQueueGuard", "if self.transmissions.len() != self.max_peers { self.transmissions .push_back(Transmission::new(*path, packet)); }" in op
         and op.rstrip().endswith("Err(Error) }"), "on_packet: push_back unless transmissions.len() == max_peers; then Err(Error)")

    # ---- 1200-byte rules -------------------------------------------------------------
    hi = ws(fn_body(ini, r"pub\(super\) fn handle_initial_packet\(") or fn_body(ini, r"fn handle_initial_packet\(") or "")
    cmp_of(o, "serverInitialMinCmp", hi, r"if datagram\.payload_len (<|<=|>|>=) (\d+) \{ return Err\(transport::Error::PROTOCOL_VIOLATION",
           "handle_initial_packet: if datagram.payload_len < 1200 { return Err(PROTOCOL_VIOLATION) }")
    wp = ws(fn_body(ctx, r"fn write_payload\(") or "")
    flag(o, "padSpaceSelection",
         re.search(r"let mut pn_space_to_pad = \{ let needs_padding = has_transmission\(space_manager\.initial\(\), transmission_constraint\); "
                   r"if !needs_padding \{ None \} else if has_transmission\(space_manager\.application\(\), transmission_constraint\) "
                   r"\|\| \(space_manager\.application\(\)\.is_some\(\) && self \.context \.path\(\) \.mtu_controller \.can_transmit\(transmission_constraint\)\) "
                   r"\{ Some\(PacketNumberSpace::ApplicationData\) \} else if has_transmission\(space_manager\.handshake\(\), transmission_constraint\) "
                   r"\{ Some\(PacketNumberSpace::Handshake\) \} else \{ Some\(PacketNumberSpace::Initial\) \} \};", wp) is not None,
         "write_payload: pn_space_to_pad = None | ApplicationData | Handshake | Initial in that order of preference")
    pads = [re.search(r"self\.context\.min_packet_len = pn_space_to_pad \.filter\(\|pn_space\| pn_space\.%s\(\)\) \.map\(\|_\| encoder\.capacity\(\)\);" % k, wp) is not None
            for k in ("is_initial", "is_handshake", "is_application_data")]
    flag(o, "padTargetIsRemainingCapacity", all(pads), "min_packet_len = Some(encoder.capacity()) for the space to pad (Initial, Handshake, ApplicationData)")
    flag(o, "serverNonElicitingInitialCancelsPadding",
         "if Config::ENDPOINT_TYPE.is_server() && !outcome.ack_elicitation().is_ack_eliciting() { pn_space_to_pad = None; }" in wp,
         "server: non-ack-eliciting Initial => pn_space_to_pad = None (clients always pad)")
    flag(o, "datagramLenCounted", "self.context.path_mut().on_bytes_transmitted(datagram_len);" in wp, "write_payload: path.on_bytes_transmitted(datagram_len)")
    flag(o, "clampBeforeWrite", "let max_datagram_size = self .context .path() .clamp_datagram_size(buffer.len(), self.context.transmission_mode);" in wp,
         "write_payload: capacity = path.clamp_datagram_size(buffer.len(), mode)")
    ep2 = ws(fn_body(enc, r"fn encode_packet<'a>\(") or "")
    m = re.search(r"let minimum_packet_len = min_packet_len \.unwrap_or\(0\) \.max\(stateless_reset::min_indistinguishable_packet_len\(key\.tag_len\(\)\) \+ (\d+)\);", ep2)
    if m:
        o.define("minimumPacketLenPlus", "Nat", m.group(1), "minimum_packet_len = min_packet_len.unwrap_or(0).max(min_indistinguishable_packet_len(tag_len) + 1)")
    else:
        o.fail("minimumPacketLenPlus", "Nat", "0", "minimum_packet_len expression not recognised")
    flag(o, "minimumPayloadLenFromPacketLen", "let minimum_payload_len = minimum_packet_len.saturating_sub(estimator.len());" in ep2,
         "minimum_payload_len = minimum_packet_len - (header + pn + tag)")
    return o
