"""Tie G for C18 (key-phase wrappers): the ORDER of the statements of `open::Application::{decrypt, decrypt_in_place}`
(slot selection, AEAD open with `?`, `on_decrypt_success` with `?`, phase guard, `needs_update.store(true)`), of
`open::Application::update`, of `open::Once::{decrypt, decrypt_in_place}`, the slot each key phase selects, the sealer's
record budget and comparison, and the shape of the two `update()` call sites in stream/crypto.rs + send/application.rs.
A reordering (e.g. the flag raised before authentication) is reported by the bridge even when no history hits it."""
from extract import *

KEY = "dc/s2n-quic-dc/src/path/secret/key.rs"
CRYPTO = "dc/s2n-quic-dc/src/stream/crypto.rs"
SEND = "dc/s2n-quic-dc/src/stream/send/application.rs"
STATUS = "dc/s2n-quic-dc/src/path/secret/map/status.rs"


def block(src, start):
    """text of the brace block that opens at the first `{` at or after `start` (without the outer braces)"""
    i = src.index("{", start)
    depth = 0
    for j in range(i, len(src)):
        if src[j] == "{":
            depth += 1
        elif src[j] == "}":
            depth -= 1
            if depth == 0:
                return src[i + 1:j]
    raise ValueError("unbalanced braces")


def call_has_try(src, open_paren):
    """is the call whose `(` is at open_paren followed by `?`"""
    depth = 0
    for j in range(open_paren, len(src)):
        if src[j] == "(":
            depth += 1
        elif src[j] == ")":
            depth -= 1
            if depth == 0:
                return src[j + 1:].lstrip().startswith("?")
    return False


def fn_body(impl_src, name):
    m = re.search(r"fn\s+" + name + r"\s*[<(]", impl_src)
    if not m:
        raise ValueError(f"fn {name} not found")
    return block(impl_src, m.end())


def events(body, table):
    """labels of the patterns of `table` in order of appearance; a call pattern (ending in `\\(`) gets a `?` suffix
    when the call is followed by the try operator"""
    found = []
    for label, pat in table:
        for m in re.finditer(pat, body):
            lab = label
            if pat.endswith(r"\(") and lab.endswith("?"):
                lab = label[:-1] + ("?" if call_has_try(body, m.end() - 1) else "")
            found.append((m.start(), lab))
    return [l for _, l in sorted(found)]


DECRYPT = [
    ("select", r"let\s+opener\s*=\s*match\s+key_phase\s*\{"),
    ("aead?", r"\bopener\s*\.\s*decrypt(?:_in_place)?\s*\("),
    ("dedup?", r"self\s*\.\s*on_decrypt_success\s*\("),
    ("guard", r"if\s+key_phase\s*!=\s*self\s*\.\s*key_phase\s*\{"),
    ("flag", r"self\s*\.\s*needs_update\s*\.\s*store\s*\(\s*true\b"),
    ("unflag", r"self\s*\.\s*needs_update\s*\.\s*store\s*\(\s*false\b"),
    ("return", r"\breturn\b"),
    ("ok", r"\bOk\(\(\)\)"),
]

ONCE = [
    ("phase-zero", r"ensure!\(\s*key_phase\s*==\s*KeyPhase::Zero\s*,\s*Err\(open::Error::RotationNotSupported\)"),
    ("aead?", r"self\s*\.\s*key\s*\.\s*decrypt(?:_in_place)?\s*\("),
    ("dedup?", r"self\s*\.\s*on_decrypt_success\s*\("),
    ("single-use", r"ensure!\(\s*!\s*self\s*\.\s*opened\s*\.\s*swap\(\s*true\s*,\s*Ordering::Relaxed\s*\)\s*,\s*Err\(open::Error::SingleUseKey\)"),
    ("return", r"\breturn\b"),
    ("ok", r"\bOk\(\(\)\)"),
]

UPDATE = [
    ("idx=phase", r"let\s+idx\s*=\s*match\s+self\s*\.\s*key_phase\s*\{\s*KeyPhase::Zero\s*=>\s*0\s*,\s*KeyPhase::One\s*=>\s*1\s*,?\s*\}"),
    ("next", r"let\s*\(\s*opener\s*,\s*ku\s*\)\s*=\s*self\s*\.\s*ku\s*\.\s*next\(\)"),
    ("slot[idx]", r"self\s*\.\s*openers\s*\[\s*idx\s*\]\s*=\s*opener\s*;"),
    ("slot[other]", r"self\s*\.\s*openers\s*\[(?!\s*idx\s*\])[^\]]*\]\s*=\s*opener\s*;"),
    ("ku", r"self\s*\.\s*ku\s*=\s*ku\s*;"),
    ("flip", r"self\s*\.\s*key_phase\s*=\s*self\s*\.\s*key_phase\s*\.\s*next_phase\(\)\s*;"),
    ("clear", r"self\s*\.\s*needs_update\s*\.\s*store\s*\(\s*false\b"),
    ("flag", r"self\s*\.\s*needs_update\s*\.\s*store\s*\(\s*true\b"),
]

SEAL_UPDATE = [
    ("next", r"let\s*\(\s*sealer\s*,\s*ku\s*\)\s*=\s*self\s*\.\s*ku\s*\.\s*next\(\)"),
    ("sealer", r"self\s*\.\s*sealer\s*=\s*sealer\s*;"),
    ("ku", r"self\s*\.\s*ku\s*=\s*ku\s*;"),
    ("records=0", r"self\s*\.\s*encrypted_records\s*=\s*AtomicU64::new\(\s*0\s*\)\s*;"),
    ("flip", r"self\s*\.\s*key_phase\s*=\s*self\s*\.\s*key_phase\s*\.\s*next_phase\(\)\s*;"),
]

WITH = [
    ("lock", r"let\s+mut\s+guard\s*=\s*lock\s*\.\s*lock\(\)\s*\.\s*unwrap\(\)\s*;"),
    ("closure", r"let\s+result\s*=\s*(?:open|seal)\(\s*&guard\s*\)\s*;"),
    ("if-needs-update", r"if\s+guard\s*\.\s*needs_update\(\)\s*\{"),
    ("update", r"(?:guard\s*\.\s*update\(\s*clock\s*,\s*subscriber\s*\)|update\(\s*&mut\s+guard\s*\))\s*;"),
    ("result", r"\n\s*result\s*\n"),
]

OPS = {">=": "≥", ">": ">", "<=": "≤", "<": "<", "==": "=", "!=": "≠"}


def slist(xs):
    return "[" + ", ".join('"' + x + '"' for x in xs) + "]"


def extract(repo):
    o = Out("DcKeyPhase")
    src = strip_comments(read(repo, KEY))
    try:
        open_mod = block(src, src.index("pub mod open"))
        seal_mod = block(src, src.index("pub mod seal"))
        app_impl = block(open_mod, open_mod.index("impl open::Application for Application"))
        once_impl = block(open_mod, open_mod.index("impl open::Application for Once"))
        inherent = block(open_mod, open_mod.index("impl Application {"))
    except ValueError as e:
        for ident in ("decryptOrder", "decryptInPlaceOrder", "updateOrder", "onceDecryptOrder", "onceDecryptInPlaceOrder"):
            o.fail(ident, "List String", "[]", f"key.rs module layout changed ({e})")
        return o

    for ident, impl, fn, table, note in (
            ("decryptOrder", app_impl, "decrypt", DECRYPT, "open::Application::decrypt"),
            ("decryptInPlaceOrder", app_impl, "decrypt_in_place", DECRYPT, "open::Application::decrypt_in_place"),
            ("onceDecryptOrder", once_impl, "decrypt", ONCE, "open::Once::decrypt"),
            ("onceDecryptInPlaceOrder", once_impl, "decrypt_in_place", ONCE, "open::Once::decrypt_in_place"),
            ("updateOrder", inherent, "update", UPDATE, "open::Application::update")):
        try:
            o.define(ident, "List String", slist(events(fn_body(impl, fn), table)), f"{note}: recognised statements in source order")
        except ValueError as e:
            o.fail(ident, "List String", "[]", f"{note}: {e}")

    # which slot a key phase selects
    for ident, fn in (("decryptSlots", "decrypt"), ("decryptInPlaceSlots", "decrypt_in_place")):
        try:
            m = re.search(r"let\s+opener\s*=\s*match\s+key_phase\s*\{\s*KeyPhase::Zero\s*=>\s*&self\.openers\[(\d+)\]\s*,\s*"
                          r"KeyPhase::One\s*=>\s*&self\.openers\[(\d+)\]\s*,?\s*\}", fn_body(app_impl, fn))
        except ValueError:
            m = None
        if m:
            o.define(ident, "List Nat", nat_list([int(m.group(1)), int(m.group(2))]), f"{fn}: slot selected by KeyPhase::Zero, KeyPhase::One")
        else:
            o.fail(ident, "List Nat", "[]", f"{fn}: slot selection not recognised")

    # new(): the second slot is the next key of the chain, phase Zero, flag down
    m = re.search(r"let\s*\(\s*opener2\s*,\s*ku\s*\)\s*=\s*ku\s*\.\s*next\(\)\s*;\s*let\s+openers\s*=\s*\[\s*opener\s*,\s*opener2\s*\]\s*;.*?"
                  r"key_phase\s*:\s*KeyPhase::Zero\s*,.*?needs_update\s*:\s*AtomicBool::new\(\s*false\s*\)", inherent, re.S)
    o.define("newIsCurrentThenNext", "Bool", "true" if m else "false",
             "open::Application::new: openers = [opener, ku.next()], key_phase Zero, needs_update false")

    # on_decrypt_success = dedup.check()?
    m = re.search(r"pub fn on_decrypt_success\(&self, payload: &mut UninitSlice\)\s*->\s*open::Result\s*\{\s*self\s*\.\s*dedup\s*\.\s*check\(\)\s*\.\s*map_err\(",
                  open_mod)
    o.define("onDecryptSuccessIsDedupCheck", "Bool", "true" if m else "false", "with_dedup!: on_decrypt_success = self.dedup.check().map_err(zeroize)?")

    # Dedup::check
    st = strip_comments(read(repo, STATUS))
    m = re.search(r"pub fn check\(&self\)\s*->\s*crypto::open::Result\s*\{\s*\*self\s*\.\s*cell\s*\.\s*get_or_init\(\|\|\s*match\s+self\s*\.\s*init\s*\.\s*take\(\)\s*\{"
                  r".*?=>\s*map\s*\.\s*store\s*\.\s*check_dedup\(&entry,\s*key_id,\s*queue_id\)\s*,\s*None\s*=>\s*Err\(crypto::open::Error::ReplayPotentiallyDetected\s*\{\s*gap:\s*None\s*\}\)",
                  st, re.S)
    d = re.search(r"pub\(crate\) fn disabled\(\)\s*->\s*Self\s*\{\s*Self\s*\{\s*cell\s*:\s*once_cell::sync::OnceCell::with_value\(Ok\(\(\)\)\)\s*,\s*init\s*:\s*core::cell::Cell::new\(None\)",
                  st)
    o.define("dedupIsOnceCell", "Bool", "true" if (m and d) else "false",
             "Dedup::check = *cell.get_or_init(|| init.take() -> map.store.check_dedup | ReplayPotentiallyDetected{None}); disabled() = cell Ok(())")

    # the sealer
    try:
        seal_inherent = block(seal_mod, seal_mod.index("impl Application {"))
        nu = fn_body(seal_inherent, "needs_update")
        lim = re.search(r"const LIMIT\s*:\s*u64\s*=\s*2u64\.pow\((\d+)\)\s*;", nu)
        thr = re.search(r"const THRESHOLD\s*:\s*u64\s*=\s*2u64\.pow\((\d+)\)\s*;", nu)
        mx = re.search(r"const MAX_RECORDS\s*:\s*u64\s*=\s*if cfg!\(debug_assertions\)\s*\{\s*TEST_MAX_RECORDS\s*\}\s*else\s*\{\s*LIMIT\s*-\s*THRESHOLD\s*\}\s*;", nu)
        cmp_ = re.search(r"self\s*\.\s*encrypted_records\s*\.\s*load\(Ordering::Relaxed\)\s*(>=|<=|==|!=|>|<)\s*MAX_RECORDS", nu)
        tst = re.search(r"pub const TEST_MAX_RECORDS\s*:\s*u64\s*=\s*([^;]+);", seal_mod)
        if lim and thr and mx and cmp_ and tst:
            o.define("limit", "Nat", str(2 ** int(lim.group(1))), "seal::Application::needs_update LIMIT")
            o.define("threshold", "Nat", str(2 ** int(thr.group(1))), "seal::Application::needs_update THRESHOLD")
            o.define("testMaxRecords", "Nat", str(const_expr(tst.group(1))), "seal::TEST_MAX_RECORDS")
            o.define("maxRecords (debugAssertions : Bool)", "Nat", "if debugAssertions then testMaxRecords else limit - threshold",
                     "MAX_RECORDS = if cfg!(debug_assertions) { TEST_MAX_RECORDS } else { LIMIT - THRESHOLD }")
            o.define("sealerNeedsUpdate (records maxRec : Nat)", "Bool", f"decide (records {OPS[cmp_.group(1)]} maxRec)",
                     f"needs_update: encrypted_records.load() {cmp_.group(1)} MAX_RECORDS")
        else:
            raise ValueError("needs_update constants / comparison not recognised")
        o.define("sealUpdateOrder", "List String", slist(events(fn_body(seal_inherent, "update"), SEAL_UPDATE)),
                 "seal::Application::update: recognised statements in source order")
        trait_impl = block(seal_mod, seal_mod.index("impl seal::Application for Application"))
        enc = fn_body(trait_impl, "encrypt")
        cnt = re.search(r"self\s*\.\s*encrypted_records\s*\.\s*fetch_add\(\s*1\s*,\s*Ordering::Relaxed\s*\)\s*;\s*self\s*\.\s*sealer\s*\.\s*encrypt\(", enc)
        kp = re.search(r"fn key_phase\(&self\)\s*->\s*KeyPhase\s*\{\s*self\s*\.\s*key_phase\s*\}", trait_impl)
        o.define("encryptCountsOne", "Bool", "true" if (cnt and kp) else "false",
                 "seal::Application::encrypt: encrypted_records.fetch_add(1) then sealer.encrypt; key_phase() = self.key_phase")
    except ValueError as e:
        o.fail("sealerNeedsUpdate (records maxRec : Nat)", "Bool", "(records + maxRec) % 2 == 0", f"seal::Application: {e}")

    # the call sites of update() in the stream code
    cs = strip_comments(read(repo, CRYPTO))
    for ident, fn in (("openWithOrder", "open_with"), ("sealWithOrder", "seal_with")):
        try:
            o.define(ident, "List String", slist(events(fn_body(cs, fn), WITH)), f"stream::crypto::Crypto::{fn}: recognised statements in source order")
        except ValueError as e:
            o.fail(ident, "List String", "[]", f"Crypto::{fn}: {e}")
    sa = strip_comments(read(repo, SEND))
    m = re.search(r"\|sealer\|\s*\{\s*if\s+features\s*\.\s*is_reliable\(\)\s*\{\s*sealer\s*\.\s*update\(&self\.shared\.clock,\s*&self\.shared\.subscriber\)\s*;\s*\}\s*else\s*\{\s*\}\s*\}", sa)
    o.define("sealerUpdatesOnlyWhenReliable", "Bool", "true" if m else "false",
             "send/application.rs: seal_with(.., |sealer| if features.is_reliable() { sealer.update(..) } else { })")
    return o
