"""Tie G for C13 (local connection-id registry): every place that assigns `retire_prior_to` in
quic/s2n-quic-transport/src/connection/local_id_registry.rs, as the expression on the right-hand side. The model
(lean/QuicModel/Conn/LocalIds.lean) moves Retire Prior To monotonically (`max`); an assignment that can lower it (ids
that expire out of sequence-number order) breaks `unretired_le_peer_limit`."""
from extract import *

SRC = "quic/s2n-quic-transport/src/connection/local_id_registry.rs"


def extract(repo):
    o = Out("LocalIds")
    src = strip_comments(read(repo, SRC))
    cut = src.find("#[cfg(test)]")
    if cut > 0:
        src = src[:cut]
    rhs = [re.sub(r"\s+", "", m.group(1)) for m in re.finditer(r"self\.retire_prior_to\s*=\s*([^;]+);", src)]
    o.define("retirePriorToAssignments", "List String", "[" + ", ".join('"' + r.replace('"', "'") + '"' for r in rhs) + "]",
             f"{SRC}: right-hand sides of every `self.retire_prior_to = ..;` (non-test code), in source order")
    # the Retire Prior To field of the NEW_CONNECTION_ID frame written by on_transmit (repo commit f182fcd caps it at the
    # sequence number of the frame; before, the registry's value was written as it is)
    m = re.search(r"frame::NewConnectionId\s*\{\s*sequence_number:\s*id_info\.sequence_number\.into\(\),\s*retire_prior_to:\s*([^,]+),", src)
    form = re.sub(r"\s+", "", m.group(1)) if m else "?"
    o.define("frameRetirePriorTo", "String", '"' + form + '"',
             f"{SRC} on_transmit: the expression written into the retire_prior_to field of NEW_CONNECTION_ID")
    return o
