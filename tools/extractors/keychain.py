"""Tie G for the C15 key chain (`OneRttKey::derive_next_key`):
  * the HkdfLabel constants of s2n-quic-core/src/crypto/label.rs,
  * which digest / labels every `impl_cipher_suite!` invocation of s2n-quic-crypto wires to key, iv, hp and key update,
  * (token level) the shape of the key-update code: `$name::update` derives the next secret from the CURRENT secret with
    the key-update label and key + iv from the NEW secret; `negotiated::KeyPair::{new, update}` key sealer/opener from the
    right direction and update both; `one_rtt::OneRttKey::derive_next_key` = `update`; the rustls provider's
    `derive_next_key` advances a clone of its secrets and STORES the advanced clone."""
from extract import *


def _ws(s):
    return re.sub(r"\s+", " ", s)


def _lean_str(s):
    return '"' + s.replace("\\", "\\\\").replace('"', '\\"') + '"'


def shapes(repo):
    """dict name -> bool for the token-level shapes"""
    out = {}
    cs = _ws(strip_comments(read(repo, "quic/s2n-quic-crypto/src/cipher_suite.rs")))
    m = re.search(r"pub fn update\(&self\) -> Self \{(.*?)\} fn new_key_secret", cs)
    body = m.group(1) if m else ""
    out["suiteUpdate"] = bool(
        re.search(r"let secret: hkdf::Prk = self \.secret \.expand\(&\[&\$key_update_label\], \$digest\) \.expect\(\"label size verified\"\) \.into\(\);", body)
        and re.search(r"let iv = Self::new_iv\(&secret\);", body)
        and re.search(r"let key = \{ let key = Self::new_key_secret\(&secret\); self\.key\.update\(&\*key\) \};", body)
        and re.search(r"Self \{ secret, iv, key \} $", body))
    m = re.search(r"fn new_key_secret\(secret: &hkdf::Prk\) -> Zeroizing<\[u8; KEY_LEN\]> \{(.*?)\} fn new_iv", cs)
    body = m.group(1) if m else ""
    out["suiteKeyFromSecret"] = bool(re.search(r"secret \.expand\(&\[&\$key_label\], &\$cipher\)", body)) and \
        bool(re.search(r"fn new_iv\(secret: &hkdf::Prk\) -> iv::Iv \{ iv::Iv::new\(secret, &\$iv_label\) \}", cs)) and \
        bool(re.search(r"pub fn new\(secret: hkdf::Prk\) -> \(Self, HeaderKey\) \{ let iv = Self::new_iv\(&secret\); let key = \{ let secret = "
                       r"Self::new_key_secret\(&secret\); Key::new\(&\*secret\) \};", cs))
    ng = _ws(strip_comments(read(repo, "quic/s2n-quic-crypto/src/negotiated.rs")))
    out["pairDirections"] = bool(re.search(
        r"let \(sealer_secret, opener_secret\) = match endpoint \{ endpoint::Type::Client => \(secrets\.client, secrets\.server\), "
        r"endpoint::Type::Server => \(secrets\.server, secrets\.client\), \};", ng)) and bool(re.search(
            r"let \(sealer, header_sealer\) = CipherSuite::new\(algorithm, sealer_secret\)\?; "
            r"let \(opener, header_opener\) = CipherSuite::new\(algorithm, opener_secret\)\?;", ng))
    out["pairUpdate"] = bool(re.search(
        r"pub fn update\(&self\) -> Self \{ Self \{ sealer: self\.sealer\.update\(\), opener: self\.opener\.update\(\), \} \}", ng)) and \
        bool(re.search(r"pub fn update\(&self\) -> Self \{ Self\(self\.0\.update\(\)\) \}", ng))
    nc = _ws(strip_comments(read(repo, "quic/s2n-quic-crypto/src/cipher_suite/negotiated.rs")))
    out["negotiatedUpdate"] = bool(re.search(r"pub fn update\(&self\) -> Self \{ dispatch!\(self, \|cipher\| cipher\.update\(\)\.into\(\)\) \}", nc))
    ort = _ws(strip_comments(read(repo, "quic/s2n-quic-crypto/src/one_rtt.rs")))
    out["oneRttDerive"] = bool(re.search(
        r"impl crypto::OneRttKey for OneRttKey \{ #\[inline\] fn derive_next_key\(&self\) -> Self \{ Self\(self\.0\.update\(\)\) \} \}", ort))
    rl = _ws(strip_comments(read(repo, "quic/s2n-quic-rustls/src/cipher_suite.rs")))
    out["rustlsDerive"] = bool(re.search(
        r"impl crypto::OneRttKey for OneRttKey \{ fn derive_next_key\(&self\) -> Self \{ let cipher_suite = self\.cipher_suite\(\); "
        r"let mut secrets = self\.secrets\.clone\(\); let quic::PacketKeySet \{ local, remote \} = secrets\.next_packet_keys\(\); "
        r"Self \{ key: PacketKeys \{ sealer: PacketKey \{ key: local, cipher_suite, \}, opener: PacketKey \{ key: remote, cipher_suite, \}, \}, "
        r"secrets, \} \} \}", rl))
    return out


def extract(repo):
    o = Out("KeyChain")
    # ---- label constants -----------------------------------------------------------------
    lab = strip_comments(read(repo, "quic/s2n-quic-core/src/crypto/label.rs"))
    consts = re.findall(r"pub const (\w+)\s*:\s*\[u8;\s*(\d+)\]\s*=\s*hex!\(\"([0-9a-fA-F]*)\"\);", lab)
    good = [(n, ln, hx) for n, ln, hx in consts if len(hx) == 2 * int(ln)]
    want = {"QUIC_KEY_16", "QUIC_KEY_32", "QUIC_IV_12", "QUIC_HP_16", "QUIC_HP_32", "QUIC_KU_32", "QUIC_KU_48"}
    if want <= {n for n, _, _ in good} and len(good) == len(consts):
        o.define("labels", "List (String × List Nat)",
                 "[" + ", ".join(f"({_lean_str(n)}, {nat_list(list(bytes.fromhex(hx)))})" for n, _, hx in good) + "]",
                 "s2n-quic-core crypto/label.rs: the HkdfLabel byte strings handed to HKDF-Expand")
    else:
        o.fail("labels", "List (String × List Nat)", "[]", "label.rs constants not found / length mismatch")
    # ---- per-suite wiring ----------------------------------------------------------------
    cs = strip_comments(read(repo, "quic/s2n-quic-crypto/src/cipher_suite.rs"))
    inv = re.findall(r"\nimpl_cipher_suite!\(\s*(.*?)\);", cs, re.S)
    rows = []
    for body in inv:
        # one macro argument per line
        args = [a.strip().rstrip(",").strip() for a in body.split("\n") if a.strip()]
        if len(args) != 13:
            rows = None
            break
        name, _lower, digest, cipher, keylen, _hp, kl, il, hl, ul = args[:10]
        try:
            k = const_expr(keylen)
        except Exception:
            rows = None
            break
        rows.append((name, digest.split("::")[-1], cipher.split("::")[-1], k, kl.split("::")[-1], il.split("::")[-1], hl.split("::")[-1],
                     ul.split("::")[-1]))
    if rows and len(rows) == 3:
        rows.sort()
        o.define("suites", "List (String × String × String × Nat × String × String × String × String)",
                 "[" + ", ".join("(" + ", ".join(_lean_str(x) if isinstance(x, str) else str(x) for x in r) + ")" for r in rows) + "]",
                 "s2n-quic-crypto cipher_suite.rs impl_cipher_suite!: (suite, digest, AEAD, key length, key label, iv label, hp label, key-update label)")
    else:
        o.fail("suites", "List (String × String × String × Nat × String × String × String × String)", "[]",
               "impl_cipher_suite! invocations changed shape")
    # ---- shapes ----------------------------------------------------------------------------
    notes = {
        "suiteUpdate": "cipher_suite.rs $name::update: next secret = self.secret.expand([$key_update_label], $digest); iv and key from the NEW secret; Self { secret, iv, key }",
        "suiteKeyFromSecret": "cipher_suite.rs $name::new / new_key_secret / new_iv: key = expand(secret, $key_label), iv = Iv::new(secret, $iv_label)",
        "pairDirections": "negotiated.rs KeyPair::new: client seals with secrets.client and opens with secrets.server, server the other way round",
        "pairUpdate": "negotiated.rs KeyPair::update updates sealer AND opener; the negotiated_crypto! wrapper forwards",
        "negotiatedUpdate": "cipher_suite/negotiated.rs NegotiatedCipherSuite::update dispatches to the suite's update",
        "oneRttDerive": "one_rtt.rs: derive_next_key = Self(self.0.update())",
        "rustlsDerive": "s2n-quic-rustls cipher_suite.rs: derive_next_key advances a clone of self.secrets (next_packet_keys) and stores THAT clone",
    }
    try:
        sh = shapes(repo)
    except Exception:
        sh = {}
    for k, note in notes.items():
        if sh.get(k):
            o.define(k, "Bool", "true", note)
        else:
            o.fail(k, "Bool", "false", "shape changed: " + note)
    return o
