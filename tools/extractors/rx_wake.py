"""Tie G for C02 (stream read waiter): the two cooperating tests of quic/s2n-quic-transport/src/stream/receive_stream.rs —
  * `ReceiveStream::on_data`: does newly arrived data wake the parked reader (`should_wake`), and
  * `ReceiveStream::poll_request`: does a read request find "enough" bytes or park the task (`read_waiter = Some(..)`),
plus `ReceiveStreamFlowController::watermark()` which caps both.  The watermark expressions are TRANSLATED (small expression
grammar: the two variables, integer literals, `.min/.max/.saturating_sub/.saturating_add`, `+ - * /`, parentheses) into Lean
functions; lean/QuicProofs/Bridge/RxWake.lean proves that they equal the expressions of the hand-written model
(`Quic.Conn.Wakers.ReadWaiter.ready` / `pollReadReceiving`) FOR ALL arguments, so a harmless rewrite (`a.min(b)` -> `b.min(a)`,
an extra pair of parentheses) keeps the bridge, and a change of either site alone breaks it."""
from extract import *

REL = "quic/s2n-quic-transport/src/stream/receive_stream.rs"

VARS = {
    "low_watermark": "low", "*low_watermark": "low", "request.low_watermark": "low",
    "self.flow_controller.watermark()": "fcwm",
    "self.desired_flow_control_window": "window",
    "self.receive_buffer.len()": "len", "len": "len",
}


class ParseError(Exception):
    pass


class P:
    """expression -> (lean term, python source) over the variables in VARS"""

    def __init__(self, s):
        self.s = s
        self.i = 0

    def peek(self, t):
        return self.s.startswith(t, self.i)

    def eat(self, t):
        if not self.peek(t):
            raise ParseError(f"expected `{t}` at `{self.s[self.i:self.i + 30]}`")
        self.i += len(t)

    def expr(self):
        a = self.term()
        while self.i < len(self.s) and self.s[self.i] in "+-":
            op = self.s[self.i]
            self.i += 1
            b = self.term()
            if op == "-":
                raise ParseError("plain `-` on unsigned values (may panic): not in the translated fragment")
            a = (f"({a[0]} + {b[0]})", f"({a[1]} + {b[1]})")
        return a

    def term(self):
        a = self.postfix()
        while self.i < len(self.s) and self.s[self.i] in "*/":
            op = self.s[self.i]
            self.i += 1
            b = self.postfix()
            a = (f"({a[0]} {op} {b[0]})", f"({a[1]} {'//' if op == '/' else '*'} {b[1]})")
        return a

    def postfix(self):
        a = self.atom()
        while self.peek("."):
            m = re.match(r"\.(min|max|saturating_sub|saturating_add)\(", self.s[self.i:])
            if not m:
                raise ParseError(f"method not in the translated fragment at `{self.s[self.i:self.i + 30]}`")
            self.i += m.end()
            b = self.expr()
            self.eat(")")
            f = m.group(1)
            if f in ("min", "max"):
                a = (f"({f} {a[0]} {b[0]})", f"{f}({a[1]}, {b[1]})")
            elif f == "saturating_sub":
                a = (f"({a[0]} - {b[0]})", f"max(0, {a[1]} - {b[1]})")
            else:
                a = (f"({a[0]} + {b[0]})", f"({a[1]} + {b[1]})")     # usize saturation is out of the model's range (Nat)
        return a

    def atom(self):
        if self.peek("("):
            self.eat("(")
            a = self.expr()
            self.eat(")")
            return a
        for k in sorted(VARS, key=len, reverse=True):
            if self.peek(k):
                nxt = self.s[self.i + len(k):self.i + len(k) + 1]
                if nxt and (nxt.isalnum() or nxt == "_"):
                    continue
                self.i += len(k)
                return (VARS[k], VARS[k])
        m = re.match(r"\d[\d_]*(usize|u32|u64)?", self.s[self.i:])
        if m:
            self.i += m.end()
            v = str(rust_int(m.group(0)))
            return (v, v)
        raise ParseError(f"atom not in the translated fragment at `{self.s[self.i:self.i + 40]}`")


def translate(src):
    p = P(src)
    a = p.expr()
    if p.i != len(src):
        raise ParseError(f"trailing text `{src[p.i:p.i + 30]}`")
    return a


def squeeze(s):
    return re.sub(r"\s+", "", s)


ITEMS = [
    # ident, lean binder list, regex on the squeezed source (group 1 = expression), note
    ("wakeThreshold", "(low fcwm : Nat)",
     r"letmutshould_wake=self\.read_waiter\.as_ref\(\)\.map\(\|\(_,low_watermark\)\|\{letlen=self\.receive_buffer\.len\(\);"
     r"(?:iflen==0\{returnfalse;\})?(?:letwatermark=(.*?);len>=watermark|len>=(.*?))\}\)\.unwrap_or\(false\);",
     "on_data: `let watermark = <expr>; len >= watermark` inside `read_waiter.as_ref().map(|(_, low_watermark)| ..)`"),
    ("pollThreshold", "(low fcwm : Nat)",
     r"ifself\.receive_buffer\.len\(\)>=(.*?)\{ifletSome\(chunks\)=request\.chunks",
     "poll_request: `if self.receive_buffer.len() >= <expr> { if let Some(chunks) = request.chunks..` (else: park)"),
    ("fcWatermark", "(window : Nat)",
     r"fnwatermark\(&self\)->usize\{letwatermark=(.*?);usize::try_from\(watermark\)\.unwrap_or\(usize::MAX\)\}",
     "ReceiveStreamFlowController::watermark: `let watermark = <expr>; usize::try_from(watermark).unwrap_or(usize::MAX)`"),
]


REQ_DATA = r"letlen=self\.receive_buffer\.len\(\);iflen==0\{returnfalse;\}(?:letwatermark=|len>=)"


def expr_of(m):
    return next(g for g in reversed(m.groups()) if g is not None) if any(g is not None for g in m.groups()) else ""


def python_twin(repo):
    """-> dict ident -> python lambda source (same translation), for the failing-input search of props/parts/C02_rxwake.py"""
    src = squeeze(strip_comments(read(repo, REL)))
    out = {}
    for ident, binders, rx, _ in ITEMS:
        m = re.search(rx, src)
        if not m:
            continue
        try:
            _, py = translate(expr_of(m))
        except ParseError:
            continue
        args = "low, fcwm" if "fcwm" in binders else "window"
        out[ident] = f"lambda {args}: {py}"
    out["wakeRequiresData"] = bool(re.search(REQ_DATA, src))
    return out


def extract(repo):
    o = Out("RxWake")
    src = squeeze(strip_comments(read(repo, REL)))
    for ident, binders, rx, note in ITEMS:
        m = re.search(rx, src)
        ty = "Nat → Nat → Nat" if "fcwm" in binders else "Nat → Nat"
        bad = "fun _ _ => 0" if "fcwm" in binders else "fun _ => 0"
        if not m:
            o.fail(ident, ty, bad, f"{REL}: shape not found — {note}")
            continue
        try:
            lean, _ = translate(expr_of(m))
        except ParseError as e:
            o.fail(ident, ty, bad, f"{REL}: `{expr_of(m)}` is outside the translated expression fragment ({e})")
            continue
        lam = "fun low fcwm => " if "fcwm" in binders else "fun window => "
        o.define(ident, ty, lam + lean, f"{REL} {note}; source expression `{expr_of(m)}`")
    o.define("wakeRequiresData", "Bool", "true" if re.search(REQ_DATA, src) else "false",
             f"{REL} on_data: `if len == 0 {{ return false; }}` precedes the watermark test (a reader is never woken for an empty buffer)")
    o.define("parkStoresRequestLow", "Bool",
             "true" if "ifshould_wake{ifletSome(context)=context{self.read_waiter=Some((context.waker().clone(),request.low_watermark));response.will_wake=true;}}" in src else "false",
             f"{REL} poll_request: `if should_wake {{ if let Some(context) = context {{ self.read_waiter = Some((context.waker().clone(), request.low_watermark)); response.will_wake = true; }} }}`")
    o.define("parkOnShortBuffer", "Bool",
             "true" if "}else{should_wake=true;}ifletSome(total_size)=total_size{" in src else "false",
             f"{REL} poll_request: the else arm of the threshold test is `should_wake = true` (park until the watermark is reached)")
    o.define("parkOnEmptyPop", "Bool",
             "true" if "}else{should_wake|=response.chunks.consumed==0;break;}" in src else "false",
             f"{REL} poll_request: `pop_watermarked` returning None -> `should_wake |= response.chunks.consumed == 0; break`")
    o.define("wakeSitesOfReadWaiter", "Nat", str(len(re.findall(r"self\.read_waiter\.take\(\)", src))),
             f"{REL}: occurrences of `self.read_waiter.take()` (only `fn wake`)")
    return o
