from extract import *

"""ack-elicitation and congestion-control classification of every frame type
(quic/s2n-quic-core/src/frame/{ack_elicitation,congestion_controlled}.rs): a frame type is listed with
the value its `impl` returns (the trait default when the impl body is empty)."""


def _table(src, trait, method, default_true_token, false_token):
    out = []
    for m in re.finditer(r"impl(?:<[^>]*>)?\s+" + trait + r"\s+for\s+crate::frame::(\w+)(?:<[^>]*>)?\s*\{", src):
        name = m.group(1)
        k = m.end()
        depth = 1
        while k < len(src) and depth:
            depth += {"{": 1, "}": -1}.get(src[k], 0)
            k += 1
        body = src[m.end():k - 1]
        if not body.strip():
            val = True
        elif false_token in body and default_true_token not in body:
            val = False
        elif default_true_token in body and false_token not in body:
            val = True
        else:
            return None
        out.append((name, val))
    return sorted(out)


def extract(repo):
    o = Out("FrameClasses")
    src = strip_comments(read(repo, "quic/s2n-quic-core/src/frame/ack_elicitation.rs"))
    t = _table(src, "AckElicitable", "ack_elicitation", "AckElicitation::Eliciting", "AckElicitation::NonEliciting")
    dflt = re.search(r"pub trait AckElicitable \{.*?fn ack_elicitation\(&self\) -> AckElicitation \{\s*AckElicitation::(\w+)", src, re.S)
    if t and dflt and dflt.group(1) == "Eliciting":
        o.define("ackEliciting", "List (String × Bool)", "[" + ", ".join(f'("{n}", {"true" if v else "false"})' for n, v in t) + "]",
                 "frame/ack_elicitation.rs: is the frame type ack-eliciting")
    else:
        o.fail("ackEliciting", "List (String × Bool)", "[]", "AckElicitable impls / trait default not recognised")
    src = strip_comments(read(repo, "quic/s2n-quic-core/src/frame/congestion_controlled.rs"))
    t = _table(src, "CongestionControlled", "is_congestion_controlled", "true", "false")
    dflt = re.search(r"pub trait CongestionControlled \{.*?fn is_congestion_controlled\(&self\) -> bool \{\s*(\w+)", src, re.S)
    if t and dflt and dflt.group(1) == "true":
        o.define("congestionControlled", "List (String × Bool)", "[" + ", ".join(f'("{n}", {"true" if v else "false"})' for n, v in t) + "]",
                 "frame/congestion_controlled.rs: does the frame type count towards bytes in flight")
    else:
        o.fail("congestionControlled", "List (String × Bool)", "[]", "CongestionControlled impls / trait default not recognised")
    return o
