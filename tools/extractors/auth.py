"""Tie G for C06 (authentication pipeline): the ORDER of the security-relevant calls in the receive path and the
layout constants of packet protection are read from the Rust text on every run and emitted as Lean
definitions; `QuicProofs/Bridge/Auth.lean` proves them equal to what `Compose.Auth` / `Compose.PacketLayout`
model.  A reordering (window insert before the decryption result is known), a dropped `is_duplicate`, a changed
AAD slice, a nonce without the packet number or a reset-token lookup among local tokens changes a generated
definition and breaks its bridge lemma."""
from extract import *


def fn_body(src, header_re, start=0):
    """text of the `{ … }` block of the first fn whose header matches header_re"""
    m = re.compile(header_re).search(src, start)
    if not m:
        return None
    # skip the signature: the body is the first `{` at paren depth 0 after the match
    depth_p = 0
    i = m.start()
    while i < len(src):
        c = src[i]
        if c in "([":
            depth_p += 1
        elif c in ")]":
            depth_p -= 1
        elif c == "{" and depth_p == 0:
            break
        elif c == ";" and depth_p == 0:
            return None
        i += 1
    depth = 0
    for j in range(i, len(src)):
        if src[j] == "{":
            depth += 1
        elif src[j] == "}":
            depth -= 1
            if depth == 0:
                return src[i:j + 1]
    return None


def norm(s):
    return re.sub(r"\s+", " ", s).strip()


def order_of(body, pats):
    """names of the patterns that occur in body, ordered by first occurrence; a pattern that occurs twice is
    listed twice (name, name#2)"""
    hits = []
    for name, pat in pats:
        for k, m in enumerate(re.finditer(pat, body)):
            hits.append((m.start(), name if k == 0 else f"{name}#{k + 1}"))
    return [n for _, n in sorted(hits)]


def lean_strs(xs):
    return "[" + ", ".join('"' + x + '"' for x in xs) + "]"


SPACES = [("App", "application.rs"), ("Handshake", "handshake.rs"), ("Initial", "initial.rs")]


def extract(repo):
    o = Out("Auth")
    base = "quic/s2n-quic-transport/src/"
    for tag, fname in SPACES:
        src = strip_comments(read(repo, base + "space/" + fname))
        body = fn_body(src, r"pub fn validate_and_decrypt_packet\b")
        if body:
            pats = [("unprotect", r"\.unprotect\("),
                    ("decrypt", r"\.decrypt_packet\(|\.decrypt\("),
                    ("is_duplicate", r"self\.is_duplicate\("),
                    ("use_decrypted", r"decrypted\.map\(|decrypted\?"),
                    ("window_insert", r"processed_packet_numbers\s*\.\s*insert|\.insert\("),
                    ("window_check", r"processed_packet_numbers\s*\.\s*check")]
            o.define(f"validateOrder{tag}", "List String", lean_strs(order_of(body, pats)),
                     f"space/{fname} validate_and_decrypt_packet: order of unprotect / decrypt / is_duplicate / first use of the decryption result; no window insert")
            nb = norm(body)
            o.define(f"duplicateReturnsOther{tag}", "Bool",
                     "true" if re.search(r"if self\.is_duplicate\(packet_number, path_id, path, publisher\) \{ return Err\(ProcessingError::Other\); \}", nb) else "false",
                     "`if self.is_duplicate(packet_number, ..) { return Err(ProcessingError::Other); }` on the number decoded by unprotect")
            o.define(f"duplicatePnIsUnprotected{tag}", "Bool",
                     "true" if re.search(r"let packet_number = packet\.packet_number;", nb) else "false",
                     "the number handed to is_duplicate is `packet.packet_number` of the unprotected packet")
        else:
            o.fail(f"validateOrder{tag}", "List String", "[]", f"validate_and_decrypt_packet not found in space/{fname}")
            o.fail(f"duplicateReturnsOther{tag}", "Bool", "false", "validate_and_decrypt_packet not found")
            o.fail(f"duplicatePnIsUnprotected{tag}", "Bool", "false", "validate_and_decrypt_packet not found")
        body = fn_body(src, r"pub fn is_duplicate\b")
        if body:
            nb = norm(body)
            calls = re.findall(r"self\.processed_packet_numbers\.(\w+)\(packet_number\)", nb)
            ok = bool(re.search(r"match packet_check \{ Ok\(\(\)\) => false, Err\(_\) => true,? \}", nb))
            o.define(f"isDuplicateCalls{tag}", "List String", lean_strs(calls), "is_duplicate: the window methods it calls on the packet number")
            o.define(f"isDuplicateIffErr{tag}", "Bool", "true" if ok else "false", "is_duplicate returns `match packet_check { Ok(()) => false, Err(_) => true }`")
        else:
            o.fail(f"isDuplicateCalls{tag}", "List String", "[]", "is_duplicate not found")
            o.fail(f"isDuplicateIffErr{tag}", "Bool", "false", "is_duplicate not found")
        body = fn_body(src, r"fn on_processed_packet\b")
        if body:
            pats = [("ack_manager", r"self\.ack_manager\.on_processed_packet\("),
                    ("window_insert", r"self\.processed_packet_numbers\s*\.insert\(processed_packet\.packet_number\)")]
            o.define(f"onProcessedOrder{tag}", "List String", lean_strs(order_of(norm(body), pats)),
                     "on_processed_packet: ack manager first, then the duplicate-window insert")
        else:
            o.fail(f"onProcessedOrder{tag}", "List String", "[]", "on_processed_packet not found")
        # every place in the file that inserts into the duplicate window
        sites = []
        for m in re.finditer(r"processed_packet_numbers\s*\.\s*insert\w*\(", src):
            # enclosing fn = last `fn name` before the match
            fns = re.findall(r"fn\s+(\w+)", src[:m.start()])
            sites.append(fns[-1] if fns else "?")
        o.define(f"windowInsertSites{tag}", "List String", lean_strs(sites), "functions that insert into processed_packet_numbers")

    # space/mod.rs: handle_cleartext_payload
    src = strip_comments(read(repo, base + "space/mod.rs"))
    body = fn_body(src, r"fn handle_cleartext_payload\b")
    if body:
        pats = [("intercept_rx_payload", r"intercept_rx_payload\("),
                ("frame_loop", r"while !payload\.is_empty\(\)"),
                ("no_frames_check", r"processed_packet\.frames == 0"),
                ("on_processed_packet", r"self\.on_processed_packet\(")]
        o.define("cleartextOrder", "List String", lean_strs(order_of(body, pats)),
                 "space/mod.rs handle_cleartext_payload: interceptor, frame loop, empty-packet check, on_processed_packet")
    else:
        o.fail("cleartextOrder", "List String", "[]", "handle_cleartext_payload not found")

    # connection_impl.rs: per packet type, validate_and_decrypt before handle_cleartext_payload
    src = strip_comments(read(repo, base + "connection/connection_impl.rs"))
    for tag, fn in (("Short", "handle_short_packet"), ("Handshake", "handle_handshake_packet"), ("Initial", "handle_initial_packet")):
        body = fn_body(src, r"fn " + fn + r"\b")
        if body:
            pats = [("closing_drop", r"ConnectionState::Closing"),
                    ("validate_and_decrypt", r"validate_and_decrypt_packet\("),
                    ("handle_cleartext", r"handle_cleartext_payload\(|handle_cleartext_initial_packet\(")]
            o.define(f"connOrder{tag}", "List String", lean_strs(order_of(body, pats)),
                     f"connection_impl.rs {fn}: closing check, validate_and_decrypt_packet, then the cleartext handler")
        else:
            o.fail(f"connOrder{tag}", "List String", "[]", f"{fn} not found")

    # connection_trait.rs handle_packet: which error arm asks for the stateless-reset check
    src = strip_comments(read(repo, base + "connection/connection_trait.rs"))
    body = fn_body(src, r"fn handle_packet\b")
    arms = []
    if body:
        for m in re.finditer(r"Err\(ProcessingError::(\w+)(?:\([^)]*\))?\)\s*=>\s*\{(.*?)\n\s{12}\}", body, re.S):
            if "check_for_stateless_reset = true" in m.group(2):
                arms.append(m.group(1))
        n_arms = len(re.findall(r"Err\(ProcessingError::\w+", body))
        o.define("resetCheckArms", "List String", lean_strs(arms), "handle_packet: ProcessingError arms that set check_for_stateless_reset")
        o.define("processingErrorArms", "Nat", str(n_arms), "handle_packet: number of ProcessingError arms")
    else:
        o.fail("resetCheckArms", "List String", "[]", "handle_packet not found")
        o.fail("processingErrorArms", "Nat", "0", "handle_packet not found")
    src = strip_comments(read(repo, "quic/s2n-quic-core/src/connection/error.rs"))
    m = re.search(r"impl From<packet_protection::Error> for ProcessingError \{\s*fn from\(_: packet_protection::Error\) -> Self \{\s*Self::(\w+)", src)
    o.define("protectionErrorMapsTo", "String", '"' + (m.group(1) if m else "?") + '"', "From<packet_protection::Error> for ProcessingError")

    # endpoint/mod.rs: close_on_matching_stateless_reset
    src = strip_comments(read(repo, base + "endpoint/mod.rs"))
    body = fn_body(src, r"fn close_on_matching_stateless_reset\b")
    if body:
        nb = norm(body)
        o.define("resetTokenIsTrailer", "Bool",
                 "true" if re.search(r"let token_index = payload\.len\(\)\.checked_sub\(StatelessResetTokenLen\)\?; let buffer = buffer\.skip\(token_index\)\.ok\(\)\?; let \(token, _\) = buffer\.decode\(\)\.ok\(\)\?;", nb) else "false",
                 "the token compared is the last StatelessResetTokenLen bytes of the datagram")
        m = re.search(r"\.connection_id_mapper \.(\w+)\(&token\)\?", nb)
        o.define("resetLookup", "String", '"' + (m.group(1) if m else "?") + '"', "the lookup used for the trailing token")
    else:
        o.fail("resetTokenIsTrailer", "Bool", "false", "close_on_matching_stateless_reset not found")
        o.fail("resetLookup", "String", '"?"', "close_on_matching_stateless_reset not found")
    m = re.search(r"LEN as StatelessResetTokenLen", src)
    o.define("resetLenAlias", "Bool", "true" if m else "false", "StatelessResetTokenLen is stateless_reset::token::LEN")
    # who fills / reads the token map
    ins = []
    rem = []
    import os as _os
    root = _os.path.join(repo, base)
    for d, _, fs in _os.walk(root):
        for f in sorted(fs):
            if not f.endswith(".rs"):
                continue
            rel = _os.path.relpath(_os.path.join(d, f), root)
            s = strip_comments(open(_os.path.join(d, f)).read())
            s = re.split(r"#\[cfg\(test\)\]\s*mod ", s)[0]
            for m in re.finditer(r"stateless_reset_map\s*\.\s*insert\(\s*([\w\.\*&]+)", s):
                ins.append(f"{rel}:{m.group(1)}")
    o.define("resetMapInserts", "List String", lean_strs(sorted(ins)),
             "every non-test `stateless_reset_map.insert(<token expr>` in s2n-quic-transport (file:first argument)")
    src = strip_comments(read(repo, base + "connection/connection_id_mapper.rs"))
    body = fn_body(src, r"pub fn remove_internal_connection_id_by_stateless_reset_token\b")
    o.define("resetLookupReadsMap", "Bool",
             "true" if body and re.search(r"guard\.stateless_reset_map\.remove\(peer_stateless_reset_token\)", norm(body)) else "false",
             "remove_internal_connection_id_by_stateless_reset_token = stateless_reset_map.remove(token)")
    src = strip_comments(read(repo, "quic/s2n-quic-core/src/stateless_reset/token.rs"))
    m = re.search(r"pub const LEN: usize = ([^;]+);", src)
    try:
        o.define("resetTokenLen", "Nat", str(const_expr(m.group(1))), "stateless_reset::token::LEN")
    except Exception:
        o.fail("resetTokenLen", "Nat", "0", "stateless_reset::token::LEN not found")
    o.define("resetTokenCtEq", "Bool", "true" if re.search(r"fn eq\(&self, other: &Self\) -> bool \{\s*self\.0\.ct_eq\(&other\.0\)\.into\(\)", src) else "false",
             "Token equality is constant time (ct_eq)")

    # ---- packet protection layout -------------------------------------------------------------
    src = strip_comments(read(repo, "quic/s2n-quic-crypto/src/cipher_suite.rs"))
    tl = re.findall(r"pub const TAG_LEN: usize = (\d+);", src)
    if tl and len(set(tl)) == 1:
        o.define("tagLen", "Nat", tl[0], "cipher_suite.rs TAG_LEN (one definition in the impl_cipher_suite! macro)")
    else:
        o.fail("tagLen", "Nat", "0", "TAG_LEN not found or not unique")
    suites = re.findall(r"impl_cipher_suite!\(\s*(\w+),", src)
    o.define("cipherSuites", "List String", lean_strs(sorted(suites)), "cipher suites instantiated by impl_cipher_suite!")
    m = re.search(r"fn decrypt\(\s*&self,\s*packet_number: u64,\s*header: &\[u8\],\s*payload: &mut \[u8\],?\s*\) -> Result<\(\), packet_protection::Error> \{(.*?)\n {16}\}", src, re.S)
    nb = norm(m.group(1)) if m else ""
    o.define("suiteDecryptShape", "Bool",
             "true" if ("let nonce = self.iv.nonce(packet_number);" in nb and ".checked_sub(TAG_LEN)" in nb
                        and "let (payload, tag) = payload.split_at_mut(payload_len);" in nb
                        and "self.key.decrypt(&nonce, header, payload, tag)?;" in nb) else "false",
             "Key::decrypt: nonce = iv.nonce(pn); tag = last TAG_LEN bytes; key.decrypt(&nonce, header, payload, tag)")
    m = re.search(r"fn encrypt\(\s*&mut self,\s*packet_number: u64,\s*header: &\[u8\],\s*payload: &mut scatter::Buffer,?\s*\) -> Result<\(\), packet_protection::Error> \{(.*?)\n {16}\}", src, re.S)
    nb = norm(m.group(1)) if m else ""
    o.define("suiteEncryptShape", "Bool",
             "true" if ("let nonce = self.iv.nonce(packet_number);" in nb and "self.key.encrypt(&nonce, header, payload)?;" in nb) else "false",
             "Key::encrypt: nonce = iv.nonce(pn); key.encrypt(&nonce, header, payload)")

    src = strip_comments(read(repo, "quic/s2n-quic-crypto/src/iv.rs"))
    body = fn_body(src, r"pub fn nonce\b")
    shape = []
    if body:
        nb = norm(body)
        pats = [("zero_u32", r"encoder\.encode\(&0u32\);"), ("pn_u64", r"encoder\.encode\(&packet_number\);"),
                ("xor_iv", r"for \(a, b\) in nonce\.iter_mut\(\)\.zip\(self\.0\.iter\(\)\) \{ \*a \^= b; \}"),
                ("return_nonce", r"\} nonce \}$")]
        shape = order_of(nb, pats)
        o.define("nonceShape", "List String", lean_strs(shape), "Iv::nonce: 4 zero bytes, the 8-byte big-endian packet number, XOR with the IV")
        m = re.search(r"pub fn nonce\(&self, packet_number: (\w+)\)", src)
        o.define("noncePnType", "String", '"' + (m.group(1) if m else "?") + '"', "type of the packet number fed to the nonce")
    else:
        o.fail("nonceShape", "List String", "[]", "Iv::nonce not found")
        o.fail("noncePnType", "String", '"?"', "Iv::nonce not found")

    src = strip_comments(read(repo, "quic/s2n-quic-core/src/crypto/payload.rs"))
    body = fn_body(src, r"fn header_protection_sample\(\s*buffer")
    if body:
        nb = norm(body)
        ok = ("let buffer = buffer.skip(header_len)?;" in nb and "let buffer = buffer.skip(PacketNumberLen::MAX_LEN)?;" in nb
              and "let (sample, _) = buffer.decode_slice(sample_len)?;" in nb)
        o.define("sampleShape", "Bool", "true" if ok else "false", "header_protection_sample: skip header_len, skip PacketNumberLen::MAX_LEN, take sample_len")
    else:
        o.fail("sampleShape", "Bool", "false", "header_protection_sample not found")
    m = re.search(r"pub\(crate\) fn split_mut\(self\).*?decode_slice\((.*?)\)\s*\.expect", src, re.S)
    o.define("aadSplit", "String", '"' + (norm(m.group(1)) if m else "?") + '"', "EncryptedPayload::split_mut: where the AAD ends")
    src = strip_comments(read(repo, "quic/s2n-quic-core/src/packet/number/packet_number_len.rs"))
    m = re.search(r"pub const MAX_LEN: usize = (\w+);", src)
    val = None
    if m:
        mm = re.search(r"const " + re.escape(m.group(1)) + r": usize = ([^;]+);", src)
        try:
            val = const_expr(mm.group(1)) if mm else rust_int(m.group(1))
        except Exception:
            val = None
    if val is not None:
        o.define("maxPnLen", "Nat", str(val), "PacketNumberLen::MAX_LEN")
    else:
        o.fail("maxPnLen", "Nat", "0", "PacketNumberLen::MAX_LEN not found")

    src = strip_comments(read(repo, "quic/s2n-quic-core/src/crypto/header_crypto.rs"))
    vals = {}
    for name in ("HEADER_PROTECTION_MASK_LEN", "LONG_HEADER_TAG", "LONG_HEADER_MASK", "SHORT_HEADER_MASK"):
        m = re.search(r"const " + name + r": \w+ = ([^;]+);", src)
        try:
            vals[name] = rust_int(m.group(1))
        except Exception:
            vals[name] = None
    if all(v is not None for v in vals.values()):
        o.define("hpConsts", "Nat × Nat × Nat × Nat",
                 f"({vals['HEADER_PROTECTION_MASK_LEN']}, {vals['LONG_HEADER_TAG']}, {vals['LONG_HEADER_MASK']}, {vals['SHORT_HEADER_MASK']})",
                 "header_crypto.rs (mask len, LONG_HEADER_TAG, LONG_HEADER_MASK, SHORT_HEADER_MASK)")
    else:
        o.fail("hpConsts", "Nat × Nat × Nat × Nat", "(0, 0, 0, 0)", "header protection constants not found")
    body = fn_body(src, r"pub\(crate\) fn remove_header_protection\b")
    if body:
        nb = norm(body)
        ok = ("payload[0] ^= mask[0] & mask_from_packet_tag(payload[0]);" in nb
              and "let packet_number_len = space.new_packet_number_len(payload[0]);" in nb
              and "let header_with_pn_len = packet_number_len.bytesize() + header_len;" in nb
              and "let packet_number_bytes = &mut payload[header_len..header_with_pn_len]; xor_mask(packet_number_bytes, &mask);" in nb)
        o.define("removeHpShape", "Bool", "true" if ok else "false",
                 "remove_header_protection: unmask first byte, read pn length from it, unmask the pn bytes")
    else:
        o.fail("removeHpShape", "Bool", "false", "remove_header_protection not found")
    body = fn_body(src, r"fn mask_from_packet_tag\b")
    o.define("maskFromTagShape", "Bool",
             "true" if body and norm(body) == "{ if tag & LONG_HEADER_TAG == LONG_HEADER_TAG { LONG_HEADER_MASK } else { SHORT_HEADER_MASK } }" else "false",
             "mask_from_packet_tag")
    body = fn_body(src, r"fn xor_mask\b")
    o.define("xorMaskShape", "Bool",
             "true" if body and "for (payload_byte, mask_byte) in payload.iter_mut().zip(&mask[1..]) { *payload_byte ^= mask_byte; }" in norm(body) else "false",
             "xor_mask: pn bytes XOR mask[1..]")

    src = strip_comments(read(repo, "quic/s2n-quic-core/src/crypto/mod.rs"))
    body = fn_body(src, r"pub fn decrypt<")
    if body:
        nb = norm(body)
        ok = ("let (header, payload) = payload.split_mut();" in nb
              and "key.decrypt(packet_number.as_crypto_nonce(), header, payload)?;" in nb)
        o.define("decryptAadIsWholeHeader", "Bool", "true" if ok else "false",
                 "crypto::decrypt: AAD = the whole header incl. first byte and pn (split_mut), nonce from the expanded packet number")
    else:
        o.fail("decryptAadIsWholeHeader", "Bool", "false", "crypto::decrypt not found")
    body = fn_body(src, r"pub fn encrypt<")
    if body:
        nb = norm(body)
        ok = ("let header_with_pn_len = packet_number_len.bytesize() + header_len;" in nb
              and "let (header, body) = payload.split_at_mut(header_with_pn_len);" in nb
              and "key.encrypt(packet_number.as_crypto_nonce(), header, &mut body)?;" in nb)
        o.define("encryptAadIsWholeHeader", "Bool", "true" if ok else "false",
                 "crypto::encrypt: AAD = payload[..header_len + pn_len]")
    else:
        o.fail("encryptAadIsWholeHeader", "Bool", "false", "crypto::encrypt not found")
    body = fn_body(src, r"pub fn unprotect<")
    if body:
        nb = norm(body)
        ok = ("let sample = payload.header_protection_sample(crypto.opening_sample_len())?;" in nb
              and "let mask = crypto.opening_header_protection_mask(sample);" in nb
              and "remove_header_protection(space, mask, payload)" in nb)
        o.define("unprotectShape", "Bool", "true" if ok else "false", "crypto::unprotect: sample → mask → remove_header_protection")
    else:
        o.fail("unprotectShape", "Bool", "false", "crypto::unprotect not found")
    src = strip_comments(read(repo, "quic/s2n-quic-core/src/packet/stateless_reset.rs"))
    m = re.search(r"const MIN_INDISTINGUISHABLE_PACKET_LEN_WITHOUT_TAG: usize =\s*([^;]+);", src)
    o.define("minIndistinguishableExpr", "String", '"' + (norm(m.group(1)) if m else "?") + '"',
             "stateless_reset.rs MIN_INDISTINGUISHABLE_PACKET_LEN_WITHOUT_TAG")
    return o
