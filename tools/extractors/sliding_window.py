"""Tie G for the duplicate window (packet/number/sliding_window.rs) and the packet-number map
(packet/number/map.rs): constants, guards and shift amounts are read from the Rust text and
emitted as Lean definitions; `QuicProofs/Bridge/SlidingWindow.lean` proves them equal to the
pinned model. Guards are *translated* (operator by operator) into Lean Bool functions, so that
`>=` -> `>` or `WINDOW_WIDTH` -> `128` changes the generated function, not just a string."""
from extract import *

OPS = {">=": "≥", "<=": "≤", ">": ">", "<": "<", "==": "=", "!=": "≠"}
CMP = r"(>=|<=|==|!=|>|<)"


def fn_body(src, header_re):
    """text of the `{ … }` block that follows the first match of header_re"""
    m = re.search(header_re, src)
    if not m:
        return None
    i = src.index("{", m.end() - 1)
    depth = 0
    for j in range(i, len(src)):
        if src[j] == "{":
            depth += 1
        elif src[j] == "}":
            depth -= 1
            if depth == 0:
                return src[i:j + 1]
    return None


def norm(s):
    return re.sub(r"\s+", " ", s).strip()


def guard_to_lean(expr, consts):
    """`delta >= WINDOW_WIDTH` -> `decide (delta ≥ 129)` (single comparison, identifiers/ints only)"""
    m = re.fullmatch(r"\s*(\w+)\s*" + CMP + r"\s*(\w+)\s*", expr)
    if not m:
        return None

    def term(t):
        if t in consts:
            return str(consts[t])
        if re.fullmatch(r"\d[\d_]*(u\d+|usize)?", t):
            return str(rust_int(t))
        return t
    return f"decide ({term(m.group(1))} {OPS[m.group(2)]} {term(m.group(3))})"


def extract(repo):
    o = Out("SlidingWindow")
    src = strip_comments(read(repo, "quic/s2n-quic-core/src/packet/number/sliding_window.rs"))
    src = src.split("#[cfg(test)]\nmod test")[0]
    consts = {}

    # type Window = u128
    m = re.search(r"type\s+Window\s*=\s*u(\d+)\s*;", src)
    bits = int(m.group(1)) if m else None
    if bits:
        o.define("windowBits", "Nat", str(bits), "`type Window = u<bits>`")
    else:
        o.fail("windowBits", "Nat", "0", "`type Window = uN` not found")

    # const WINDOW_WIDTH: u64 = 1 + mem::size_of::<Window>() as u64 * 8;
    m = re.search(r"const\s+WINDOW_WIDTH\s*:\s*u64\s*=\s*([^;]+);", src)
    width = None
    if m and bits:
        e = m.group(1).replace("mem::size_of::<Window>()", str(bits // 8))
        try:
            width = const_expr(e)
        except Exception:
            width = None
    if width is not None:
        consts["WINDOW_WIDTH"] = width
        o.define("windowWidth", "Nat", str(width), "`const WINDOW_WIDTH` evaluated: " + norm(m.group(1)))
    else:
        o.fail("windowWidth", "Nat", "0", "WINDOW_WIDTH not found / not a constant expression")

    # ---- window_position -------------------------------------------------------------
    body = fn_body(src, r"fn\s+window_position\s*\(")
    arms = []
    if body:
        mm = re.search(r"match\s+right_edge\.checked_distance\(packet_number\)\s*\{(.*?)\n\s{12}\}", body, re.S)
        if mm:
            txt = mm.group(1)
            for a in re.finditer(r"(Some\((\w+)\)|None)\s*(?:if\s+([^=]+?(?:>=|<=|==|!=|>|<)[^=]+?))?\s*=>\s*WindowPosition::(\w+)", txt):
                arms.append((a.group(2) if a.group(1) != "None" else None, a.group(3), a.group(4)))
    # expected shape: Some(0)=>RightEdge ; Some(delta) if G => Left ; Some(delta) => Within ; None => Right
    ok_shape = (len(arms) == 4 and arms[0][0] is not None and arms[0][0].isdigit() and arms[0][1] is None
                and arms[1][1] is not None and arms[2][1] is None and arms[3][0] is None)
    if ok_shape:
        o.define("positionArms", "List String", "[" + ", ".join(f'"{a[2]}"' for a in arms) + "]",
                 "window_position: targets of the arms `Some(<lit>)`, `Some(delta) if <guard>`, `Some(delta)`, `None`")
        o.define("rightEdgeDelta", "Nat", arms[0][0], "window_position: the literal of the first arm")
        g = guard_to_lean(arms[1][1], consts)
        if g:
            o.define("leftGuard", "Nat → Bool", f"fun {arms[1][0]} => {g}", "window_position: guard `" + norm(arms[1][1]) + "`")
        else:
            o.fail("leftGuard", "Nat → Bool", "fun _ => false", "guard of the second arm is not a single comparison")
        o.define("distanceIsRightMinusPn", "Bool",
                 "true" if re.search(r"if let Some\(right_edge\) = self\.right_edge\s*\{\s*match right_edge\.checked_distance\(packet_number\)", body) else "false",
                 "window_position matches on right_edge.checked_distance(packet_number)")
        o.define("rightDeltaIsPnMinusRight", "Bool",
                 "true" if re.search(r"None => WindowPosition::Right\(\s*packet_number\s*\.checked_distance\(right_edge\)", body) else "false",
                 "Right(packet_number.checked_distance(right_edge))")
    else:
        o.fail("positionArms", "List String", "[]", "window_position match arms not recognised")
        o.fail("rightEdgeDelta", "Nat", "1", "window_position match arms not recognised")
        o.fail("leftGuard", "Nat → Bool", "fun _ => false", "window_position match arms not recognised")
        o.fail("distanceIsRightMinusPn", "Bool", "false", "window_position not recognised")
        o.fail("rightDeltaIsPnMinusRight", "Bool", "false", "window_position not recognised")

    # ---- insert_with_evicted_inner ---------------------------------------------------
    body = fn_body(src, r"fn\s+insert_with_evicted_inner\s*\(")
    body_n = norm(body) if body else ""
    m = re.search(r"WindowPosition::Right\(delta\) => \{ let removed = if ([^{]+?) \{", body_n)
    g = guard_to_lean(m.group(1), consts) if m else None
    if g:
        o.define("shiftGuard", "Nat → Bool", f"fun delta => {g}", "insert: `if " + m.group(1) + "` keeps part of the window")
    else:
        o.fail("shiftGuard", "Nat → Bool", "fun _ => false", "insert Right arm guard not recognised")
    m = re.search(r"let removed_mask = if delta == (\d+) \{ u128::MAX \} else \{ !u128::MAX\.wrapping_shr\(delta as u32\) \};", body_n)
    if m:
        o.define("fullMaskDelta", "Nat", m.group(1), "insert: `if delta == N { u128::MAX } else { !u128::MAX.wrapping_shr(delta) }`")
    else:
        o.fail("fullMaskDelta", "Nat", "0", "removed_mask expression not recognised")
    pins = {
        "removedIsNotWindowAndMask": r"let removed = !self\.window & removed_mask;",
        "shiftIsCheckedShlOrZero": r"self\.window = self\.window\.checked_shl\(delta as u32\)\.unwrap_or\(0\);",
        "resetBranch": r"\} else \{ let removed = self\.window; self\.window = 0; !removed \};",
        "rightEdgeReplaced": r"if let Some\(prev_right_edge\) = self\.right_edge\.replace\(packet_number\) \{ Ok\(EvictedSet \{ window: removed, right_edge: prev_right_edge, \}\) \}",
        "withinDuplicateTest": r"let duplicate = self\.window & mask != 0; self\.window \|= mask; if duplicate \{ Err\(SlidingWindowError::Duplicate\) \} else \{ Ok\(EvictedSet::default\(\)\) \}",
        "emptySetsRightEdge": r"WindowPosition::Empty => \{ self\.right_edge = Some\(packet_number\); Ok\(EvictedSet::default\(\)\) \}",
        "insertLeftTooOld": r"WindowPosition::Left => Err\(SlidingWindowError::TooOld\), WindowPosition::RightEdge => Err\(SlidingWindowError::Duplicate\), WindowPosition::Right\(delta\)",
    }
    for name, rx in pins.items():
        o.define(name, "Bool", "true" if re.search(rx, body_n) else "false", "insert_with_evicted_inner contains: " + rx.replace("\\", "")[:90])
    m = re.search(r"self\.window \|= 1 << \(delta - (\d+)\);", body_n)
    m2 = re.search(r"WindowPosition::Within\(delta\) => \{ let mask = 1 << \(delta - (\d+)\);", body_n)
    if m and m2:
        o.define("setBitOffset", "Nat × Nat", f"({m.group(1)}, {m2.group(1)})", "insert: `1 << (delta - k)` in the Right arm and in the Within arm")
    else:
        o.fail("setBitOffset", "Nat × Nat", "(0, 0)", "`1 << (delta - k)` not found in insert")

    # ---- check -------------------------------------------------------------------------
    body = fn_body(src, r"pub fn check\s*\(")
    body_n = norm(body) if body else ""
    m = re.search(r"WindowPosition::Left => Err\(SlidingWindowError::(\w+)\), WindowPosition::RightEdge => Err\(SlidingWindowError::(\w+)\), "
                  r"WindowPosition::Right\(_\) \| WindowPosition::Empty => Ok\(\(\)\), WindowPosition::Within\(delta\) => \{ let mask = 1 << \(delta - (\d+)\); "
                  r"if self\.window & mask != 0 \{ Err\(SlidingWindowError::(\w+)\) \} else \{ Ok\(\(\)\) \} \}", body_n)
    if m:
        o.define("checkArms", "List String", f'["{m.group(1)}", "{m.group(2)}", "{m.group(4)}"]', "check: results of Left, RightEdge, Within-with-bit-set")
        o.define("checkBitOffset", "Nat", m.group(3), "check: `1 << (delta - k)`")
    else:
        o.fail("checkArms", "List String", "[]", "check body not recognised")
        o.fail("checkBitOffset", "Nat", "0", "check body not recognised")

    # ---- EvictedSet::next ----------------------------------------------------------------
    body = fn_body(src, r"fn next\(&mut self\) -> Option<PacketNumber>")
    body_n = norm(body) if body else ""
    m = re.search(r"let shift = self\.window\.leading_zeros\(\) \+ (\d+);", body_n)
    m2 = re.search(r"\.checked_sub\(VarInt::from_u32\((\w+) as u32\)\)", body_n)
    if m and m2 and m2.group(1) in consts:
        o.define("evictedShiftAndWidth", "Nat × Nat", f"({m.group(1)}, {consts[m2.group(1)]})",
                 "EvictedSet::next: `leading_zeros() + k`, left edge = right_edge - WINDOW_WIDTH")
    else:
        o.fail("evictedShiftAndWidth", "Nat × Nat", "(0, 0)", "EvictedSet::next not recognised")

    # ---- packet number map ------------------------------------------------------------------
    msrc = strip_comments(read(repo, "quic/s2n-quic-core/src/packet/number/map.rs"))
    msrc = msrc.split("#[cfg(test)]\nmod tests")[0]
    m = re.search(r"const\s+DEFAULT_CAPACITY\s*:\s*usize\s*=\s*([^;]+);", msrc)
    try:
        o.define("mapDefaultCapacity", "Nat", str(const_expr(m.group(1))), "map.rs DEFAULT_CAPACITY")
    except Exception:
        o.fail("mapDefaultCapacity", "Nat", "0", "DEFAULT_CAPACITY not found")
    mn = norm(msrc)
    mpins = {
        "mapIsEmptyIsIndexEqLen": r"pub fn is_empty\(&self\) -> bool \{ self\.index == self\.values\.len\(\) \}",
        "mapInsertPrecondition": r"debug_assert!\( packet_number > self\.start && packet_number > self\.end,",
        "mapInsertOrUpdatePrecondition": r"debug_assert!\( packet_number >= self\.start,",
        "mapIndexArithmetic": r"let distance = \(packet_number\.as_u64\(\) - self\.start\.as_u64\(\)\) as usize; let index = if distance >= self\.values\.len\(\) \{ self\.resize\(distance\); distance \} else \{ \(self\.index \+ distance\) % self\.values\.len\(\) \};",
        "mapPnIndex": r"if packet_number > self\.end \{ return None; \} let offset = packet_number\.checked_distance\(self\.start\)\?; let index = self\.index\.checked_add\(offset as usize\)\?; let index = index % self\.values\.len\(\); Some\(index\)",
        "mapResizeDoubling": r"loop \{ new_len \*= 2; if len < new_len \{ break; \} \}",
        "mapRemoveBounds": r"\(true, true\) => \{ self\.logical_clear\(\); \} \(true, false\) => \{ self\.set_start\(packet_number\.next\(\)\.unwrap\(\)\); \} \(false, true\) => \{ self\.set_end\(packet_number\.prev\(\)\.unwrap\(\)\); \}",
        "mapRemoveRangeCases": r"\(Less, Equal\) \| \(Less, Greater\) \| \(Equal, Greater\) \| \(Equal, Equal\) => \{ iter\.packets\.logical_clear\(\); \} \(Less, Less\) \| \(Equal, Less\) => \{ end = range\.end\(\); iter\.packets\.set_start\(end\.next\(\)\.unwrap\(\)\); \} \(Greater, Greater\) \| \(Greater, Equal\) => \{",
        "mapRemoveRangeOverlapTest": r"if range\.end\(\) < start \|\| range\.start\(\) > end \{ return iter; \}",
        "mapInsertOrUpdateEnd": r"self\.end = self\.end\.max\(packet_number\);",
    }
    for name, rx in mpins.items():
        o.define(name, "Bool", "true" if re.search(rx, mn) else "false", "map.rs contains: " + rx.replace("\\", "")[:90])
    return o
