"""Tie G for the C20 send-queue component: the places in dc/s2n-quic-dc/src/stream/send/queue.rs and
dc/s2n-quic-dc/src/msg/segment.rs where a one-token edit breaks byte-exactness of the stream-socket (TCP) flush path,
re-read from the source on every run and compared with the model `Quic.Dc.SendQueue` by
QuicProofs/Bridge/DcSendQueue.lean:

  * `consume_segments`: the offset update of a partially written segment is TRANSLATED (`+=` -> `offset + remaining`,
    `=` -> `remaining`), the pop condition `remaining.checked_sub(segment.as_slice().len())`, the early exits
    `ensure!(consumed > 0)` / `ensure!(remaining > 0, break)`, the partially written segment goes back to the FRONT
  * `Segment::as_slice` is `&self.buffer[self.offset as usize..]`; `Message::push` queues `offset: 0` at the back
  * `push_buffer` adds `buf.consumed_len()` to `accepted_len` after the closure succeeded
  * `poll_flush`: `limit.min(self.accepted_len)`, subtracted, reported; preceded by `ready!(poll_flush_segments(..))?`
  * `poll_flush_segments_stream`: Ok -> `consume_segments(written_len, ..)`; Err -> `segments.clear(); accepted_len = 0`;
    Pending -> `return Poll::Pending`; the batch is built from the whole queue (no `.take`)
  * `msg::segment`: MAX_TOTAL / MAX_COUNT arithmetic (Linux + GSO values)
"""
from extract import *

QUEUE = "dc/s2n-quic-dc/src/stream/send/queue.rs"
SEGMENT = "dc/s2n-quic-dc/src/msg/segment.rs"


def fn_body(src, name):
    m = re.search(r"fn\s+" + name + r"\s*(<[^{;]*?>)?\s*\(", src)
    if not m:
        return None
    i = src.index("{", m.end())
    depth = 0
    for j in range(i, len(src)):
        if src[j] == "{":
            depth += 1
        elif src[j] == "}":
            depth -= 1
            if depth == 0:
                return re.sub(r"\s+", " ", src[i:j + 1])
    return None


def flag(o, ident, cond, note):
    o.define(ident, "Bool", "true" if cond else "false", note)


def extract(repo):
    o = Out("DcSendQueue")
    q = strip_comments(read(repo, QUEUE))
    sg = strip_comments(read(repo, SEGMENT))

    cs = fn_body(q, "consume_segments") or ""
    # ---- the offset update, translated ----------------------------------------------------------
    m = re.search(r"segment\.offset (\+=|=|-=) core::mem::take\(&mut remaining\) as u16;", cs)
    term = {"+=": "offset + remaining", "=": "remaining", "-=": "offset - remaining"}.get(m.group(1)) if m else None
    if term:
        o.lines += ["/-- translated from `segment.offset <op> core::mem::take(&mut remaining) as u16` in `consume_segments` -/",
                    f"def advanceOffset (offset remaining : Nat) : Nat := {term}", ""]
        o.items.append("advanceOffset")
    else:
        o.lines += ["/-- EXTRACTION FAILED: offset update of consume_segments not found -/",
                    "def advanceOffset (_offset _remaining : Nat) : Nat := 0", ""]
        o.failed.append("advanceOffset: shape changed")
    # ---- the pop condition, translated -------------------------------------------------------------
    m = re.search(r"if let Some\(r\) = remaining\.checked_sub\(segment\.as_slice\(\)\.len\(\)\) \{ remaining = r;", cs)
    m2 = re.search(r"if remaining (>=|>) segment\.as_slice\(\)\.len\(\) \{", cs)
    if m:
        term = "decide (len ≤ remaining)"
    elif m2:
        term = "decide (len ≤ remaining)" if m2.group(1) == ">=" else "decide (len < remaining)"
    else:
        term = None
    if term:
        o.lines += ["/-- translated from the pop condition of `consume_segments` (`remaining.checked_sub(len)` is `Some`) -/",
                    f"def popFits (len remaining : Nat) : Bool := {term}", ""]
        o.items.append("popFits")
    else:
        o.lines += ["/-- EXTRACTION FAILED: pop condition of consume_segments not found -/",
                    "def popFits (_len _remaining : Nat) : Bool := false", ""]
        o.failed.append("popFits: shape changed")
    flag(o, "consumeShape", bool(re.fullmatch(
        r"\{ ensure!\(consumed > 0\); let mut remaining = consumed; "
        r"while let Some\(mut segment\) = self\.segments\.pop_front\(\) \{ "
        r"if let Some\(r\) = remaining\.checked_sub\(segment\.as_slice\(\)\.len\(\)\) \{ remaining = r; "
        r"segment_alloc\.free\(segment\.buffer\); ensure!\(remaining > 0, break\); continue; \} "
        r"segment\.offset \S+ core::mem::take\(&mut remaining\) as u16; "
        r"debug_assert!\(!segment\.as_slice\(\)\.is_empty\(\)\); self\.segments\.push_front\(segment\); break; \} "
        r"debug_assert_eq!\( remaining, 0, \"[^\"]*\" \); \}", cs)),
        "consume_segments: early exit on 0, pop from the front while the slice fits, stop when nothing remains, "
        "partially written segment goes back to the front")
    flag(o, "asSliceShape", bool(re.search(r"fn as_slice\(&self\) -> &\[u8\] \{\s*&self\.buffer\[self\.offset as usize\.\.\]\s*\}", q)),
         "Segment::as_slice = &self.buffer[self.offset as usize..]")
    flag(o, "pushShape", bool(re.search(r"self\.queue\.segments\.push_back\(Segment \{\s*ecn,\s*buffer,\s*offset: 0,\s*\}\);", q)),
         "Message::push queues the packet at the back with offset 0")
    pb = fn_body(q, "push_buffer") or ""
    flag(o, "pushBufferShape", bool(re.search(
        r"let mut buf = buf\.track_read\(\); push\(&mut message, &mut buf\)\?; self\.accepted_len \+= buf\.consumed_len\(\); Ok\(\(\)\) \}$", pb)),
        "push_buffer: closure first (`?`), then accepted_len += buf.consumed_len()")
    pf = fn_body(q, "poll_flush") or ""
    flag(o, "pollFlushShape", bool(re.search(
        r"^\{ ready!\(self\.poll_flush_segments\( .*? \)\)\?; let accepted = limit\.min\(self\.accepted_len\); "
        r"self\.accepted_len -= accepted; Poll::Ready\(Ok\(accepted\)\) \}$", pf)),
        "poll_flush: flush everything first (`ready!(..)?`), then report min(limit, accepted_len) and subtract it")
    pfs = fn_body(q, "poll_flush_segments") or ""
    flag(o, "dispatchShape", bool(re.search(r"^\{ ensure!\(!self\.segments\.is_empty\(\), Poll::Ready\(Ok\(\(\)\)\)\);", pfs)
                                  and re.search(r"if socket\.features\(\)\.is_stream\(\) \{ self\.poll_flush_segments_stream\(", pfs)),
         "poll_flush_segments: empty queue is Ready; stream sockets take the stream path")
    st = fn_body(q, "poll_flush_segments_stream") or ""
    flag(o, "streamLoopShape", bool(
        re.search(r"^\{ while !self\.segments\.is_empty\(\) \{ let mut provided_len = 0; let segments = segment::Batch::new\( "
                  r"self\.segments\.iter\(\)\.map\(\|v\| \{ let slice = v\.as_slice\(\); provided_len \+= slice\.len\(\); "
                  r"\(v\.ecn, v\.as_slice\(\)\) \}\), &socket\.features\(\), \);", st)
        and re.search(r"let result = socket\.poll_send\(cx, addr, ecn, &segments\);", st)
        and re.search(r"Poll::Ready\(Ok\(written_len\)\) => \{ .*? self\.consume_segments\(written_len, segment_alloc\); continue; \}", st)
        and re.search(r"Poll::Ready\(Err\(err\)\) => \{ .*? self\.segments\.clear\(\); self\.accepted_len = 0; return Err\(err\)\.into\(\); \}", st)
        and re.search(r"Poll::Pending => \{ .*? return Poll::Pending; \} \} \} Ok\(\(\)\)\.into\(\) \}$", st)),
        "poll_flush_segments_stream: batch of the whole queue, one poll_send, Ok -> consume_segments(written_len), "
        "Err -> clear + accepted_len = 0 + return, Pending -> return Pending")
    # ---- msg::segment constants (Linux, GSO supported) ---------------------------------------------------
    try:
        ipv4 = rust_int(re.search(r"const IPV4_HEADER_LEN: u16 = (\d+);", sg).group(1))
        ipv6 = rust_int(re.search(r"const IPV6_HEADER_LEN: u16 = (\d+);", sg).group(1))
        udp = rust_int(re.search(r"const UDP_HEADER_LEN: u16 = (\d+);", sg).group(1))
        ok = (re.search(r"MAX_TOTAL_IPV4: u16 = if cfg!\(target_os = \"linux\"\) \{\s*u16::MAX - IPV4_HEADER_LEN - UDP_HEADER_LEN", sg)
              and re.search(r"MAX_TOTAL_IPV6: u16 = if cfg!\(target_os = \"linux\"\) \{\s*u16::MAX - IPV6_HEADER_LEN - UDP_HEADER_LEN", sg)
              and re.search(r"pub const MAX_TOTAL: u16 = min_u16\(MAX_TOTAL_IPV4, MAX_TOTAL_IPV6\);", sg))
        mm = re.search(r"let max_datagram_size = (\d+) - min_u16\(IPV4_HEADER_LEN, IPV6_HEADER_LEN\) - UDP_HEADER_LEN;\s*"
                       r"\(MAX_TOTAL / max_datagram_size\) as _", sg)
        if not (ok and mm):
            raise ValueError
        total = min(65535 - ipv4 - udp, 65535 - ipv6 - udp)
        o.define("maxTotal", "Nat", str(total), "msg/segment.rs MAX_TOTAL (Linux)")
        o.define("maxCount", "Nat", str(total // (int(mm.group(1)) - min(ipv4, ipv6) - udp)), "msg/segment.rs MAX_COUNT (GSO supported)")
    except Exception:
        o.fail("maxTotal", "Nat", "0", "MAX_TOTAL arithmetic not found")
        o.fail("maxCount", "Nat", "0", "MAX_COUNT arithmetic not found")
    bn = fn_body(sg, "new") or ""
    flag(o, "batchShape", bool(
        re.search(r"if !features\.is_stream\(\) \{ ensure!\(new_total_len < MAX_TOTAL as u32, break\); \}", bn)
        and re.search(r"if let Some\(first_segment\) = segments\.first\(\) \{ ensure!\(first_segment\.len\(\) >= packet_len as usize, break\); "
                      r"undersized_segment = first_segment\.len\(\) > packet_len as usize; ensure!\(ecn == segment\.0, break\); \} "
                      r"else \{ ecn = segment\.0; \}", bn)
        and re.search(r"segments\.push\(iovec\); ensure!\(!undersized_segment, break\); ensure!\(!segments\.is_full\(\), break\); \}", bn)),
        "Batch::new: total limit only for datagram sockets; first-segment / undersized / ecn / capacity rules")
    return o
