"""Tie G for transport parameters: re-reads, from /repo's CURRENT source text, the table that
`Codec.TransportParams.fieldsWith` pins — for every field of `TransportParameters<…>`: its wire ID, whether
it is a `DisabledParameter` in `ClientTransportParameters`, its `CodecValue` type, the comparisons of its
`TransportParameterValidator::validate` body (operator AND constant, e.g. ("max_ack_delay", "le", 16384)),
and its default — plus the order of checks inside `decode_parameters` and a few constants the value
decoders depend on.  QuicProofs/Bridge/TransportParams.lean proves `Generated = pinned`."""
from extract import *

PARAMS = "quic/s2n-quic-core/src/transport/parameters/mod.rs"
IDS = "quic/s2n-quic-core/src/connection/id.rs"

FIELD_TY = "List (String × Nat × Bool × (String × Nat) × List (String × Nat) × (String × Nat))"


def _split_top(s):
    """split at top-level commas (angle brackets / parens nest)"""
    out, depth, cur = [], 0, ""
    for ch in s:
        if ch in "<([":
            depth += 1
        elif ch in ">)]":
            depth -= 1
        if ch == "," and depth == 0:
            out.append(cur.strip())
            cur = ""
        else:
            cur += ch
    if cur.strip():
        out.append(cur.strip())
    return out


def _value_expr(e):
    """VarInt::from_u8(25) / VarInt::from_u16(65527) / 3  -> int"""
    e = e.strip()
    m = re.fullmatch(r"VarInt::from_u(?:8|16|32)\((.*)\)", e)
    if m:
        e = m.group(1)
    return const_expr(e)


def _cmp_list(body):
    """the decoder_invariant! conditions of a validate body -> [(op, const)] or None when not understood"""
    checks = []
    for m in re.finditer(r"decoder_invariant!\(\s*(.*?),\s*\"", body, re.S):
        cond = " ".join(m.group(1).split())
        r = re.fullmatch(r"\((\S+)\.\.=(\S+)\)\.contains\(&\*self\.0\)", cond)
        if r:
            checks += [("ge", const_expr(r.group(1))), ("le", const_expr(r.group(2)))]
            continue
        r = re.fullmatch(r"\((\S+)\.\.(\S+)\)\.contains\(&\*self\.0\)", cond)
        if r:
            checks += [("ge", const_expr(r.group(1))), ("lt", const_expr(r.group(2)))]
            continue
        r = re.fullmatch(r"\*?self(?:\.0)? (<=|<|>=|>) (.+)", cond)
        if r:
            op = {"<=": "le", "<": "lt", ">=": "ge", ">": "gt"}[r.group(1)]
            checks.append((op, const_expr(r.group(2))))
            continue
        if cond == "!self.is_unspecified()":
            checks.append(("specified", 0))
            continue
        return None
    return checks


def extract(repo):
    o = Out("TransportParams")
    src = strip_comments(read(repo, PARAMS))
    ids_src = strip_comments(read(repo, IDS))

    def fail_all(why):
        o.fail("fields", FIELD_TY, "[]", why)
        return o

    # --- struct fields, in declaration order -------------------------------------------------
    m = re.search(r"impl_transport_parameters!\(\s*pub struct TransportParameters<(.*?)>\s*\{(.*?)\}\s*\);", src, re.S)
    if not m:
        return fail_all("impl_transport_parameters! invocation not found")
    generics = [g for g in _split_top(m.group(1)) if g]
    struct_fields = []
    for part in _split_top(m.group(2)):
        fm = re.fullmatch(r"(\w+)\s*:\s*(.+)", part, re.S)
        if not fm:
            return fail_all("struct field not understood: " + part[:40])
        struct_fields.append((fm.group(1), "".join(fm.group(2).split())))

    def alias(name):
        am = re.search(r"pub type " + name + r"\s*=\s*TransportParameters<(.*?)>;", src, re.S)
        return ["".join(x.split()) for x in _split_top(am.group(1))] if am else None
    client, server = alias("ClientTransportParameters"), alias("ServerTransportParameters")
    if not client or not server or len(client) != len(generics) or len(server) != len(generics):
        return fail_all("Client/ServerTransportParameters aliases not understood")

    # --- connection id types ------------------------------------------------------------------
    id_min = {m.group(1): rust_int(m.group(2)) for m in re.finditer(r"\bid!\((\w+),\s*(\d+)\);", ids_src)}
    mm = re.search(r"pub const MAX_LEN: usize = crate::packet::long::DESTINATION_CONNECTION_ID_MAX_LEN;", ids_src)
    long_src = strip_comments(read(repo, "quic/s2n-quic-core/src/packet/long.rs"))
    ml = re.search(r"pub(?:\(crate\))? const DESTINATION_CONNECTION_ID_MAX_LEN: usize = (\d+);", long_src)
    if mm and ml:
        o.define("cidMaxLen", "Nat", str(rust_int(ml.group(1))), "connection::id::MAX_LEN")
    else:
        o.fail("cidMaxLen", "Nat", "0", "connection id MAX_LEN not found")
    rng_ok = re.search(r"if !\(\$type::MIN_LEN\.\.=MAX_LEN\)\.contains\(&len\)", ids_src) is not None
    o.define("cidRangeCheckIsMinToMaxInclusive", "Bool", "true" if rng_ok else "false",
             "id!: `if !($type::MIN_LEN..=MAX_LEN).contains(&len) { return Err(InvalidLength) }`")

    # --- per type: macro invocation / impl ----------------------------------------------------
    def type_info(ty):
        """-> (id, codec string, default string) or raises"""
        short = ty.split("::")[-1]
        for mac, codec in (("transport_parameter", None), ("varint_transport_parameter", "varint"),
                           ("duration_transport_parameter", "varint")):
            tm = re.search(r"(?<![a-z_])" + mac + r"!\(\s*" + short + r"(?:\((\w+)\))?\s*,\s*([^,)]+)(?:,\s*(.+?))?\s*\);", src, re.S)
            if tm:
                inner = tm.group(1)
                c = codec or {"VarInt": "varint", "u8": "u8"}.get(inner)
                if c is None:
                    raise ValueError(f"{short}: codec type {inner}")
                d = _value_expr(tm.group(3)) if tm.group(3) else 0
                return rust_int(tm.group(2)), c, f"int {d}"
        tm = re.search(r"connection_id_parameter!\(\s*" + short + r"\s*,\s*(\w+)\s*,\s*([^,)]+)\);", src)
        if tm:
            if tm.group(1) not in id_min:
                raise ValueError(f"{short}: id type {tm.group(1)} not found")
            if not re.search(r"optional_transport_parameter!\(" + short + r"\);", src):
                raise ValueError(f"{short}: not optional")
            return rust_int(tm.group(2)), f"cid {id_min[tm.group(1)]}", "none"
        tm = re.search(r"impl TransportParameter for " + re.escape(ty) + r"\s*\{(.*?)\n\}", src, re.S)
        if tm:
            body = tm.group(1)
            im = re.search(r"const ID: TransportParameterId = TransportParameterId::from_u(?:8|16|32)\((\w+)\);", body)
            cm = re.search(r"type CodecValue = ([^;]+);", body)
            if not im or not cm:
                raise ValueError(f"{short}: ID / CodecValue not found")
            cv = cm.group(1).strip()
            optional = re.search(r"optional_transport_parameter!\(" + re.escape(ty) + r"\);", src) is not None
            if cv == "()":
                return rust_int(im.group(1)), "unit", "none"
            if short == "Token" and cv == "Self":
                lm = re.search(r"pub const LEN: usize = ([^;]+);", strip_comments(read(repo, "quic/s2n-quic-core/src/stateless_reset/token.rs")))
                if not lm or const_expr(lm.group(1)) != 16 or not optional:
                    raise ValueError("stateless_reset::Token LEN / optional")
                return rust_int(im.group(1)), "token", "none"
            if short == "PreferredAddress" and cv == "Self":
                pm = re.search(r"pub struct PreferredAddress \{.*?pub connection_id: crate::connection::(\w+),", src, re.S)
                dm = re.search(r"let \(connection_id, buffer\) = buffer\.decode_with_len_prefix::<CidLength, _>\(\)\?;", src)
                cl = re.search(r"type CidLength = u8;", src)
                if not pm or pm.group(1) not in id_min or not dm or not cl or not optional:
                    raise ValueError("PreferredAddress layout")
                return rust_int(im.group(1)), f"preferredAddress {id_min[pm.group(1)]}", "none"
            if short == "DcSupportedVersions" and cv == "Self":
                return rust_int(im.group(1)), "dcVersions", "versions"
            raise ValueError(f"{short}: CodecValue {cv}")
        raise ValueError(f"{short}: definition not found")

    def validator(ty):
        short = ty.split("::")[-1]
        if re.search(r"impl TransportParameterValidator for " + re.escape(ty) + r"\s*\{\s*\}", src):
            return []
        if re.search(r"connection_id_parameter!\(\s*" + short + r"\b", src) and \
                re.search(r"impl TransportParameterValidator for \$name \{\}", src):
            return []
        vm = re.search(r"impl TransportParameterValidator for " + re.escape(ty) + r"\s*\{\s*fn validate\(self\) -> Result<Self, DecoderError> \{(.*?)\n    \}\s*\}", src, re.S)
        if not vm:
            raise ValueError(f"{short}: validator not found")
        c = _cmp_list(vm.group(1))
        if c is None or not re.search(r"Ok\(self\)\s*$", vm.group(1).strip()):
            raise ValueError(f"{short}: validator body not understood")
        return c

    rows = []
    try:
        for fname, fty in struct_fields:
            server_only = False
            ty = fty
            if fty in generics:
                k = generics.index(fty)
                cm_ = re.fullmatch(r"DisabledParameter<(.+)>", client[k])
                sm_ = re.fullmatch(r"Option<(.+)>", server[k])
                if not cm_ or not sm_ or cm_.group(1) != sm_.group(1):
                    raise ValueError(f"{fname}: client/server instantiation {client[k]} / {server[k]}")
                server_only = True
                ty = sm_.group(1)
            om = re.fullmatch(r"Option<(.+)>", ty)
            if om:
                ty = om.group(1)
            pid, codec, default = type_info(ty)
            rows.append((fname, pid, server_only, codec, validator(ty), default))
    except Exception as e:
        return fail_all(str(e))

    def lean_row(r):
        checks = "[" + ", ".join(f'("{a}", {b})' for a, b in r[4]) + "]"
        def pair(x):
            a, _, b = x.partition(" ")
            return f'("{a}", {b or 0})'
        return f'("{r[0]}", {r[1]}, {"true" if r[2] else "false"}, {pair(r[3])}, {checks}, {pair(r[5])})'
    o.define("fields", FIELD_TY, "[\n  " + ",\n  ".join(lean_row(r) for r in rows) + "]",
             "struct fields of TransportParameters<…> in declaration order: (field, ID, DisabledParameter in the client type, "
             "CodecValue (+ minimum connection-id length), validator comparisons, default)")

    # DisabledParameter: ENABLED = false, ID = T::ID
    dsrc = strip_comments(read(repo, "quic/s2n-quic-core/src/transport/parameters/disabled_parameter.rs"))
    dis = re.search(r"const ENABLED: bool = false;\s*const ID: TransportParameterId = T::ID;", dsrc) is not None and \
        re.search(r"const ENABLED: bool = true;", src) is not None
    o.define("disabledParameterIsNotEnabled", "Bool", "true" if dis else "false",
             "DisabledParameter<T>: ENABLED = false, ID = T::ID; trait default ENABLED = true")

    # --- order of the checks inside one match arm of decode_parameters, and the default arm --------
    dm = re.search(r"fn decode_parameters\(.*?Ok\(parameters\)", src, re.S)
    shape = []
    if dm:
        body = dm.group(0)
        marks = [("enabled", r"decoder_invariant!\(\s*<\$field_ty>::ENABLED"),
                 ("duplicate", r"decoder_invariant!\(\s*core::mem::replace\(&mut used_fields\.\$field, true\) == false"),
                 ("decode", r"inner_buffer\.decode::<TransportParameterCodec<\$field_ty>>\(\)\?"),
                 ("validate", r"parameters\.\$field = value\.0\.validate\(\)\?"),
                 ("skip", r"_ => \{\s*inner_buffer\.skip_with_len_prefix::<TransportParameterLength>\(\)\?")]
        pos = []
        for name, pat in marks:
            pm = re.search(pat, body)
            if pm:
                pos.append((pm.start(), name))
        shape = [n for _, n in sorted(pos)]
        if not re.search(r"while !buffer\.is_empty\(\) \{\s*let \(tag, inner_buffer\) = buffer\.decode::<TransportParameterId>\(\)\?;", body):
            shape = []
    if len(shape) == 5:
        o.define("armShape", "List String", "[" + ", ".join(f'"{s}"' for s in shape) + "]",
                 "decode_parameters: order of the steps of a known-tag arm, then the default arm")
    else:
        o.fail("armShape", "List String", "[]", "decode_parameters loop shape not recognised")
    cm = re.search(r"fn decode\(buffer: DecoderBuffer<'a>\) -> DecoderBufferResult<'a, Self> \{\s*let \(value, buffer\) = "
                   r"buffer\.decode_with_len_prefix::<TransportParameterLength, _>\(\)\?;", src)
    codec_src = strip_comments(read(repo, "common/s2n-codec/src/decoder/mod.rs"))
    em = re.search(r"let \(slice, buffer\) = self\.decode_slice_with_len_prefix::<Length>\(\)\?;\s*let \(value, slice\) = "
                   r"slice\.decode::<T>\(\)\?;\s*slice\.ensure_empty\(\)\?;", codec_src)
    o.define("valueMustFillDeclaredLength", "Bool", "true" if (cm and em) else "false",
             "TransportParameterCodec::decode = decode_with_len_prefix::<VarInt, _> which ends with slice.ensure_empty()")
    tm = re.search(r"type TransportParameterId = VarInt;\s*type TransportParameterLength = VarInt;", src)
    o.define("idAndLengthAreVarInts", "Bool", "true" if tm else "false", "TransportParameterId / TransportParameterLength = VarInt")
    # encoder omits defaults
    om_ = re.search(r"fn try_into_codec_value\(&self\) -> Option<&Self::CodecValue> \{\s*if self\.0 == \$default \{\s*None\s*\} else \{\s*Some\(&self\.0\)", src)
    o.define("encoderOmitsDefault", "Bool", "true" if om_ else "false", "transport_parameter!: try_into_codec_value returns None for the default")
    # DcSupportedVersions
    vm = re.search(r"const DC_SUPPORTED_VERSIONS_MAX_LEN: u8 = (\d+);", src)
    um = re.search(r"version\.as_u64\(\) <= u32::MAX as u64", src)
    bm = re.search(r"ensure!\(len < DC_SUPPORTED_VERSIONS_MAX_LEN as usize, break\);", src)
    if vm and um and bm:
        o.define("dcVersionsMaxLen", "Nat", str(rust_int(vm.group(1))), "DC_SUPPORTED_VERSIONS_MAX_LEN (decode loop breaks at it; versions must fit u32)")
    else:
        o.fail("dcVersionsMaxLen", "Nat", "0", "DcSupportedVersions::decode not recognised")
    # --- the offline RFC text (specs/…/rfc9000/18.2.toml): names, ids and the numbers of the normative sentences,
    # so that the Lean `Rfc.TransportParams.rfc9000` table is tied to the text it was transcribed from
    try:
        spec = read(repo, "specs/www.rfc-editor.org/rfc/rfc9000/18.2.toml")
    except Exception:
        spec = ""
    text = " ".join(l[1:].strip() for l in spec.splitlines() if l.startswith("#"))
    text = re.sub(r"\s+", " ", text)
    params = [(m.group(1), rust_int(m.group(2))) for m in re.finditer(r"\b([a-z_]+) \((0x[0-9a-f]{2})\):", text)]
    if len(params) >= 17:
        o.define("rfcParams", "List (String × Nat)", "[" + ", ".join(f'("{a}", {b})' for a, b in params) + "]",
                 "RFC 9000 §18.2 (offline copy): `name (0xNN):` definitions in the order of the text")
    else:
        o.fail("rfcParams", "List (String × Nat)", "[]", "specs/…/rfc9000/18.2.toml: parameter definitions not found")
    phrases = [
        ("ack_delay_exponent.default", r"ack_delay_exponent \(0x0a\):.*?a default value of (\d+) is assumed"),
        ("ack_delay_exponent.above_invalid", r"ack_delay_exponent \(0x0a\):.*?Values above (\d+) are invalid"),
        ("max_ack_delay.default", r"max_ack_delay \(0x0b\):.*?a default of (\d+) milliseconds is assumed"),
        ("max_ack_delay.pow2_or_greater_invalid", r"max_ack_delay \(0x0b\):.*?Values of 2\^(\d+) or greater are invalid"),
        ("max_udp_payload_size.default", r"max_udp_payload_size \(0x03\):.*?maximum permitted UDP payload of (\d+)"),
        ("max_udp_payload_size.below_invalid", r"max_udp_payload_size \(0x03\):.*?Values below (\d+) are invalid"),
        ("active_connection_id_limit.at_least", r"active_connection_id_limit \(0x0e\):.*?parameter MUST be at least (\d+)"),
        ("active_connection_id_limit.default", r"active_connection_id_limit \(0x0e\):.*?a default of (\d+) is assumed"),
        ("stateless_reset_token.bytes", r"stateless_reset_token \(0x02\):.*?a sequence of (\d+) bytes"),
    ]
    found = []
    for key, pat in phrases:
        pm = re.search(pat, text)
        if pm:
            found.append((key, int(pm.group(1))))
    if len(found) == len(phrases):
        o.define("rfcNumbers", "List (String × Nat)", "[" + ", ".join(f'("{a}", {b})' for a, b in found) + "]",
                 "RFC 9000 §18.2 (offline copy): the numbers in the normative sentences")
    else:
        o.fail("rfcNumbers", "List (String × Nat)", "[]", "specs/…/rfc9000/18.2.toml: normative sentences not found")
    so = re.search(r"A client MUST NOT include any server-only transport parameter: ([a-z_, ]+?), or ([a-z_]+)\.", text)
    if so:
        names = [x.strip() for x in so.group(1).split(",") if x.strip()] + [so.group(2)]
        o.define("rfcServerOnly", "List String", "[" + ", ".join(f'"{n}"' for n in names) + "]",
                 "RFC 9000 §18.2: \"A client MUST NOT include any server-only transport parameter: …\"")
    else:
        o.fail("rfcServerOnly", "List String", "[]", "server-only sentence not found")
    return o
