"""Translator for time/timer.rs, Timestamp::has_elapsed and recovery/pacing.rs: Lean FUNCTIONS are regenerated
from the Rust expressions (comparison operators, min/max, match arms, constants)."""
from extract import *

CMP = {"<": "<", "<=": "≤", ">": ">", ">=": "≥"}


def extract(repo):
    o = Out("Timer")
    tsx = strip_comments(read(repo, "quic/s2n-quic-core/src/time/timestamp.rs"))
    rec = strip_comments(read(repo, "quic/s2n-quic-core/src/recovery/mod.rs"))
    tm = strip_comments(read(repo, "quic/s2n-quic-core/src/time/timer.rs"))
    pc = strip_comments(read(repo, "quic/s2n-quic-core/src/recovery/pacing.rs"))
    bw = strip_comments(read(repo, "quic/s2n-quic-core/src/recovery/bandwidth/estimator.rs"))

    # --- has_elapsed ----------------------------------------------------------------------
    rte = strip_comments(read(repo, "quic/s2n-quic-core/src/recovery/rtt_estimator.rs"))
    g = re.search(r"pub const K_GRANULARITY: Duration = Duration::from_(millis|micros)\((\d+)\);", rte)
    h = re.search(r"pub const fn has_elapsed\(self, now: Self\) -> bool \{\s*let mut now = now\.0\.get\(\);\s*"
                  r"now (\+=|-=) K_GRANULARITY\.as_micros\(\) as u64;\s*self\.0\.get\(\) (<=|<|>=|>) now\s*\}", tsx)
    ty = "Nat → Nat → Bool"
    if g and h:
        us = int(g.group(2)) * (1000 if g.group(1) == "millis" else 1)
        o.define("granularityUs", "Nat", str(us), "K_GRANULARITY in µs")
        sign = "+" if h.group(1) == "+=" else "-"
        o.define("hasElapsed", ty, f"fun self now => decide (self {CMP[h.group(2)]} now {sign} granularityUs)",
                 "Timestamp::has_elapsed, translated")
    else:
        o.fail("granularityUs", "Nat", "0", "K_GRANULARITY not found")
        o.fail("hasElapsed", ty, "fun _ _ => false", "has_elapsed shape changed")

    # --- Timer ---------------------------------------------------------------------------
    def body(name, src=tm):
        m = re.search(r"fn " + name + r"\b[^{]*\{(.*?)\n    \}", src, re.S)
        return re.sub(r"\s+", " ", m.group(1)).strip() if m else None

    shape = {
        "set": "self.expiration = Some(time);",
        "cancel": "self.expiration = None;",
        "is_expired": "match self.expiration { Some(timeout) => timeout.has_elapsed(current_time), _ => false, }",
        "is_armed": "self.expiration.is_some()",
        "poll_expiration": "if self.is_expired(current_time) { self.cancel(); Poll::Ready(()) } else { Poll::Pending }",
    }
    got = {k: body(k) for k in shape}
    okshape = all(got[k] == v for k, v in shape.items())
    o.define("timerShape", "Bool", "true" if okshape else "false",
             "set / cancel / is_expired / is_armed / poll_expiration bodies are token-for-token the transcribed ones"
             + ("" if okshape else " — CHANGED: " + ", ".join(k for k in shape if got[k] != shape[k])))
    # Query for Option<Timestamp>: translate the arms
    q = re.search(r"impl Query for Option<Timestamp> \{.*?match \(self, timer\.expiration\) \{(.*?)\n        \}\s*Ok\(\(\)\)", tm, re.S)
    ty = "Option Nat → Option Nat → Option Nat"
    arms = []
    if q:
        for line in [l.strip() for l in q.group(1).split("\n") if l.strip()]:
            if re.fullmatch(r"_ => \{\},?", line):
                arms.append("  | q, _ => q")
                continue
            a = re.fullmatch(r"\((.*)\) => (.*),", line)
            if not a:
                arms = None
                break
            pat, rhs = re.sub(r"\s+", "", a.group(1)), a.group(2).strip()
            m = re.fullmatch(r"\*a = \(\*a\)\.(min|max)\(b\)", rhs)
            if pat == "Some(a),Some(b)" and m:
                arms.append(f"  | some a, some b => some (Nat.{m.group(1)} a b)")
            elif pat == "a@None,b" and rhs == "*a = b":
                arms.append("  | none, b => b")
            else:
                arms = None
                break
    if q and arms and len(arms) == 3:
        o.define("onTimer", ty, "fun q t =>\n  match q, t with\n" + "\n".join(arms), "impl Query for Option<Timestamp>::on_timer, arms translated in source order")
    else:
        o.fail("onTimer", ty, "fun _ _ => none", "Query for Option<Timestamp> arms not recognised")
    ne = body("next_expiration")
    o.define("nextExpirationShape", "Bool",
             "true" if ne == "let mut timeout: Option<Timestamp> = None; let _ = self.timers(&mut timeout); timeout" else "false",
             "Provider::next_expiration starts from None and runs the Option<Timestamp> query")

    # --- Pacer ---------------------------------------------------------------------------
    def ratio(name):
        m = re.search(r"const " + name + r": Ratio<u64> = Ratio::new_raw\((\d+), (\d+)\);", pc)
        return (int(m.group(1)), int(m.group(2))) if m else None
    for ident, name in (("nRatio", "N"), ("slowStartN", "SLOW_START_N")):
        r = ratio(name)
        if r:
            o.define(ident, "Nat × Nat", f"({r[0]}, {r[1]})", f"pacing.rs {name}")
        else:
            o.fail(ident, "Nat × Nat", "(0, 0)", f"{name} not found")
    for ident, name in (("initialIntervalNs", "INITIAL_INTERVAL"), ("minimumPacingRttNs", "MINIMUM_PACING_RTT")):
        m = re.search(r"pub const " + name + r": Duration = Duration::from_(millis|micros|nanos)\((\d+)\);", pc)
        if m:
            o.define(ident, "Nat", str(int(m.group(2)) * {"millis": 10**6, "micros": 1000, "nanos": 1}[m.group(1)]), f"pacing.rs {name} in ns")
        else:
            o.fail(ident, "Nat", "0", f"{name} not found")
    m = re.search(r"pub const MAX_BURST_PACKETS: u32 = (\d+);", rec)
    if m:
        o.define("maxBurstPackets", "Nat", m.group(1), "recovery/mod.rs MAX_BURST_PACKETS")
    else:
        o.fail("maxBurstPackets", "Nat", "0", "MAX_BURST_PACKETS not found")
    m = re.search(r"const KIBIBYTE_SHIFT: u8 = (\d+);", bw)
    if m:
        o.define("kibibyteShift", "Nat", m.group(1), "bandwidth KIBIBYTE_SHIFT")
    else:
        o.fail("kibibyteShift", "Nat", "0", "KIBIBYTE_SHIFT not found")
    m = re.search(r"if rtt_estimator\.smoothed_rtt\(\) (<=|<|>=|>) MINIMUM_PACING_RTT \{\s*return;\s*\}", pc)
    if m:
        o.define("pacingDisabled", "Nat → Bool", f"fun srtt => decide (srtt {CMP[m.group(1)]} minimumPacingRttNs)", "on_packet_sent early return, translated")
    else:
        o.fail("pacingDisabled", "Nat → Bool", "fun _ => true", "early return shape changed")
    m = re.search(r"self\.next_packet_departure_time =\s*Some\(\(next_packet_departure_time \+ interval\)\.(max|min)\(now\)\);", pc)
    m2 = re.search(r"self\.next_packet_departure_time = Some\(now \+ INITIAL_INTERVAL\);", pc)
    if m and m2:
        o.define("advance", "Nat → Nat → Nat → Nat", f"fun next intervalUs now => Nat.{m.group(1)} (next + intervalUs) now", "next departure time update, translated")
    else:
        o.fail("advance", "Nat → Nat → Nat → Nat", "fun _ _ _ => 0", "departure time update shape changed")
    m = re.search(r"if self\.capacity == 0 \{.*?self\.capacity = Counter::new\(MAX_BURST_PACKETS \* max_datagram_size as u32\);\s*\}\s*self\.capacity -= bytes_sent as u32;", pc, re.S)
    m2 = re.search(r"let n = if slow_start \{ SLOW_START_N \} else \{ N \};.*?let pacing_rate = Bandwidth::new\(congestion_window as u64, rtt\) \* n;.*?"
                   r"let packet_size = MAX_BURST_PACKETS \* max_datagram_size as u32;.*?packet_size as u64 / pacing_rate", pc, re.S)
    m3 = re.search(r"Duration::from_nanos\(rhs\.nanos_per_kibibyte\.saturating_mul\(self\) >> KIBIBYTE_SHIFT\)", bw)
    m4 = re.search(r"nanos_per_kibibyte: \(rhs\.inv\(\) \* self\.nanos_per_kibibyte\)\.to_integer\(\),", bw)
    m5 = re.search(r"let interval = \(interval\.as_nanos\(\) as u64\) << KIBIBYTE_SHIFT;\s*if interval == 0 \|\| bytes == 0 \{\s*Bandwidth::ZERO\s*\} else \{\s*Self \{\s*nanos_per_kibibyte: interval / bytes,", bw)
    o.define("pacerShape", "Bool", "true" if all([m, m2, m3, m4, m5]) else "false",
             "capacity refill / decrement, interval formula, Bandwidth::new, Bandwidth * Ratio and u64 / Bandwidth have the transcribed shape")
    return o
