from extract import *

FRAME_DIR = "quic/s2n-quic-core/src/frame/"
SPACE_DIR = "quic/s2n-quic-transport/src/space/"


def lean_str_list(xs):
    return "[" + ", ".join('"' + x + '"' for x in xs) + "]"


def extract(repo):
    o = Out("Frame")
    mod = strip_comments(read(repo, FRAME_DIR + "mod.rs"))

    # ---- the `frames!` table: [tag_macro] => module, handler, Type ; extension[tag_macro] => ...
    m = re.search(r"\nframes!\s*\{(.*?)\n\}", mod, re.S)
    rows = []
    if m:
        for r in re.finditer(r"(extension)?\[(\w+)\]\s*=>\s*(\w+),\s*(\w+),\s*(\w+)", m.group(1)):
            rows.append((r.group(3), r.group(2), bool(r.group(1)), r.group(4)))
    tags = []
    ok = bool(rows)
    for (module, macro, is_ext, handler) in rows:
        try:
            src = strip_comments(read(repo, FRAME_DIR + module + ".rs"))
            mm = re.search(r"macro_rules!\s*" + macro + r"\s*\{\s*\(\)\s*=>\s*\{\s*([^}]*?)\s*\};?\s*\}", src, re.S)
            body = mm.group(1).strip()
            if "..=" in body:
                lo, hi = body.split("..=")
                lo, hi = rust_int(lo), rust_int(hi)
            else:
                lo = hi = rust_int(body)
            tags.append((module, lo, hi, is_ext))
        except Exception:
            ok = False
            break
    ty = "List (String × Nat × Nat)"
    if ok:
        o.define("tags", ty, "[" + ", ".join(f'("{n}", {lo}, {hi})' for (n, lo, hi, _) in tags) + "]",
                 "frame/mod.rs `frames!` table joined with the `*_tag!` macros: (module, first tag, last tag), table order")
        o.define("extensionModules", "List String", lean_str_list([n for (n, _, _, e) in tags if e]),
                 "rows of the `frames!` table marked `extension[...]` (varint tag, reached through handle_extension_frame)")
    else:
        o.fail("tags", ty, "[]", "frames! table / *_tag! macros not recognised")
        o.fail("extensionModules", "List String", "[]", "frames! table not recognised")

    # ---- dispatch shape of decode_frame
    m = re.search(r"let tag = buffer\.peek_byte\(0\)\?;\s*match tag \{\s*(0b[01_]+|0x[0-9a-fA-F]+|\d+)\s*\.\.=\s*(0x[0-9a-fA-F]+|\d+)\s*=>\s*self\.handle_extension_frame\(buffer\),"
                  r".*?_\s*=>\s*self\.handle_extension_frame\(buffer\),", mod, re.S)
    if m:
        o.define("extensionFirstByte", "Nat × Nat", f"({rust_int(m.group(1))}, {rust_int(m.group(2))})",
                 "decode_frame: first bytes sent to handle_extension_frame before the one-byte tags are tried; the `_` arm goes there too")
    else:
        o.fail("extensionFirstByte", "Nat × Nat", "(0, 0)", "decode_frame dispatch shape changed")
    m = re.search(r"fn handle_extension_frame.*?match tag\.as_u64\(\) \{.*?_ => \{\s*let _ = buffer;\s*Err\(DecoderError::InvariantViolation\(\"([^\"]*)\"\)\)", mod, re.S)
    o.define("unknownFrameIsInvalidFrame", "Bool", "true" if m and m.group(1) == "invalid frame" else "false",
             "handle_extension_frame: unknown tag -> InvariantViolation(\"invalid frame\")")

    # ---- stream limit bound (MAX_STREAMS / STREAMS_BLOCKED)
    def bound(module, var):
        src = strip_comments(read(repo, FRAME_DIR + module))
        mm = re.search(r"decoder_invariant!\(\s*\*" + var + r"\s*(<=|<)\s*([^,]+?),", src)
        if not mm:
            return None
        return (mm.group(1), const_expr(mm.group(2)))
    for ident, module, var in (("maxStreamsBound", "max_streams.rs", "maximum_streams"), ("streamsBlockedBound", "streams_blocked.rs", "stream_limit")):
        try:
            b = bound(module, var)
        except Exception:
            b = None
        if b:
            # (inclusive upper bound accepted by the decoder)
            o.define(ident, "Nat", str(b[1] if b[0] == "<=" else b[1] - 1), f"frame/{module}: decoder_invariant!(*{var} {b[0]} {b[1]})")
        else:
            o.fail(ident, "Nat", "0", f"frame/{module}: stream limit invariant not found")

    # ---- NEW_CONNECTION_ID
    nci = strip_comments(read(repo, FRAME_DIR + "new_connection_id.rs"))
    m = re.search(r"\((\d+)\.\.=(\d+)\)\.contains\(&connection_id_len\)", nci)
    if m:
        o.define("cidLenBounds", "Nat × Nat", f"({m.group(1)}, {m.group(2)})", "new_connection_id.rs: (1..=20).contains(&connection_id_len)")
    else:
        o.fail("cidLenBounds", "Nat × Nat", "(0, 0)", "connection id length check not found")
    m = re.search(r"decoder_invariant!\(\s*retire_prior_to\s*(<=|<)\s*sequence_number\s*,", nci)
    o.define("retirePriorToLeSeq", "Bool", "true" if m and m.group(1) == "<=" else "false", "new_connection_id.rs: retire_prior_to <= sequence_number")
    m = re.search(r"STATELESS_RESET_TOKEN_LEN: usize = size_of::<u(\d+)>\(\)", nci)
    if m:
        o.define("resetTokenLen", "Nat", str(int(m.group(1)) // 8), "new_connection_id.rs STATELESS_RESET_TOKEN_LEN")
    else:
        o.fail("resetTokenLen", "Nat", "0", "STATELESS_RESET_TOKEN_LEN not found")
    # order of the checks/reads in the decoder body (error class of a doubly-invalid frame)
    order = [x for x in re.findall(r"(retire_prior_to <= sequence_number|buffer\.decode::<u8>\(\)|contains\(&connection_id_len\)|decode_slice\(connection_id_len|decode_slice\(STATELESS_RESET_TOKEN_LEN)", nci)]
    o.define("nciDecodeOrder", "List String", lean_str_list(order), "new_connection_id.rs: order of checks and reads after the two varints")

    # ---- small constants
    def const(ident, module, pat, note, conv=rust_int):
        src = strip_comments(read(repo, FRAME_DIR + module))
        mm = re.search(pat, src)
        if mm:
            try:
                o.define(ident, "Nat", str(conv(mm.group(1))), note)
                return
            except Exception:
                pass
        o.fail(ident, "Nat", "0", note + " not found")
    const("pathDataLen", "path_challenge.rs", r"pub const DATA_LEN: usize = (\d+);", "path_challenge.rs DATA_LEN")
    const("dcMaxCount", "dc_stateless_reset_tokens.rs", r"const MAX_STATELESS_RESET_TOKEN_COUNT: usize = (\d+);", "dc_stateless_reset_tokens.rs MAX_STATELESS_RESET_TOKEN_COUNT")
    const("dcTagConst", "dc_stateless_reset_tokens.rs", r"const TAG: VarInt = VarInt::from_u32\((0x[0-9a-fA-F]+|\d+)\);", "dc_stateless_reset_tokens.rs TAG (what the encoder writes)")
    const("mtuTagConst", "mtu_probing_complete.rs", r"const TAG: VarInt = VarInt::from_u32\((0x[0-9a-fA-F]+|\d+)\);", "mtu_probing_complete.rs TAG (what the encoder writes)")
    bits = []
    try:
        st = strip_comments(read(repo, FRAME_DIR + "stream.rs"))
        for nme in ("STREAM_TAG", "OFF_BIT", "LEN_BIT", "FIN_BIT"):
            bits.append(rust_int(re.search(r"const " + nme + r": u8 = (0x[0-9a-fA-F]+|\d+);", st).group(1)))
        dg = strip_comments(read(repo, FRAME_DIR + "datagram.rs"))
        bits.append(rust_int(re.search(r"const DATAGRAM_TAG: u8 = (0x[0-9a-fA-F]+|\d+);", dg).group(1)))
        bits.append(rust_int(re.search(r"const LEN_BIT: u8 = (0x[0-9a-fA-F]+|\d+);", dg).group(1)))
        o.define("streamBits", "List Nat", nat_list(bits), "stream.rs STREAM_TAG, OFF_BIT, LEN_BIT, FIN_BIT; datagram.rs DATAGRAM_TAG, LEN_BIT")
    except Exception:
        o.fail("streamBits", "List Nat", "[]", "stream/datagram tag bits not found")
    sub = []
    try:
        for module, names in (("ack.rs", ("ACK_TAG", "ACK_W_ECN_TAG")), ("max_streams.rs", ("BIDIRECTIONAL_TAG", "UNIDIRECTIONAL_TAG")),
                              ("streams_blocked.rs", ("BIDIRECTIONAL_TAG", "UNIDIRECTIONAL_TAG")),
                              ("connection_close.rs", ("QUIC_ERROR_TAG", "APPLICATION_ERROR_TAG"))):
            src = strip_comments(read(repo, FRAME_DIR + module))
            for nme in names:
                sub.append(rust_int(re.search(r"const " + nme + r": u8 = (0x[0-9a-fA-F]+|\d+);", src).group(1)))
        o.define("subTags", "List Nat", nat_list(sub),
                 "ACK_TAG, ACK_W_ECN_TAG; max_streams BIDI, UNI; streams_blocked BIDI, UNI; connection_close QUIC_ERROR_TAG, APPLICATION_ERROR_TAG")
    except Exception:
        o.fail("subTags", "List Nat", "[]", "sub-tag constants not found")

    # ---- expression shapes whose constants/comparisons the model transcribes (ACK arithmetic, tag bits, checks)
    def shape(ident, module, pats, note):
        """all regexes must match (in order of appearance is not required)"""
        try:
            src = strip_comments(read(repo, FRAME_DIR + module))
            okk = all(re.search(p_, src, re.S) for p_ in pats)
        except Exception:
            okk = False
        o.define(ident, "Bool", "true" if okk else "false", note)
    shape("ackDecodeShape", "ack.rs",
          [r"ack_range_count\s*\.checked_add\(VarInt::from_u8\(1\)\)\s*\.ok_or\(ACK_RANGE_DECODING_ERROR\)\?",
           r"for _ in 0\.\.\*ack_range_count \{\s*iter\.next\(\)\.ok_or\(ACK_RANGE_DECODING_ERROR\)\?;",
           r"self\.ack_range_count = self\.ack_range_count\.checked_sub\(VarInt::from_u8\(1\)\)\?;",
           r"let start = largest_acknowledged\.checked_sub\(ack_range\)\?;\s*let end = largest_acknowledged;",
           r"if self\.ack_range_count != VarInt::from_u8\(0\) \{\s*let \(gap, buffer\) = buffer\.decode::<VarInt>\(\)\.ok\(\)\?;\s*"
           r"self\.largest_acknowledged = largest_acknowledged\s*\.checked_sub\(ack_range\)\?\s*\.checked_sub\(gap\)\?\s*\.checked_sub\(VarInt::from_u8\(2\)\)\?;",
           r"if tag == ACK_W_ECN_TAG \{"],
          "ack.rs decoder: count+1 (checked), count iterations, start = largest - range, next largest = largest - range - gap - 2 (all checked), ECN iff tag 0x03")
    shape("ackEncodeShape", "ack.rs",
          [r"let first_ack_range = largest_acknowledged - smallest;",
           r"buffer\.encode\(&largest_acknowledged\);\s*buffer\.encode\(&self\.ack_delay\);\s*buffer\.encode\(&ack_range_count\);\s*buffer\.encode\(&first_ack_range\);",
           r"let gap = smallest - end - 2;\s*let ack_range = end - start;\s*buffer\.encode\(&gap\);\s*buffer\.encode\(&ack_range\);\s*start"],
          "ack.rs encoder: field order, first = largest - smallest, gap = smallest - end - 2, range = end - start")
    shape("streamDecodeShape", "stream.rs",
          [r"let has_offset = tag & OFF_BIT == OFF_BIT;", r"let is_last_frame = tag & LEN_BIT != LEN_BIT;", r"let is_fin = tag & FIN_BIT == FIN_BIT;",
           r"if \*self\.offset != 0 \{\s*tag \|= OFF_BIT;", r"if !self\.is_last_frame \{\s*tag \|= LEN_BIT;", r"if self\.is_fin \{\s*tag \|= FIN_BIT;",
           r"if \*self\.offset != 0 \{\s*buffer\.encode\(&self\.offset\);"],
          "stream.rs: OFF/LEN/FIN tests in decode, tag() and encode (offset omitted iff 0, length omitted iff is_last_frame)")
    shape("datagramShape", "datagram.rs",
          [r"let is_last_frame = tag & LEN_BIT != LEN_BIT;", r"if !self\.is_last_frame \{\s*tag \|= LEN_BIT;"],
          "datagram.rs: LEN bit <=> !is_last_frame")
    shape("connectionCloseShape", "connection_close.rs",
          [r"if tag == QUIC_ERROR_TAG \{\s*let \(frame_type, buffer\) = buffer\.decode\(\)\?;", r"let reason = if reason\.is_empty\(\) \{\s*None",
           r"if self\.frame_type\.is_some\(\) \{\s*QUIC_ERROR_TAG\s*\} else \{\s*APPLICATION_ERROR_TAG",
           r"\} else \{\s*buffer\.encode\(&0u8\);"],
          "connection_close.rs: frame type field iff 0x1c; empty reason <-> None (encoded as a single 0 byte)")
    shape("newTokenShape", "new_token.rs", [r"decoder_invariant!\(!token\.is_empty\(\), \"empty Token field\"\);"],
          "new_token.rs: empty token rejected")
    shape("paddingShape", "padding.rs",
          [r"\.map\(\|v\| v == padding_tag!\(\)\)\s*\.unwrap_or\(false\)\s*\{\s*length \+= 1;\s*\}", r"let buffer = buffer\.skip\(length\)[^;]*;\s*length \+= 1;",
           r"encoder\.write_repeated\(self\.length, 0\)"],
          "padding.rs: run of zero bytes, length counts the tag byte, encoder writes `length` zero bytes")
    shape("dcTokensShape", "dc_stateless_reset_tokens.rs",
          [r"count > VarInt::ZERO,", r"count <= MAX_STATELESS_RESET_TOKEN_COUNT,", r"_from_prefix_with_elems"],
          "dc_stateless_reset_tokens.rs: 0 < count <= MAX, then count tokens")

    # ---- frames allowed per packet space (for C04): handlers a space overrides + what the trait allows by default
    try:
        sp = strip_comments(read(repo, SPACE_DIR + "mod.rs"))
        trait = sp[sp.index("pub trait PacketSpace"):]
        # methods declared without a body are required (every space handles them)
        required = re.findall(r"fn handle_(\w+)_frame(?:<[^>]*>)?\s*\([^;{]*?\)\s*->\s*Result<\(\), transport::Error>;", trait, re.S)
        rejected_by_default = re.findall(r"default_frame_handler!\(handle_(\w+)_frame", trait)
        default_ok = []
        for mm in re.finditer(r"fn handle_(\w+)_frame(?:<[^>]*>)?\s*\([^{;]*?\)\s*->\s*Result<\(\), transport::Error>\s*\{(.*?)\n    \}", trait, re.S):
            body = mm.group(2)
            if "PROTOCOL_VIOLATION" in body and "INVALID_FRAME_ERROR" in body:
                rejected_by_default.append(mm.group(1))
            else:
                default_ok.append(mm.group(1))
        # frames handled inline by handle_cleartext_payload without a handler call
        inline = [x.lower() for x in re.findall(r"Frame::(Padding|Ping)\(frame\) => \{", trait)]
        spaces = []
        for name in ("initial", "handshake", "application"):
            src = strip_comments(read(repo, SPACE_DIR + name + ".rs"))
            i = src.index("PacketSpace<Config> for")
            over = re.findall(r"fn handle_(\w+)_frame", src[i:])
            allowed = sorted(set(inline) | set(default_ok) | set(over))
            missing = [r for r in required if r not in over]
            if missing:
                raise ValueError(f"{name}: required handlers missing {missing}")
            spaces.append((name, allowed))
        known = set(required) | set(rejected_by_default) | set(default_ok) | set(inline)
        frames_mods = set(n for (n, _, _, _) in tags)
        if ok and known != frames_mods:
            raise ValueError(f"handler set {sorted(known)} differs from frames! table {sorted(frames_mods)}")
        o.define("allowedFrames", "List (String × List String)",
                 "[" + ", ".join(f'("{n}", {lean_str_list(a)})' for n, a in spaces) + "]",
                 "frames a packet space handles without PROTOCOL_VIOLATION: overridden handle_*_frame methods + trait defaults that return Ok "
                 "+ PADDING/PING handled inline (space/mod.rs, space/{initial,handshake,application}.rs)")
    except Exception as e:
        o.fail("allowedFrames", "List (String × List String)", "[]", f"per-space handler tables not recognised ({e})")
    return o
