"""Tie G for C17 (socket tasks): where the deferred wake-up of `release_no_wake` is delivered in
quic/s2n-quic-platform/src/socket/task/{tx,rx}.rs (`impl Future … fn poll`). Model: lean/QuicModel/Sync/SocketTask.lean."""
from extract import *

FILES = {"tx": "quic/s2n-quic-platform/src/socket/task/tx.rs", "rx": "quic/s2n-quic-platform/src/socket/task/rx.rs"}


def squeeze(s):
    return re.sub(r"\s+", "", s)


def poll_body(src):
    m = re.search(r"fn\s+poll\s*\(\s*self\s*:\s*Pin<&mut\s+Self>", src)
    if not m:
        return None
    i = src.find("{", m.end())
    depth = 0
    for j in range(i, len(src)):
        if src[j] == "{":
            depth += 1
        elif src[j] == "}":
            depth -= 1
            if depth == 0:
                return src[i + 1:j]
    return None


def extract(repo):
    o = Out("SocketTask")
    for k, rel in FILES.items():
        src = strip_comments(read(repo, rel))
        cut = src.find("#[cfg(test)]")
        if cut > 0:
            src = src[:cut]
        body = poll_body(src)
        if body is None:
            o.fail(k + "WakeInPendingArm", "Bool", "false", f"`fn poll(self: Pin<&mut Self>, ..)` not found in {rel}")
            o.fail(k + "WakeAfterLoop", "Bool", "false", "fn poll not found")
            o.fail(k + "WakeSites", "Nat × Nat × Nat", "(0, 0, 0)", "fn poll not found")
            continue
        sq = squeeze(body)
        arm = "Poll::Pending=>{ifpending_wake{this.ring.wake();}returnPoll::Pending;}"
        o.define(k + "WakeInPendingArm", "Bool", "true" if arm in sq else "false",
                 f"{rel} poll: `Poll::Pending => {{ if pending_wake {{ this.ring.wake(); }} return Poll::Pending; }}`")
        tail = "this.io_cooldown.on_pending_task(cx);ifpending_wake{this.ring.wake();}if!this.ring.is_open(){returnPoll::Ready(None);}Poll::Pending"
        o.define(k + "WakeAfterLoop", "Bool", "true" if sq.endswith(tail) else "false",
                 f"{rel} poll ends with `io_cooldown.on_pending_task(cx); if pending_wake {{ this.ring.wake(); }} if !this.ring.is_open() {{ return Ready(None) }} Pending`")
        n_rel = len(re.findall(r"release_no_wake\(", sq))
        n_set = len(re.findall(r"pending_wake=true", sq))
        n_ret = len(re.findall(r"returnPoll::Pending", sq))
        o.define(k + "WakeSites", "Nat × Nat × Nat", f"({n_rel}, {n_set}, {n_ret})",
                 f"{rel} poll: occurrences of `release_no_wake(`, `pending_wake = true`, `return Poll::Pending` (every release sets the flag; the only early "
                 "return with Pending is the arm above)")
    return o
