"""Tie G for C15: KEY_UPDATE_WINDOW, cipher-suite AEAD limits, the comparison operators of
`limited::Key::{expired, needs_update}` and of the integrity check, the timer granularity, the
width of the generation counter, and (token level) which of the two candidate repairs of
`KeySet::{decrypt_packet, encryption_phase}` the tree carries."""
from extract import *

OPS = {">=": "≥", ">": ">", "<=": "≤", "<": "<", "==": "=", "!=": "≠"}
OP_RE = r"(>=|<=|==|!=|>|<)"


def _pow(s):
    return re.sub(r"u64::pow\(\s*(\d+)\s*,\s*(\d+)\s*\)", r"(\1**\2)", s)


def flags(repo):
    """(rotate guard repaired?, encryption_phase guard repaired?) — None when the shape is unknown"""
    src = strip_comments(read(repo, "quic/s2n-quic-core/src/crypto/application/keyset.rs"))
    src = src.split("#[cfg(test)]")[0]
    m = re.search(r"pub fn decrypt_packet.*?\n    \}\n", src, re.S)
    body = m.group(0) if m else ""
    sampled = re.search(r"let\s+update_in_progress\s*=\s*self\s*\.\s*key_update_in_progress\(\)\s*;(.*)packet\s*\.\s*decrypt\(", body, re.S)
    guarded = re.search(r"if\s+packet_phase\s*!=\s*self\.key_phase\(\)\s*&&\s*!\s*update_in_progress\s*\{", body)
    plain = re.search(r"if\s+packet_phase\s*!=\s*self\.key_phase\(\)\s*\{", body)
    if sampled and guarded and not plain:
        rot = True
    elif plain and not guarded:
        rot = False
    else:
        rot = None
    m = re.search(r"pub fn encryption_phase.*?\n    \}\n", src, re.S)
    body = re.sub(r"\s+", " ", m.group(0)) if m else ""
    if re.search(r"if self\.active_key\(\)\.needs_update\(&self\.limits\) \{", body):
        enc = False
    elif re.search(r"if self\.active_key\(\)\.needs_update\(&self\.limits\) && !self\.key_update_in_progress\(\) \{", body) or \
            re.search(r"if !self\.key_update_in_progress\(\) && self\.active_key\(\)\.needs_update\(&self\.limits\) \{", body):
        enc = True
    else:
        enc = None
    return rot, enc


def extract(repo):
    o = Out("KeySet")
    lim = strip_comments(read(repo, "quic/s2n-quic-core/src/crypto/application/limited.rs"))
    m = re.search(r"const KEY_UPDATE_WINDOW\s*:\s*u64\s*=\s*([^;]+);", lim)
    d = re.search(r"impl Default for Limits\s*\{.*?key_update_window\s*:\s*KEY_UPDATE_WINDOW\s*,", lim, re.S)
    app = strip_comments(read(repo, "quic/s2n-quic-transport/src/space/application.rs"))
    k = re.search(r"fn key_limits\(\)\s*->\s*limited::Limits\s*\{\s*limited::Limits::default\(\)\s*\}", app)
    ok = False
    if m and d and k:
        try:
            o.define("keyUpdateWindow", "Nat", str(const_expr(m.group(1))),
                     "limited.rs KEY_UPDATE_WINDOW = Limits::default().key_update_window = ApplicationSpace::key_limits()")
            ok = True
        except Exception:
            pass
    if not ok:
        o.fail("keyUpdateWindow", "Nat", "0", "KEY_UPDATE_WINDOW / Limits::default / key_limits() shape changed")

    m = re.search(r"pub fn expired\(&self\)\s*->\s*bool\s*\{\s*self\.encrypted_packets\s*" + OP_RE + r"\s*self\.confidentiality_limit\s*\}", lim)
    if m:
        o.define("expired (encrypted limit : Nat)", "Bool", f"decide (encrypted {OPS[m.group(1)]} limit)",
                 f"limited::Key::expired: self.encrypted_packets {m.group(1)} self.confidentiality_limit")
    else:
        o.fail("expired (encrypted limit : Nat)", "Bool", "(encrypted + limit) % 2 == 0", "limited::Key::expired shape changed")

    m = re.search(r"pub fn needs_update\(&self, limits: &Limits\)\s*->\s*bool\s*\{\s*self\s*\.\s*encrypted_packets\s*" + OP_RE +
                  r"\s*\(\s*self\s*\.\s*confidentiality_limit\s*\.\s*saturating_sub\(\s*limits\.key_update_window\s*\)\s*\)\s*\}", lim)
    if m:
        o.define("needsUpdate (encrypted limit window : Nat)", "Bool", f"decide (encrypted {OPS[m.group(1)]} limit - window)",
                 f"limited::Key::needs_update: encrypted_packets {m.group(1)} confidentiality_limit.saturating_sub(key_update_window)")
    else:
        o.fail("needsUpdate (encrypted limit window : Nat)", "Bool", "(encrypted + limit + window) % 2 == 0",
               "limited::Key::needs_update shape changed")

    ks = strip_comments(read(repo, "quic/s2n-quic-core/src/crypto/application/keyset.rs")).split("#[cfg(test)]")[0]
    m = re.search(r"self\.packet_decryption_failures \+= 1;\s*if self\.decryption_error_count\(\)\s*" + OP_RE +
                  r"\s*self\.aead_integrity_limit\s*\{\s*return Err\(transport::Error::AEAD_LIMIT_REACHED\.into\(\)\);", ks)
    if m:
        o.define("integrityReached (failures limit : Nat)", "Bool", f"decide (failures {OPS[m.group(1)]} limit)",
                 f"decrypt_packet: failures += 1; if failures {m.group(1)} aead_integrity_limit => AEAD_LIMIT_REACHED")
    else:
        o.fail("integrityReached (failures limit : Nat)", "Bool", "(failures + limit) % 2 == 0", "integrity check shape changed")

    m = re.search(r"generation\s*:\s*u(\d+)\s*,", ks)
    if m:
        o.define("generationBits", "Nat", m.group(1), "KeySet.generation: u<bits>")
    else:
        o.fail("generationBits", "Nat", "0", "KeySet.generation field not found")

    rot, enc = flags(repo)
    if rot is None:
        o.fail("rotateGuardRepaired", "Bool", "false", "decrypt_packet rotate guard: neither the pinned nor the repaired shape")
    else:
        o.define("rotateGuardRepaired", "Bool", "true" if rot else "false",
                 "decrypt_packet: `update_in_progress` sampled before decrypting and rotate only if `!update_in_progress`")
    if enc is None:
        o.fail("encPhaseGuardRepaired", "Bool", "false", "encryption_phase guard: neither the pinned nor the repaired shape")
    else:
        o.define("encPhaseGuardRepaired", "Bool", "true" if enc else "false",
                 "encryption_phase: next phase only if `needs_update && !key_update_in_progress()`")

    # timer: Timestamp::has_elapsed(self = deadline, now): now += K_GRANULARITY; self < now
    tsrc = strip_comments(read(repo, "quic/s2n-quic-core/src/time/timestamp.rs"))
    rsrc = strip_comments(read(repo, "quic/s2n-quic-core/src/recovery/rtt_estimator.rs"))
    g = re.search(r"pub const K_GRANULARITY\s*:\s*Duration\s*=\s*Duration::from_(millis|micros)\((\d[\d_]*)\)\s*;", rsrc)
    h = re.search(r"pub const fn has_elapsed\(self, now: Self\)\s*->\s*bool\s*\{\s*let mut now = now\.0\.get\(\);\s*"
                  r"now \+= K_GRANULARITY\.as_micros\(\) as u64;\s*self\.0\.get\(\)\s*" + OP_RE + r"\s*now\s*\}", tsrc)
    if g and h:
        us = rust_int(g.group(2)) * (1000 if g.group(1) == "millis" else 1)
        o.define("timerExpired (deadline now : Nat)", "Bool", f"decide (deadline {OPS[h.group(1)]} now + {us})",
                 f"Timer::is_expired = Timestamp::has_elapsed: deadline {h.group(1)} now + K_GRANULARITY (us)")
    else:
        o.fail("timerExpired (deadline now : Nat)", "Bool", "(deadline + now) % 2 == 0", "has_elapsed / K_GRANULARITY shape changed")

    # cipher suites
    cs = strip_comments(read(repo, "quic/s2n-quic-crypto/src/cipher_suite.rs"))
    wired = re.search(r"fn aead_confidentiality_limit\(&self\)\s*->\s*u64\s*\{\s*\$confidentiality_limit\s*\}", cs) and \
        re.search(r"fn aead_integrity_limit\(&self\)\s*->\s*u64\s*\{\s*\$integrity_limit\s*\}", cs)
    params = re.search(r"macro_rules!\s*impl_cipher_suite\s*\{\s*\((.*?)\)\s*=>", cs, re.S)
    rows = []
    if wired and params:
        names = [p.strip().split(":")[0] for p in params.group(1).split(",") if p.strip()]
        try:
            ic, ii = names.index("$confidentiality_limit"), names.index("$integrity_limit")
            for inv in re.finditer(r"\nimpl_cipher_suite!\s*\((.*?)\);", cs, re.S):
                # split top-level commas
                args, depth, cur = [], 0, ""
                for ch in inv.group(1):
                    if ch in "([":
                        depth += 1
                    elif ch in ")]":
                        depth -= 1
                    if ch == "," and depth == 0:
                        args.append(cur.strip())
                        cur = ""
                    else:
                        cur += ch
                if cur.strip():
                    args.append(cur.strip())
                rows.append((args[0], const_expr(_pow(args[ic])), const_expr(_pow(args[ii]))))
        except Exception:
            rows = []
    if rows:
        o.define("cipherLimits", "List (String × Nat × Nat)",
                 "[" + ", ".join(f'("{n}", {c}, {i})' for n, c, i in sorted(rows)) + "]",
                 "s2n-quic-crypto cipher_suite.rs: (suite, aead_confidentiality_limit, aead_integrity_limit)")
    else:
        o.fail("cipherLimits", "List (String × Nat × Nat)", "[]", "impl_cipher_suite! limits not recognised")
    return o
