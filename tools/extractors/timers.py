"""Tie G for C02 (timers / retransmission state machines): token-level extraction of the places where realistic
breaking edits of the modelled rules live.

  connection/connection_impl.rs   get_idle_timer_duration (the `3 *`, the `max`, the millisecond arithmetic),
                                  on_processed_packet (restart + flag), on_ack_eliciting_packet_sent (take + restart),
                                  on_timeout (idle expiry -> Err(idle_timer_expired), handshake duration -> Err(..))
  recovery/manager.rs             update_pto_timer: the ordered guards (each cancels and returns) and the final arm;
                                  check_consistency: how `timer_required` is built; on_timeout: back-off doubling
  transport/parameters/mod.rs     MaxIdleTimeout::RECOMMENDED (30 s)
  connection/limits.rs            MAX_HANDSHAKE_DURATION_DEFAULT (10 s)
  sync/incremental_value_sync.rs  where value_ackd_up_to is assigned, what loss / transmit do
  sync/periodic_sync.rs           DEFAULT_SYNC_PERIOD, INITIAL_BACKOFF, what ack / timeout do

Guards / statements are mapped to small integer codes (0 = not recognised) so that the bridge lemmas are `decide`.
"""
from extract import *

CONN = "quic/s2n-quic-transport/src/connection/connection_impl.rs"
MGR = "quic/s2n-quic-transport/src/recovery/manager.rs"
TP = "quic/s2n-quic-core/src/transport/parameters/mod.rs"
LIMITS = "quic/s2n-quic-core/src/connection/limits.rs"
IVS = "quic/s2n-quic-transport/src/sync/incremental_value_sync.rs"
PSYNC = "quic/s2n-quic-transport/src/sync/periodic_sync.rs"


def norm(s):
    return re.sub(r"\s+", " ", s).strip()


def squeeze(s):
    """whitespace-free form (robust against rustfmt line breaks)"""
    return re.sub(r"\s+", "", s)


def fn_body(src, name):
    """text of `fn <name>` from its opening brace to the matching closing brace (comments already stripped)"""
    m = re.search(r"\bfn\s+" + re.escape(name) + r"\b", src)
    if not m:
        return None
    i = src.find("{", m.end())
    if i < 0:
        return None
    depth = 0
    for j in range(i, len(src)):
        if src[j] == "{":
            depth += 1
        elif src[j] == "}":
            depth -= 1
            if depth == 0:
                return src[i + 1:j]
    return None


PTO_GUARDS = {
    "self.loss_timer.is_armed()": 1,
    "active_path.at_amplification_limit()": 2,
    "self.space.is_application_data()&&!is_handshake_confirmed": 3,
    "!ack_eliciting_packets_in_flight&&active_path.is_peer_validated()": 4,
}

REQUIRED_STEPS = {
    "lettimer_required=ack_eliciting_packets_in_flight": 1,
    "letmuttimer_required=ack_eliciting_packets_in_flight": 1,
    "timer_required|=!active_path.is_peer_validated()": 2,
    "timer_required&=!active_path.at_amplification_limit()": 3,
    "timer_required&=!self.space.is_application_data()||is_handshake_confirmed": 4,
    "timer_required&=self.time_of_last_ack_eliciting_packet.is_some()": 5,
}

AE_IN_FLIGHT = "self.sent_packets.iter().any(|(_,sent_info)|sent_info.ack_elicitation.is_ack_eliciting())"


def extract(repo):
    o = Out("Timers")

    # ---- idle timer ------------------------------------------------------------------------------------
    conn = strip_comments(read(repo, CONN))
    body = fn_body(conn, "get_idle_timer_duration")
    sq = squeeze(body or "")
    m = re.search(r"duration=duration\.(\w+)\((\d+)\*self\.current_pto\(\)\.as_millis\(\)asu64\);", sq)
    if m:
        o.define("idlePtoMultiplier", "Nat", str(rust_int(m.group(2))), "get_idle_timer_duration: `duration.max(<k> * self.current_pto().as_millis() as u64)`")
        o.define("idleCombinator", "Nat", {"max": "1", "min": "2"}.get(m.group(1), "0"),
                 f"get_idle_timer_duration combines the negotiated timeout and k x PTO with `.{m.group(1)}(..)` (1 = max, 2 = min, 0 = other)")
    else:
        o.fail("idlePtoMultiplier", "Nat", "0", "`duration = duration.max(k * self.current_pto().as_millis() as u64)` not found")
        o.fail("idleCombinator", "Nat", "0", "`duration = duration.max(..)` not found")
    ms = ("letmutduration=self.limits.max_idle_timeout()?.as_millis()asu64;" in sq) and sq.rstrip().endswith("Some(Duration::from_millis(duration))")
    o.define("idleMillisArithmetic", "Bool", "true" if ms else "false",
             "get_idle_timer_duration starts from `max_idle_timeout()?.as_millis()` (None = disabled) and returns `Duration::from_millis(duration)`")
    body = squeeze(fn_body(conn, "current_pto") or "")
    o.define("idlePtoIsApplicationPto", "Bool", "true" if body == "self.path_manager.active_path().pto_period(PacketNumberSpace::ApplicationData)" else "false",
             "current_pto() = active_path().pto_period(ApplicationData) (includes the back-off, no jitter)")
    body = squeeze(fn_body(conn, "on_processed_packet") or "")
    ok = body.startswith("ifletSome(duration)=self.get_idle_timer_duration(){self.timers.peer_idle_timer.set(packet.datagram.timestamp+duration);"
                         "self.timers.reset_peer_idle_timer_on_send=true;}")
    o.define("processedRestartsIdle", "Bool", "true" if ok else "false",
             "on_processed_packet: `if let Some(d) = get_idle_timer_duration() { peer_idle_timer.set(datagram.timestamp + d); reset_peer_idle_timer_on_send = true }`")
    body = squeeze(fn_body(conn, "on_ack_eliciting_packet_sent") or "")
    ok = body == ("ifcore::mem::take(&mutself.timers.reset_peer_idle_timer_on_send){ifletSome(duration)=self.get_idle_timer_duration()"
                  "{self.timers.peer_idle_timer.set(timestamp+duration);}}")
    o.define("sendRestartsIdleOnce", "Bool", "true" if ok else "false",
             "on_ack_eliciting_packet_sent: `if mem::take(&mut reset_peer_idle_timer_on_send) { if let Some(d) = .. { peer_idle_timer.set(timestamp + d) } }`")
    n_flag = len(re.findall(r"reset_peer_idle_timer_on_send\s*=\s*true", conn))
    n_set = len(re.findall(r"peer_idle_timer\s*\.set\(", conn))
    o.define("idleTimerWriteSites", "Nat × Nat", f"({n_flag}, {n_set})",
             "number of places that set `reset_peer_idle_timer_on_send = true` / call `peer_idle_timer.set(..)` in connection_impl.rs")
    sqc = squeeze(conn)
    ok = "ifself.timers.peer_idle_timer.poll_expiration(timestamp).is_ready(){returnErr(connection::Error::idle_timer_expired());}" in sqc
    o.define("idleExpiryReported", "Bool", "true" if ok else "false",
             "on_timeout: `if peer_idle_timer.poll_expiration(timestamp).is_ready() { return Err(connection::Error::idle_timer_expired()) }`")
    ok = ("ifself.timers.max_handshake_duration_timer.poll_expiration(timestamp).is_ready(){" in sqc
          and "returnErr(connection::Error::max_handshake_duration_exceeded(self.limits.max_handshake_duration(),));" in sqc
          and ".max_handshake_duration_timer.set(parameters.timestamp+connection.limits.max_handshake_duration());" in sqc)
    o.define("handshakeDurationReported", "Bool", "true" if ok else "false",
             "the max_handshake_duration timer is armed at connection creation and its expiry returns Err(max_handshake_duration_exceeded)")
    ok = "ifoutcome.ack_elicitation.is_ack_eliciting(){self.on_ack_eliciting_packet_sent(timestamp);}" in sqc
    o.define("sendHookPerBurst", "Bool", "true" if ok else "false",
             "on_transmit calls on_ack_eliciting_packet_sent(timestamp) when the burst contained an ack-eliciting packet")

    # ---- defaults --------------------------------------------------------------------------------------
    tp = strip_comments(read(repo, TP))
    m = re.search(r"impl MaxIdleTimeout \{.*?pub const RECOMMENDED: Self = Self\(VarInt::from_u32\(([\d_]+)\)\);", tp, re.S)
    if m:
        o.define("maxIdleTimeoutDefaultMs", "Nat", str(rust_int(m.group(1))), "MaxIdleTimeout::RECOMMENDED (milliseconds)")
    else:
        o.fail("maxIdleTimeoutDefaultMs", "Nat", "0", "MaxIdleTimeout::RECOMMENDED not found")
    lim = strip_comments(read(repo, LIMITS))
    m = re.search(r"const MAX_HANDSHAKE_DURATION_DEFAULT: Duration = Duration::from_secs\(([\d_]+)\);", lim)
    m2 = re.search(r"max_handshake_duration: MAX_HANDSHAKE_DURATION_DEFAULT", lim)
    if m and m2:
        o.define("maxHandshakeDurationDefaultSecs", "Nat", str(rust_int(m.group(1))), "limits.rs MAX_HANDSHAKE_DURATION_DEFAULT (seconds), used by Limits::default")
    else:
        o.fail("maxHandshakeDurationDefaultSecs", "Nat", "0", "MAX_HANDSHAKE_DURATION_DEFAULT not found")

    # ---- update_pto_timer / check_consistency ---------------------------------------------------------
    mgr = strip_comments(read(repo, MGR))
    body = fn_body(mgr, "update_pto_timer")
    guards, cancels = [], []
    arms = False
    pending_reset = False
    if body:
        pending_reset = squeeze(body).startswith("self.pto_update_pending=false;")
        # top-level `if COND { ... }` blocks inside the closure
        mcl = re.search(r"\(\|\|\s*\{", body)
        inner = body[mcl.end():] if mcl else body
        i = 0
        depth = 0
        while i < len(inner):
            c = inner[i]
            if c == "{":
                depth += 1
            elif c == "}":
                if depth == 0:
                    break
                depth -= 1
            elif depth == 0 and inner.startswith("if ", i) and (i == 0 or not (inner[i - 1].isalnum() or inner[i - 1] == "_")):
                j = inner.find("{", i)
                cond = squeeze(inner[i + 3:j])
                # matching close brace of this block
                d = 0
                k = j
                while k < len(inner):
                    if inner[k] == "{":
                        d += 1
                    elif inner[k] == "}":
                        d -= 1
                        if d == 0:
                            break
                    k += 1
                blk = squeeze(inner[j + 1:k])
                if cond.startswith("ack_eliciting_packets_in_flight{") or cond == "ack_eliciting_packets_in_flight":
                    pass      # the `let pto_base_timestamp = if ack_eliciting_packets_in_flight {..} else {..}` expression
                else:
                    guards.append(PTO_GUARDS.get(cond, 0))
                    cancels.append(blk == "self.pto.cancel();return;")
                i = k
            i += 1
        tail = squeeze(inner)
        arms = "self.pto.update(pto_base_timestamp,active_path.pto_period_with_jitter(self.space,random_generator),);" in tail
        base = ("letpto_base_timestamp=ifack_eliciting_packets_in_flight{self.time_of_last_ack_eliciting_packet"
                ".expect(\"thereisatleastoneackelicitingpacketinflight\")}else{now};") in tail
        aedef = ("letack_eliciting_packets_in_flight=" + AE_IN_FLIGHT + ";") in tail
    else:
        base = aedef = False
    if body and guards:
        o.define("updatePtoGuards", "List Nat", nat_list(guards),
                 "update_pto_timer: the guards in order (1 loss timer armed, 2 at amplification limit, 3 application space before "
                 "handshake confirmation, 4 nothing ack-eliciting in flight and peer validated; 0 = unrecognised)")
        o.define("updatePtoGuardsCancel", "List Bool", "[" + ", ".join("true" if c else "false" for c in cancels) + "]",
                 "every guard's block is exactly `self.pto.cancel(); return;`")
    else:
        o.fail("updatePtoGuards", "List Nat", "[]", "update_pto_timer guards not found")
        o.fail("updatePtoGuardsCancel", "List Bool", "[]", "update_pto_timer guards not found")
    o.define("updatePtoArms", "Bool", "true" if (arms and base and aedef and pending_reset) else "false",
             "update_pto_timer clears pto_update_pending first and, past the guards, arms `self.pto.update(base, pto_period_with_jitter(..))` with "
             "base = time of the last ack-eliciting packet if any is in flight else now; `ack_eliciting_packets_in_flight` = any tracked packet is ack-eliciting")
    body = fn_body(mgr, "check_consistency")
    steps = []
    asserted = False
    if body:
        sqb = squeeze(body)
        for m in re.finditer(r"(?:let(?:mut)?timer_required=|timer_required[|&]=)[^;]*;", sqb):
            steps.append(REQUIRED_STEPS.get(m.group(0)[:-1], 0))
        asserted = "iftimer_required{assert_ne!(self.armed_timer_count(),0);}" in sqb and ("letack_eliciting_packets_in_flight=" + AE_IN_FLIGHT + ";") in sqb
    if steps:
        o.define("timerRequiredSteps", "List Nat", nat_list(steps),
                 "check_consistency: how `timer_required` is built (1 = ae in flight, 2 |= !peer_validated, 3 &= !at_amplification_limit, "
                 "4 &= !application || confirmed, 5 &= an ack-eliciting packet was sent; 0 = unrecognised)")
    else:
        o.fail("timerRequiredSteps", "List Nat", "[]", "check_consistency not found")
    o.define("consistencyAsserted", "Bool", "true" if asserted else "false", "check_consistency: `if timer_required { assert_ne!(self.armed_timer_count(), 0) }`")
    sqm = squeeze(mgr)
    ok = "ifself.loss_timer.is_armed(){self.loss_timer.timers(query)?;}else{self.pto.timers(query)?;}" in sqm
    o.define("armedTimerIsLossElsePto", "Bool", "true" if ok else "false", "timer::Provider for Manager: the loss timer if armed, else the PTO timer")
    ok = "context.active_path_mut().pto_backoff=(context.active_path().pto_backoff*2).min(max_pto_backoff);self.update_pto_timer(" in sqm
    o.define("ptoExpiryDoublesAndRearms", "Bool", "true" if ok else "false", "on_timeout: PTO expiry doubles pto_backoff (capped) and calls update_pto_timer")
    body = squeeze(fn_body(mgr, "on_transmit_burst_complete") or "")
    ok = "ifself.pto_update_pending{self.update_pto_timer(active_path,now,is_handshake_confirmed,random_generator);" in body
    o.define("burstCompleteUpdates", "Bool", "true" if ok else "false", "on_transmit_burst_complete: `if self.pto_update_pending { self.update_pto_timer(..) }`")

    # ---- IncrementalValueSync ---------------------------------------------------------------------------
    ivs = strip_comments(read(repo, IVS))
    sites = []
    for fn in ("new", "update_latest_value", "stop_sync", "request_delivery_if_necessary", "should_send_update", "on_packet_ack",
               "on_packet_loss", "on_transmit"):
        b = fn_body(ivs, fn) or ""
        sites.append(len(re.findall(r"self\.value_ackd_up_to\s*=[^=]", b)))
    total = len(re.findall(r"self\.value_ackd_up_to\s*=[^=]", ivs))
    o.define("ivsAckdAssignments", "List Nat", nat_list(sites + [total]),
             "IncrementalValueSync: number of assignments to `self.value_ackd_up_to` in new, update_latest_value, stop_sync, "
             "request_delivery_if_necessary, should_send_update, on_packet_ack, on_packet_loss, on_transmit; and in the whole file")
    b = squeeze(fn_body(ivs, "on_packet_ack") or "")
    ok = b == ("ifletDeliveryState::InFlight(in_flight)=self.delivery{ifack_set.contains(in_flight.packet.packet_nr)"
               "{self.value_ackd_up_to=in_flight.value;self.delivery=DeliveryState::NotRequested;}}")
    o.define("ivsAckShape", "Bool", "true" if ok else "false", "on_packet_ack: in flight and covered => value_ackd_up_to = in_flight.value; NotRequested")
    b = squeeze(fn_body(ivs, "on_packet_loss") or "")
    ok = b == ("ifletDeliveryState::InFlight(in_flight)=self.delivery{ifack_set.contains(in_flight.packet.packet_nr)"
               "{self.delivery=DeliveryState::Lost(self.latest_value);}}")
    o.define("ivsLossShape", "Bool", "true" if ok else "false", "on_packet_loss: in flight and covered => Lost(self.latest_value)")
    b = squeeze(fn_body(ivs, "on_transmit") or "")
    ok = (b.startswith("ifself.delivery.try_transmit(context.transmission_constraint()).is_some(){letvalue=self.latest_value;")
          and "self.delivery=DeliveryState::InFlight(InFlightDelivery{value,packet:InflightPacketInfo{packet_nr,timestamp:context.current_time(),},});" in b
          and b.count("self.delivery=") == 1)
    o.define("ivsTransmitShape", "Bool", "true" if ok else "false", "on_transmit: Requested/Lost and allowed => write self.latest_value, InFlight(value, packet_nr)")
    b = squeeze(fn_body(ivs, "should_send_update") or "")
    ok = b == ("ifself.delivery.is_cancelled(){returnfalse;}ifself.latest_value!=self.value_ackd_up_to{ifletDeliveryState::InFlight(in_flight)=self.delivery"
               "{ifself.latest_value-in_flight.value>=self.threshold{returntrue;}}else{ifself.latest_value-self.value_ackd_up_to>=self.threshold{returntrue;}}}false")
    o.define("ivsShouldSendShape", "Bool", "true" if ok else "false", "should_send_update: threshold against the in-flight value, else against the acknowledged value")

    # ---- PeriodicSync ------------------------------------------------------------------------------------
    ps = strip_comments(read(repo, PSYNC))
    m = re.search(r"pub const DEFAULT_SYNC_PERIOD: Duration = Duration::from_millis\(([\d_]+)\);", ps)
    m2 = re.search(r"const INITIAL_BACKOFF: u16 = ([\d_]+);", ps)
    if m and m2:
        o.define("periodicDefaults", "Nat × Nat", f"({rust_int(m.group(1))}, {rust_int(m2.group(1))})", "periodic_sync.rs DEFAULT_SYNC_PERIOD (ms), INITIAL_BACKOFF")
    else:
        o.fail("periodicDefaults", "Nat × Nat", "(0, 0)", "DEFAULT_SYNC_PERIOD / INITIAL_BACKOFF not found")
    b = squeeze(fn_body(ps, "on_packet_ack") or "")
    ok = b == ("ifletDeliveryState::InFlight(in_flight)=self.delivery{ifack_set.contains(in_flight.packet.packet_nr){self.delivered=true;"
               "self.update_timer(in_flight.packet.timestamp);self.delivery=DeliveryState::Delivered(in_flight.value);}}")
    b2 = squeeze(fn_body(ps, "on_timeout") or "")
    ok2 = b2 == "ifself.delivery_timer.poll_expiration(now).is_ready(){self.delivery=DeliveryState::Requested(self.latest_value);}"
    b3 = squeeze(fn_body(ps, "update_timer") or "")
    b4 = squeeze(fn_body(ps, "sync_period") or "")
    ok3 = b3 == "self.delivery_timer.set(now+self.sync_period());" and b4 == "self.sync_period**self.transmission_backoffas_"
    o.define("periodicShape", "Bool", "true" if (ok and ok2 and ok3) else "false",
             "PeriodicSync: ack => delivered, timer = transmission time + sync_period x backoff, Delivered; timer expiry => Requested(latest_value)")
    return o
