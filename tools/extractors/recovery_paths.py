"""Tie G for C09 (bytes in flight per path): recovery/manager.rs credits every resolved packet to the congestion
controller of the path it was SENT on, with the packet's own size:

  process_new_acked_packets   packets of the path the ACK arrived on are summed up and credited once
                              (`current_path_acked_bytes`); a packet of ANOTHER path goes to
                              `context.path_mut_by_id(acked_packet_info.path_id)` with its own `sent_bytes`
  remove_lost_packets         `context.path_mut_by_id(sent_info.path_id)`, `sent_info.sent_bytes` (on_packet_lost, or
                              on_packet_discarded for MTU probes)

Realistic breaking edits (passing the running total instead of `sent_bytes`, crediting the current path) change one of
the whitespace-insensitive statement shapes below."""
from extract import *

MGR = "quic/s2n-quic-transport/src/recovery/manager.rs"


def squeeze(s):
    return re.sub(r"\s+", "", s)


def fn_body(src, name):
    m = re.search(r"\bfn\s+" + re.escape(name) + r"\b", src)
    if not m:
        return None
    i = src.find("{", m.end())
    if i < 0:
        return None
    depth = 0
    for j in range(i, len(src)):
        if src[j] == "{":
            depth += 1
        elif src[j] == "}":
            depth -= 1
            if depth == 0:
                return src[i + 1:j]
    return None


def extract(repo):
    o = Out("RecoveryPaths")
    src = strip_comments(read(repo, MGR))
    body = squeeze(fn_body(src, "process_new_acked_packets") or "")
    loop = ("for(packet_number,acked_packet_info)innewly_acked_packets{letpath=context.path_mut_by_id(acked_packet_info.path_id);"
            "letsent_bytes=acked_packet_info.sent_bytesasusize;")
    o.define("ackLoopTakesSendingPathAndOwnSize", "Bool", "true" if loop in body else "false",
             "process_new_acked_packets: per packet `path = context.path_mut_by_id(acked_packet_info.path_id)`, `sent_bytes = acked_packet_info.sent_bytes as usize`")
    cur = "ifacked_packet_info.path_id==current_path_id{current_path_acked_bytes+=sent_bytes;"
    o.define("ackCurrentPathSumsOwnSizes", "Bool", "true" if cur in body and "letmutcurrent_path_acked_bytes=0;" in body else "false",
             "packets of the current path: `current_path_acked_bytes += sent_bytes` (starting from 0)")
    other = ("}elseifsent_bytes>0{path.congestion_controller.on_ack(acked_packet_info.time_sent,sent_bytes,acked_packet_info.cc_packet_info,"
             "&path.rtt_estimator,random_generator,timestamp,&mutcongestion_controller::PathPublisher::new(publisher,acked_packet_info.path_id,),);}")
    o.define("ackOtherPathCreditsOwnSize", "Bool", "true" if other in body else "false",
             "a packet of another path: `path.congestion_controller.on_ack(acked_packet_info.time_sent, sent_bytes, ..)` on ITS path")
    fin = ("ifcurrent_path_acked_bytes>0{let(_,largest_newly_acked)=current_path_largest_newly_acked.expect(\"Atleastsomebyteswereacknowledgedonthecurrentpath\");"
           "letpath=context.path_mut();path.congestion_controller.on_ack(largest_newly_acked.time_sent,current_path_acked_bytes,")
    o.define("ackCurrentPathCreditedOnce", "Bool", "true" if fin in body and body.count(".on_ack(") == 2 else "false",
             "after the loop: one `context.path_mut().congestion_controller.on_ack(.., current_path_acked_bytes, ..)`; exactly two on_ack call sites")
    body = squeeze(fn_body(src, "remove_lost_packets") or "")
    ok = ("for(packet_number,sent_info)inself.sent_packets.remove_range(lost_packets){letpath=context.path_mut_by_id(sent_info.path_id);" in body
          and "path.congestion_controller.on_packet_discarded(sent_info.sent_bytesasusize," in body
          and "}elseifsent_info.sent_bytes>0{path.congestion_controller.on_packet_lost(sent_info.sent_bytesasu32,sent_info.cc_packet_info," in body
          and body.count("congestion_controller.on_packet_lost(") == 1 and body.count("congestion_controller.on_packet_discarded(") == 1)
    o.define("lossCreditsSendingPathOwnSize", "Bool", "true" if ok else "false",
             "remove_lost_packets: `path = context.path_mut_by_id(sent_info.path_id)`; on_packet_lost / on_packet_discarded get `sent_info.sent_bytes`")
    return o
