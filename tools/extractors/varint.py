from extract import *


def extract(repo):
    o = Out("VarInt")
    src = strip_comments(read(repo, "quic/s2n-quic-core/src/varint/table.rs"))
    m = re.search(r"macro_rules!\s*call_table\s*\{.*?\$table!\s*\{(.*?)\}", src, re.S)
    rows = []
    if m:
        for r in re.finditer(r"\(([^()]*)\)\s*;", m.group(1)):
            try:
                rows.append([rust_int(x) for x in r.group(1).split(",")])
            except Exception:
                rows = []
                break
    if rows and all(len(r) == 4 for r in rows):
        o.define("table", "List (Nat × Nat × Nat × Nat)",
                 "[" + ", ".join("(" + ", ".join(map(str, r)) + ")" for r in rows) + "]",
                 "varint/table.rs call_table! rows (two_bit, len, usable_bits, max_value)")
    else:
        o.fail("table", "List (Nat × Nat × Nat × Nat)", "[]", "call_table! rows not found")
    # Formatted::new initial values
    m = re.search(r"fn new\(x: u64\).*?let mut shift = (\w+);\s*let mut two_bit = \((\w+)\s*<<\s*(\d+)\)\.to_be\(\);\s*let mut len = (\w+);", src, re.S)
    if m:
        o.define("initEntry", "Nat × Nat × Nat × Nat",
                 f"({rust_int(m.group(2))}, {rust_int(m.group(4))}, {rust_int(m.group(1))}, {rust_int(m.group(3))})",
                 "Formatted::new start values (two_bit, len, shift, tag position)")
    else:
        o.fail("initEntry", "Nat × Nat × Nat × Nat", "(0, 0, 0, 0)", "Formatted::new initial values not found")
    # per-row update: shift = 62 - usable_bits ; two_bit -= 1<<62 ; len = $length
    m = re.search(r"if x <= \$max_value \{\s*shift = (\d+) - \$usable_bits;\s*two_bit -= \((\d+)u64 << (\d+)\)\.to_be\(\);\s*len = \$length;\s*\}", src)
    if m:
        o.define("rowUpdate", "Nat × Nat × Nat", f"({m.group(1)}, {m.group(2)}, {m.group(3)})",
                 "Formatted::new per-row update (shift base, tag decrement, tag position); guard is `x <= max_value`")
    else:
        o.fail("rowUpdate", "Nat × Nat × Nat", "(0, 0, 0)", "Formatted::new row update shape changed")
    m = re.search(r"let encoded_be = \(x << shift\)\.to_be\(\) \| two_bit;", src)
    o.define("formatIsShiftOrTag", "Bool", "true" if m else "false", "encoded_be = (x << shift).to_be() | two_bit")
    # decoder masks
    src2 = strip_comments(read(repo, "quic/s2n-quic-core/src/varint/mod.rs"))
    m = re.search(r"fn decode\(buffer: Buffer\).*?unreachable_unchecked", src2, re.S)
    arms = []
    if m:
        body = m.group(0)
        hm = re.search(r"match \(header >> (\d+)\) & (0b\d+|\d+)", body)
        for a in re.finditer(r"(0b\d\d) => \{(.*?)\n\s{16}\}", body, re.S):
            tag = rust_int(a.group(1))
            blk = a.group(2)
            mm = re.search(r"& \(2u(\d+)\.pow\((\d+)\) - 1\)", blk)
            wd = re.search(r"decode::<u(\d+)>\(\)|skip\((\d+)\)", blk)
            if mm and wd:
                width = int(wd.group(1)) // 8 if wd.group(1) else int(wd.group(2))
                arms.append((tag, width, int(mm.group(2))))
        if hm and len(arms) == 4:
            o.define("decodeArms", "List (Nat × Nat × Nat)",
                     "[" + ", ".join(f"({a}, {b}, {c})" for a, b, c in sorted(arms)) + "]",
                     "VarInt::decode arms (tag, bytes read, bits kept)")
            o.define("decodeDispatch", "Nat × Nat", f"({hm.group(1)}, {rust_int(hm.group(2))})",
                     "dispatch on (header >> a) & b")
        else:
            o.fail("decodeArms", "List (Nat × Nat × Nat)", "[]", "decode arms not recognised")
            o.fail("decodeDispatch", "Nat × Nat", "(0, 0)", "decode dispatch not recognised")
    else:
        o.fail("decodeArms", "List (Nat × Nat × Nat)", "[]", "VarInt::decode not found")
        o.fail("decodeDispatch", "Nat × Nat", "(0, 0)", "VarInt::decode not found")
    m = re.search(r"pub const MAX_VARINT_VALUE: u64 = (\d[\d_]*);", src2)
    if m:
        o.define("maxValue", "Nat", str(rust_int(m.group(1))), "MAX_VARINT_VALUE")
    else:
        o.fail("maxValue", "Nat", "0", "MAX_VARINT_VALUE not found")
    return o
