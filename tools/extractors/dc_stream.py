"""Tie G for C20 (dc streams): the places in dc/s2n-quic-dc/src/stream/{send,recv}/state.rs (and the
reassembler's fallible-reader rollback) where a small semantic edit would break the property, re-read from
the source on every run and compared with the pinned skeleton by QuicProofs/Bridge/DcStream.lean:

  * idle timeout defaults (`stream::DEFAULT_IDLE_TIMEOUT`, the test scaffolding's `max_idle_timeout`)
  * `send::State::flow_offset`: the combining expression `cca_offset.min(local_offset).min(remote_offset)` is
    TRANSLATED into a Lean function (a `max` instead of a `min` changes the function), plus the shape of the
    three operands
  * receiver: `State::new` arms the idle timer, `update_idle_timer`, the condition under which an accepted
    packet re-arms it, `on_timeout`'s guard and error, the duplicate filter (`ensure!(space.filter.on_packet(..)
    .is_ok(), Duplicate)`), `ensure_max_data`, the set of non-fatal error kinds
  * sender: packet threshold of `detect_lost_packets`, `max_pto_backoff`, minimum PTO period, probes carry
    `max_sent_offset` / FIN iff `is_data_sent`, retransmissions re-send the stored segment
  * reassembler: cursor snapshot before `handle_reader_fin`, restored when the reader fails
"""
from extract import *

SEND = "dc/s2n-quic-dc/src/stream/send/state.rs"
RECV = "dc/s2n-quic-dc/src/stream/recv/state.rs"
RECV_ERR = "dc/s2n-quic-dc/src/stream/recv/error.rs"
STREAM = "dc/s2n-quic-dc/src/stream.rs"
DC_TESTING = "quic/s2n-quic-core/src/dc/testing.rs"
REASM = "quic/s2n-quic-core/src/buffer/reassembler.rs"
TRANSMISSION = "dc/s2n-quic-dc/src/stream/send/state/transmission.rs"


def fn_body(src, name):
    m = re.search(r"fn\s+" + name + r"\s*(<[^>]*>)?\s*\(", src)
    if not m:
        return None
    i = src.index("{", m.end())
    depth = 0
    for j in range(i, len(src)):
        if src[j] == "{":
            depth += 1
        elif src[j] == "}":
            depth -= 1
            if depth == 0:
                return re.sub(r"\s+", " ", src[i:j + 1])
    return None


def flag(o, ident, cond, note):
    o.define(ident, "Bool", "true" if cond else "false", note)


def duration_ms(expr):
    m = re.fullmatch(r"\s*Duration::from_(secs|millis)\((\d[\d_]*)\)\s*", expr)
    if not m:
        return None
    v = rust_int(m.group(2))
    return v * 1000 if m.group(1) == "secs" else v


def minmax_chain(expr, names):
    """`a.min(b).max(c)` over known operand names -> Lean term, None for any other shape"""
    expr = expr.strip()
    m = re.fullmatch(r"(\w+)((?:\.(?:min|max)\(\w+\))+)", expr)
    if not m or m.group(1) not in names:
        return None
    term = names[m.group(1)]
    for op, arg in re.findall(r"\.(min|max)\((\w+)\)", m.group(2)):
        if arg not in names:
            return None
        term = f"({op} {term} {names[arg]})"
    return term


def extract(repo):
    o = Out("DcStream")
    send = strip_comments(read(repo, SEND))
    recv = strip_comments(read(repo, RECV))
    rerr = strip_comments(read(repo, RECV_ERR))
    stream = strip_comments(read(repo, STREAM))
    dct = strip_comments(read(repo, DC_TESTING))
    reasm = strip_comments(read(repo, REASM))
    trans = strip_comments(read(repo, TRANSMISSION))

    # ---- idle timeout defaults ------------------------------------------------------------
    m = re.search(r"pub const DEFAULT_IDLE_TIMEOUT: Duration = ([^;]+);", stream)
    v = duration_ms(m.group(1)) if m else None
    if v is not None:
        o.define("defaultIdleTimeoutMs", "Nat", str(v), "stream.rs: DEFAULT_IDLE_TIMEOUT")
    else:
        o.fail("defaultIdleTimeoutMs", "Nat", "0", "DEFAULT_IDLE_TIMEOUT not found")
    m = re.search(r"max_idle_timeout: NonZeroU32::new\((Duration::from_\w+\([\d_]+\))\.as_millis\(\) as _\)", dct)
    v = duration_ms(m.group(1)) if m else None
    if v is not None:
        o.define("testIdleTimeoutMs", "Nat", str(v), "dc/testing.rs: TEST_APPLICATION_PARAMS.max_idle_timeout (what the simulation runs with)")
    else:
        o.fail("testIdleTimeoutMs", "Nat", "0", "TEST_APPLICATION_PARAMS.max_idle_timeout not found")
    m = re.search(r"pub const MAX_DATAGRAM_SIZE: usize = ([^;]+);", stream)
    try:
        o.define("maxDatagramSize", "Nat", str(const_expr(m.group(1))), "stream.rs: MAX_DATAGRAM_SIZE")
    except Exception:
        o.fail("maxDatagramSize", "Nat", "0", "MAX_DATAGRAM_SIZE not found")

    # ---- sender: flow_offset ----------------------------------------------------------------
    fo = fn_body(send, "flow_offset")
    term = None
    if fo:
        m = re.search(r"let remote_offset = ([^;]+);\s*([^;{}]+?)\s*\}$", fo)
        if m:
            term = minmax_chain(m.group(2), {"cca_offset": "cca", "local_offset": "loc", "remote_offset": "remote"})
    if term:
        o.lines += ["/-- translated from the last expression of `send::State::flow_offset` -/",
                    f"def flowCombine (cca loc remote : Nat) : Nat := {term}", ""]
        o.items.append("flowCombine")
    else:
        o.lines += ["/-- EXTRACTION FAILED: last expression of flow_offset is not a min/max chain of the three offsets -/",
                    "def flowCombine (_cca _loc _remote : Nat) : Nat := 0", ""]
        o.failed.append("flowCombine: shape changed")
    flag(o, "flowRemoteIsMaxData", bool(fo and "let remote_offset = self.max_data;" in fo), "remote_offset = self.max_data")
    flag(o, "flowCcaShape", bool(fo and re.search(
        r"let mut extra_window = self \.cca \.congestion_window\(\) \.saturating_sub\(self\.cca\.bytes_in_flight\(\)\); "
        r"if !self\.retransmissions\.is_empty\(\) \{ extra_window = 0; \} self\.max_sent_offset \+ extra_window as usize", fo)),
        "cca_offset = max_sent_offset + (cwnd - bytes_in_flight, 0 while retransmissions are queued)")
    flag(o, "flowLocalShape", bool(fo and re.search(
        r"let unacked_start = self\.unacked_ranges\.min_value\(\)\.unwrap_or_default\(\); "
        r"let local_max_data_window = self\.local_max_data_window; unacked_start\.saturating_add\(local_max_data_window\)", fo)),
        "local_offset = unacked_start.saturating_add(local_max_data_window)")
    md = re.search(r"FrameMut::MaxData\(frame\) => \{\s*if self\.max_data (<|<=|>|>=) frame\.maximum_data \{", send)
    if md:
        o.define("maxDataRaiseCmp", "String", f'"{md.group(1)}"', "MAX_DATA only ever raises max_data: `if self.max_data < frame.maximum_data`")
    else:
        o.fail("maxDataRaiseCmp", "String", '""', "MAX_DATA handling shape changed")

    # ---- sender: loss / PTO / probes / retransmission -----------------------------------------
    dl = fn_body(send, "detect_lost_packets")
    m = dl and re.search(r"let Some\(loss_threshold\) = max\.checked_sub\(VarInt::from_u8\((\d+)\)\) else", dl)
    if m:
        o.define("lossPacketThreshold", "Nat", m.group(1), "detect_lost_packets: max.checked_sub(2)")
    else:
        o.fail("lossPacketThreshold", "Nat", "0", "loss threshold not found")
    tu = fn_body(send, "on_time_update")
    m = tu and re.search(r"let max_pto_backoff = (\d+);", tu)
    if m:
        o.define("maxPtoBackoff", "Nat", m.group(1), "on_time_update: max_pto_backoff")
    else:
        o.fail("maxPtoBackoff", "Nat", "0", "max_pto_backoff not found")
    fa = fn_body(send, "force_arm_pto_timer")
    m = fa and re.search(r"pto_period = pto_period\.max\((Duration::from_\w+\([\d_]+\))\);", fa)
    v = duration_ms(m.group(1)) if m else None
    if v is not None:
        o.define("minPtoPeriodMs", "Nat", str(v), "force_arm_pto_timer: lower bound of the PTO period")
    else:
        o.fail("minPtoPeriodMs", "Nat", "0", "minimum PTO period not found")
    tp = fn_body(send, "try_transmit_probe")
    flag(o, "probeShape", bool(tp and re.search(
        r"let offset = self\.max_sent_offset; let final_offset = if self\.state\.is_data_sent\(\) \{ Some\(offset\) \} else \{ None \};", tp)
        and "let payload_len = 0;" in tp and "let included_fin = final_offset.is_some();" in tp),
        "probe: offset = max_sent_offset, final_offset iff state.is_data_sent(), no payload")
    tr = fn_body(send, "try_transmit_retransmissions")
    flag(o, "retransmitShape", bool(tr and re.search(
        r"let Some\(segment\) = self\.stream_packet_buffers\.get_mut\(retransmission\.segment\) else", tr)
        and "let stream_offset = info.stream_offset;" in tr and "let payload_len = info.payload_len;" in tr
        and "let included_fin = info.included_fin;" in tr
        and "decoder::Packet::retransmit( buffer, stream::PacketSpace::Recovery, packet_number, control_key, )" in tr),
        "retransmission: the stored segment buffer is re-sent via Packet::retransmit, bookkeeping copies offset/len/fin")
    rc = fn_body(trans, "retransmit_copy")
    eo = fn_body(trans, "end_offset")
    tkr = fn_body(trans, "tracking_range")
    flag(o, "retransmitCopyShape", bool(rc and re.search(
        r"let retransmission = super::retransmission::Segment \{ segment, stream_offset: self\.stream_offset, "
        r"payload_len: self\.payload_len, ty: super::TransmissionType::Stream, included_fin: self\.included_fin, \};", rc)
        and eo and "self.stream_offset + VarInt::from_u16(self.payload_len)" in eo
        and tkr and re.search(r"let start = Bound::Included\(self\.stream_offset\); let end = if self\.included_fin \{ "
                              r"Bound::Included\(VarInt::MAX\) \} else \{ Bound::Excluded\(self\.end_offset\(\)\) \};", tkr)),
        "a queued retransmission copies offset/len/fin of the lost packet; end_offset = offset + len; tracking range")
    ots = fn_body(send, "on_transmit_segment")
    flag(o, "transmitSegmentShape", bool(ots and "self.max_sent_offset = self.max_sent_offset.max(info.end_offset());" in ots
         and re.search(r"if info\.included_fin \{ let final_offset = info\.end_offset\(\); let _ = self\.unacked_ranges\.remove\(final_offset\.\.\); let _ = self\.state\.on_send_fin\(\); \}", ots)),
         "on_transmit_segment: max_sent_offset max, FIN removes final_offset.. and on_send_fin")
    sui = fn_body(send, "update_idle_timer")
    flag(o, "senderIdleArms", bool(sui and re.search(
        r"ensure!\(!self\.idle_timer\.is_armed\(\)\); let now = clock\.get_time\(\); self\.idle_timer\.set\(now \+ self\.idle_timeout\);", sui)),
        "send::State::update_idle_timer arms now + idle_timeout")

    # ---- receiver -------------------------------------------------------------------------------
    new = fn_body(recv, "new")
    flag(o, "recvNewArmsIdle", bool(new and re.search(
        r"let idle_timeout = params\.max_idle_timeout\(\)\.unwrap_or\(DEFAULT_IDLE_TIMEOUT\); "
        r"let mut idle_timer = Timer::default\(\); idle_timer\.set\(now \+ idle_timeout\);", new)),
        "recv::State::new arms the idle timer at now + idle_timeout")
    ui = fn_body(recv, "update_idle_timer")
    flag(o, "recvUpdateIdleSets", bool(ui and re.search(
        r"let target = clock\.get_time\(\) \+ self\.idle_timeout; self\.idle_timer\.set\(target\);", ui)),
        "recv::State::update_idle_timer sets now + idle_timeout")
    ct = fn_body(recv, "on_cleartext_stream_packet")
    m = ct and re.search(r"if (matches!\(self\.state, Receiver::Recv \| Receiver::SizeKnown\) \|\| packet\.stream_offset\(\) == VarInt::ZERO) \{ self\.update_idle_timer\(clock\); \}", ct)
    if m:
        o.define("recvIdleUpdateCond", "String", '"' + m.group(1) + '"', "an accepted packet re-arms the idle timer when …")
    else:
        o.fail("recvIdleUpdateCond", "String", '""', "idle timer update in on_cleartext_stream_packet changed")
    flag(o, "recvDedupe", bool(ct and re.search(
        r"ensure!\( space\.filter\.on_packet\(packet\)\.is_ok\(\), Err\(error::Kind::Duplicate\.err\(\)\) \);", ct)),
        "on_cleartext_stream_packet: ensure!(space.filter.on_packet(packet).is_ok(), Duplicate) before anything else is recorded")
    flag(o, "recvDedupeBeforeIdle", bool(ct and 0 <= ct.find("space.filter.on_packet(packet)") < ct.find("self.update_idle_timer(clock)")),
         "the duplicate check precedes the idle timer update")
    to = fn_body(recv, "on_timeout")
    flag(o, "recvTimeoutShape", bool(to and re.search(
        r"if self\.poll_idle_timer\(clock, load_last_activity\)\.is_ready\(\) \{ self\.silent_shutdown\(\); "
        r"ensure!\(matches!\(self\.state, Receiver::Recv \| Receiver::SizeKnown\)\); "
        r"let mut did_transition = false; did_transition \|= self\.state\.on_reset\(\)\.is_ok\(\); "
        r"did_transition \|= self\.state\.on_app_read_reset\(\)\.is_ok\(\); if did_transition \{ "
        r"self\.on_error\(error::Kind::IdleTimeout, Location::Local, publisher\);", to)),
        "on_timeout: idle expiry => silent_shutdown, Recv|SizeKnown => reset + IdleTimeout")
    tc = fn_body(recv, "on_transport_close")
    flag(o, "recvTransportCloseShape", bool(tc and re.sub(r"\s+", "", tc).strip("{}") ==
         "ensure!(self.features.is_stream());ensure!(matches!(self.state,Receiver::Recv|Receiver::SizeKnown));"
         "self.on_error(error::Kind::TruncatedTransport,Location::Local,publisher);"),
         "on_transport_close (stream transports): while more data is expected (Recv | SizeKnown) the closed transport is a TruncatedTransport error")
    pit = fn_body(recv, "poll_idle_timer")
    flag(o, "recvPollIdleShape", bool(pit and re.search(
        r"ready!\(self\.idle_timer\.poll_expiration\(now\)\); let last_peer_activity = load_last_activity\(\); "
        r"self\.update_idle_timer\(&last_peer_activity\); ready!\(self\.idle_timer\.poll_expiration\(now\)\); Poll::Ready\(\(\)\)", pit)),
        "poll_idle_timer: expired, re-armed from the last peer activity, expired again")
    emd = fn_body(recv, "ensure_max_data")
    flag(o, "recvMaxDataShape", bool(emd and re.search(
        r"self\.max_data \.as_u64\(\) \.checked_sub\(packet\.payload\(\)\.len\(\) as u64\) "
        r"\.and_then\(\|v\| v\.checked_sub\(packet\.stream_offset\(\)\.as_u64\(\)\)\) \.is_some\(\)", emd)),
        "ensure_max_data: max_data - len - offset must not underflow")
    impl = fn_body(recv, "on_stream_packet_impl")
    flag(o, "recvAuthBeforeReset", bool(impl and re.search(
        r"if let Err\(e\) = out_buf\.read_from\(&mut packet\) \{ let _ = packet\.read_chunk\(0\)\?; return Err\(e\.into\(\)\); \}", impl)
        and re.search(r"if !is_max_data_ok \{ let _ = packet\.read_chunk\(usize::MAX\)\?;", impl)),
        "on_stream_packet_impl authenticates (read_chunk) before any buffer/flow error resets the stream")
    ce = fn_body(recv, "check_error")
    flag(o, "recvCheckErrorShape", bool(ce and re.search(
        r"ensure!\( !matches!\(self\.state, Receiver::DataRead \| Receiver::DataRecvd\), Ok\(\(\)\) \);", ce)),
        "check_error filters errors only once all data was received/read")
    fat = fn_body(rerr, "is_fatal")
    m = fat and re.search(r"!matches!\( self\.kind\(\), ([^)]*(?:\([^)]*\)[^)]*)*) \)", fat)
    if m:
        kinds = [re.sub(r"[({].*", "", k).strip().replace("Kind::", "") for k in m.group(1).split("|")]
        o.define("nonFatalKinds", "List String", "[" + ", ".join(f'"{k}"' for k in kinds) + "]",
                 "Error::is_fatal on datagram transports: everything but these kinds")
    else:
        o.fail("nonFatalKinds", "List String", "[]", "is_fatal shape changed")

    # ---- reassembler: fallible reader rollback ---------------------------------------------------
    wr = fn_body(reasm, "write_reader")
    ok = bool(wr) and 0 <= wr.find("let snapshot = self.cursors;") < wr.find("self.cursors.handle_reader_fin(reader)?;") \
        < wr.find("if let Err(err) = self.write_reader_impl(reader)") < wr.find("self.cursors = snapshot;")
    flag(o, "reasmRollback", ok, "write_reader: cursor snapshot before handle_reader_fin, restored when the reader fails")
    wri = fn_body(reasm, "write_reader_impl")
    flag(o, "reasmEmptyReaderStillReads", bool(wri and re.search(
        r"if reader\.buffer_is_empty\(\) \{ let _chunk = reader\.read_chunk\(0\)\?; return Ok\(\(\)\); \}", wri)),
        "write_reader_impl: an empty reader is still asked for a chunk (so it is authenticated)")
    return o
