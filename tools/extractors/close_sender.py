"""Tie G for C12 (close sender): token-level extraction of quic/s2n-quic-transport/src/connection/close_sender.rs, the
code `lean/QuicModel/Conn/CloseSender.lean` transcribes by hand (the type is private to the crate: no differential run).

Each item is the whitespace-free text of one small function body compared with the shape the Lean model was written
from; the generated definition is `true` when the text still has that shape. A semantic edit of the limiter (counting,
doubling, debounce), of `State::on_timeout` (what re-arms a transmission), of `write_payload` (one transmission per
arming) or of `close` breaks the `decide` in lean/QuicProofs/Bridge/CloseSender.lean.
"""
from extract import *

SRC = "quic/s2n-quic-transport/src/connection/close_sender.rs"


def squeeze(s):
    return re.sub(r"\s+", "", s)


def block_after(src, start_pat):
    """text between the braces that follow the first match of start_pat"""
    m = re.search(start_pat, src)
    if not m:
        return None
    i = src.find("{", m.end() - 1)
    if i < 0:
        return None
    depth = 0
    for j in range(i, len(src)):
        if src[j] == "{":
            depth += 1
        elif src[j] == "}":
            depth -= 1
            if depth == 0:
                return src[i + 1:j]
    return None


def fn_in(src, impl_pat, name):
    """body of `fn name` inside the first `impl` block matching impl_pat"""
    blk = block_after(src, impl_pat)
    if blk is None:
        return None
    return block_after(blk, r"\bfn\s+" + re.escape(name) + r"\b[^{;]*\{")


EXPECT = {
    # Limiter::on_datagram_received: ignored while the debounce timer is armed; `factor` datagrams arm it for one rtt
    # and double `factor`
    "limiterOnDatagram": ("impl Limiter", "on_datagram_received",
                          "ifself.debounce.is_armed(){return;}self.received+=1;ifself.received>=self.factor{"
                          "self.received=Counter::new(0);self.factor+=self.factor;self.debounce.set(now+rtt);}"),
    "limiterOnTimeout": ("impl Limiter", "on_timeout", "self.debounce.poll_expiration(now)"),
    # State::on_timeout: the close timer ends the state; ONLY an expired debounce timer asks for a transmission
    "stateOnTimeout": ("impl State", "on_timeout",
                       "matchself{Self::Idle=>Poll::Pending,Self::Closing{close_timer,limiter,transmission,..}=>{"
                       "ifclose_timer.poll_expiration(now).is_ready(){*self=Self::Closed;returnPoll::Ready(());}"
                       "iflimiter.on_timeout(now).is_ready(){*transmission=TransmissionState::Transmitting;}"
                       "Poll::Pending}Self::Closed=>Poll::Ready(()),}"),
    "stateOnDatagram": ("impl State", "on_datagram_received",
                        "ifletSelf::Closing{limiter,..}=self{limiter.on_datagram_received(rtt,now);}"),
    # CloseSender::close: first transmission due, fresh limiter
    "close": ("impl CloseSender", "close",
              "debug_assert!(matches!(self.state,State::Idle));letmutclose_timer=Timer::default();"
              "close_timer.set(now+timeout);self.state=State::Closing{packet,transmission:TransmissionState::Transmitting,"
              "close_timer,limiter:Limiter::default(),};"),
}


def extract(repo):
    o = Out("CloseSender")
    src = strip_comments(read(repo, SRC))
    # only the non-test part of the file
    cut = src.find("#[cfg(test)]")
    if cut > 0:
        src = src[:cut]
    for ident, (impl_pat, fn, want) in EXPECT.items():
        body = fn_in(src, re.escape(impl_pat) + r"\s*\{", fn)
        if body is None:
            o.fail(ident + "Shape", "Bool", "false", f"`{impl_pat} {{ fn {fn} }}` not found in {SRC}")
        else:
            o.define(ident + "Shape", "Bool", "true" if squeeze(body) == want else "false",
                     f"{SRC}: `{impl_pat} {{ fn {fn} }}` has the transcribed shape")
    # write_payload: writes the STORED packet and goes back to Idle (one transmission per arming)
    body = block_after(src, r"fn\s+write_payload\b[^{;]*\{")
    sq = squeeze(body or "")
    ok = sq.startswith("letlen=buffer.write(self.packet)?;self.path.on_bytes_transmitted(len);*self.transmission=TransmissionState::Idle;")
    o.define("writePayloadShape", "Bool", "true" if ok else "false",
             "write_payload: `buffer.write(self.packet)?; path.on_bytes_transmitted(len); *self.transmission = Idle;`")
    n_tx = len(re.findall(r"TransmissionState::Transmitting", src))
    n_idle = len(re.findall(r"=\s*TransmissionState::Idle", src))
    o.define("transmissionWriteSites", "Nat × Nat", f"({n_tx}, {n_idle})",
             "occurrences of `TransmissionState::Transmitting` (close, on_timeout, interest query) / assignments of `TransmissionState::Idle`")
    # transmission interest only while Closing + Transmitting
    body = block_after(src, r"fn\s+transmission_interest\b[^{;]*\{")
    sq = squeeze(body or "")
    ok = sq == "ifmatches!(self.state,State::Closing{transmission:TransmissionState::Transmitting,..}){query.on_forced()?;}Ok(())"
    o.define("interestShape", "Bool", "true" if ok else "false",
             "transmission_interest: forced interest exactly in `State::Closing { transmission: Transmitting, .. }`")
    # limiter defaults
    body = block_after(src, r"impl\s+Default\s+for\s+Limiter\s*\{")
    sq = squeeze(body or "")
    m = re.search(r"factor:Counter::new\((\d+)\),received:Counter::new\((\d+)\),debounce:Timer::default\(\)", sq)
    if m:
        o.define("limiterDefaults", "Nat × Nat", f"({m.group(1)}, {m.group(2)})", "Limiter::default(): factor, received")
    else:
        o.fail("limiterDefaults", "Nat × Nat", "(0, 0)", "Limiter::default() not recognised")
    m = re.search(r"factor:\s*Counter<\s*(u\d+)\s*,\s*counter::Saturating\s*>\s*,\s*received:\s*Counter<\s*(u\d+)\s*,\s*counter::Saturating\s*>", src)
    bits = {"u8": 255, "u16": 65535, "u32": 4294967295}
    if m and m.group(1) == m.group(2) and m.group(1) in bits:
        o.define("counterMax", "Nat", str(bits[m.group(1)]), "Limiter counters are saturating `Counter<uN, counter::Saturating>`: the maximum")
    else:
        o.fail("counterMax", "Nat", "0", "Limiter counter types not recognised")
    # how the connection drives it: rtt = latest_rtt of the active path, only for datagrams on the active path
    conn = strip_comments(read(repo, "quic/s2n-quic-transport/src/connection/connection_impl.rs"))
    sq = squeeze(conn)
    ok = ("ifmatches!(self.state,ConnectionState::Closing){ifid==self.path_manager.active_path_id(){"
          "letrtt=self.path_manager[id].rtt_estimator.latest_rtt();self.close_sender.on_datagram_received(rtt,datagram.timestamp);}}") in sq
    o.define("connDrivesLimiter", "Bool", "true" if ok else "false",
             "connection_impl.rs on_datagram_received: in Closing, `close_sender.on_datagram_received(latest_rtt of the active path, datagram.timestamp)` for datagrams on the active path")
    n = len(re.findall(r"close_sender\s*\.\s*on_datagram_received", conn))
    o.define("connDatagramSites", "Nat", str(n), "number of call sites of close_sender.on_datagram_received in connection_impl.rs")
    return o
