"""Tie G for C18: tag constants / masks of the dc packet kinds (packet/{stream,datagram,control}.rs,
packet/secret_control.rs, packet/tag.rs), auth-tag lengths and the AAD / length-check shape of
crypto/awslc.rs, the wire version check, the queue-id bound, and the shape of the three
secret-control handlers of path/secret/map/state.rs (authenticate strictly before any effect, the
10 s eviction guard). A semantic edit changes a generated value and breaks a bridge lemma in
QuicProofs/Bridge/DcPackets.lean.
"""
from extract import *


def _consts(o, prefix, src, names, file):
    for rust, ident in names:
        m = re.search(r"pub const " + rust + r": u8 = ([^;]+);", src)
        try:
            o.define(prefix + ident, "Nat", str(rust_int(m.group(1))), f"{file}: {rust}")
        except Exception:
            o.fail(prefix + ident, "Nat", "999", f"{file}: {rust} not found")


def _default(o, ident, src, file):
    m = re.search(r"impl Default for Tag \{.*?Self\(Common\(([^)]+)\)\)", src, re.S)
    try:
        o.define(ident, "Nat", str(rust_int(m.group(1))), f"{file}: Tag::default()")
    except Exception:
        o.fail(ident, "Nat", "999", f"{file}: Tag::default() not found")


def _fn_body(src, name):
    m = re.search(r"fn\s+" + name + r"\s*(<[^>]*>)?\s*\(", src)
    if not m:
        return None
    i = src.index("{", m.end())
    depth = 0
    for j in range(i, len(src)):
        if src[j] == "{":
            depth += 1
        elif src[j] == "}":
            depth -= 1
            if depth == 0:
                return src[i:j + 1]
    return None


def _flag(o, ident, cond, note):
    o.define(ident, "Bool", "true" if cond else "false", note)


def extract(repo):
    o = Out("DcPackets")
    base = "dc/s2n-quic-dc/src/"
    st = strip_comments(read(repo, base + "packet/stream.rs"))
    dg = strip_comments(read(repo, base + "packet/datagram.rs"))
    ct = strip_comments(read(repo, base + "packet/control.rs"))
    sc = strip_comments(read(repo, base + "packet/secret_control.rs"))
    tg = strip_comments(read(repo, base + "packet/tag.rs"))
    aw = strip_comments(read(repo, base + "crypto/awslc.rs"))
    wv = strip_comments(read(repo, base + "packet/wire_version.rs"))
    sid = strip_comments(read(repo, base + "packet/stream/id.rs"))
    ms = strip_comments(read(repo, base + "path/secret/map/state.rs"))
    ups = strip_comments(read(repo, base + "packet/secret_control/unknown_path_secret.rs"))
    scd = strip_comments(read(repo, base + "packet/secret_control/decoder.rs"))

    _consts(o, "stream", st, [("HAS_SOURCE_QUEUE_ID", "HasSourceQueueId"), ("IS_RECOVERY_PACKET", "IsRecovery"),
                              ("HAS_CONTROL_DATA_MASK", "HasControlData"), ("HAS_FINAL_OFFSET_MASK", "HasFinalOffset"),
                              ("HAS_APPLICATION_HEADER_MASK", "HasAppHeader"), ("KEY_PHASE_MASK", "KeyPhase"),
                              ("MIN", "Min"), ("MAX", "Max")], "packet/stream.rs")
    _default(o, "streamBase", st, "packet/stream.rs")
    _consts(o, "datagram", dg, [("ACK_ELICITING_MASK", "AckEliciting"), ("IS_CONNECTED_MASK", "IsConnected"),
                                ("HAS_APPLICATION_HEADER_MASK", "HasAppHeader"), ("KEY_PHASE_MASK", "KeyPhase"),
                                ("MIN", "Min"), ("MAX", "Max")], "packet/datagram.rs")
    _default(o, "datagramBase", dg, "packet/datagram.rs")
    _consts(o, "control", ct, [("HAS_SOURCE_QUEUE_ID", "HasSourceQueueId"), ("IS_STREAM_MASK", "IsStream"),
                               ("HAS_APPLICATION_HEADER_MASK", "HasAppHeader"), ("MIN", "Min"), ("MAX", "Max")], "packet/control.rs")
    _default(o, "controlBase", ct, "packet/control.rs")

    for rust, ident in [("UNKNOWN_PATH_SECRET", "secretUnknownPathSecret"), ("STALE_KEY", "secretStaleKey"),
                        ("REPLAY_DETECTED", "secretReplayDetected"), ("HAS_QUEUE_ID", "secretHasQueueId")]:
        m = re.search(r"const " + rust + r": u8 = ([^;]+);", sc)
        try:
            o.define(ident, "Nat", str(rust_int(m.group(1))), f"packet/secret_control.rs: {rust}")
        except Exception:
            o.fail(ident, "Nat", "999", f"packet/secret_control.rs: {rust} not found")
    for rust, ident in [("TAG_LEN", "secretTagLen"), ("MAX_PACKET_SIZE", "secretMaxPacketSize")]:
        m = re.search(r"pub const " + rust + r": usize = ([^;]+);", sc)
        try:
            o.define(ident, "Nat", str(const_expr(m.group(1))), f"packet/secret_control.rs: {rust}")
        except Exception:
            o.fail(ident, "Nat", "0", f"packet/secret_control.rs: {rust} not found")
    # secret-control tag macro: VALUE_WITH_QUEUE_ID = $tag | HAS_QUEUE_ID ; decode accepts exactly the two
    _flag(o, "secretTagAcceptsTwo", bool(re.search(r"decoder_invariant!\(\[\$tag, \$tag \| HAS_QUEUE_ID\]\.contains\(&tag\)", sc)),
          "impl_tag!: decode accepts exactly [$tag, $tag | HAS_QUEUE_ID]")
    _flag(o, "secretDispatchMasksQueueBit", bool(re.search(r"let base_tag = tag & !HAS_QUEUE_ID;", sc)),
          "secret_control::Packet::decode dispatches on tag & !HAS_QUEUE_ID")
    m = re.search(r"buffer\.decode_slice\(super::(\w+)\)", scd)
    _flag(o, "secretDecoderTakesTagLen", bool(m and m.group(1) == "TAG_LEN"), "secret_control/decoder.rs: crypto tag = decode_slice(TAG_LEN)")
    _flag(o, "secretAuthVerifiesHeader", bool(re.search(r"crypto\.verify\(header, crypto_tag\)\.ok\(\)\?;\s*Some\(value\)", scd)),
          "impl_packet!: authenticate = crypto.verify(header, crypto_tag).ok()?; Some(value)")
    _flag(o, "upsTokenCompare", bool(re.search(r"verify_slices_are_equal\(self\.crypto_tag, stateless_reset\)\.ok\(\)\?", ups)),
          "unknown_path_secret::Packet::authenticate compares the crypto tag with the stateless reset token")

    # common tag: short packets only
    m = re.search(r"decoder_invariant!\(self\.0 & (0b[01_]+) == 0", tg)
    try:
        o.define("longPacketBit", "Nat", str(rust_int(m.group(1))), "packet/tag.rs Common::validate")
    except Exception:
        o.fail("longPacketBit", "Nat", "0", "Common::validate not found")
    # reserved first bytes of packet::Tag::decode
    m = re.search(r"(0b[01_]+) \| (0b[01_]+) \| (0b[01_]+)\.\.=(0b[01_]+) => Err\(", tg)
    try:
        o.define("reservedTags", "List Nat", nat_list([rust_int(m.group(k)) for k in (1, 2, 3, 4)]),
                 "packet/tag.rs: reserved tag values a | b | c..=d")
    except Exception:
        o.fail("reservedTags", "List Nat", "[]", "reserved tag range not found")

    # crypto/awslc.rs
    m = re.search(r"^const TAG_LEN: usize = ([^;]+);", aw, re.M)
    try:
        o.define("aeadTagLen", "Nat", str(const_expr(m.group(1))), "crypto/awslc.rs: TAG_LEN")
    except Exception:
        o.fail("aeadTagLen", "Nat", "0", "awslc TAG_LEN not found")
    m = re.search(r"pub const STREAM_TAG_LEN: usize = ([^;]+);", aw)
    try:
        o.define("streamMacTagLen", "Nat", str(const_expr(m.group(1))), "crypto/awslc.rs: STREAM_TAG_LEN")
    except Exception:
        o.fail("streamMacTagLen", "Nat", "0", "STREAM_TAG_LEN not found")
    m = re.search(r"pub const SECRET_TAG_LEN: usize = ([^;]+);", aw)
    _flag(o, "secretMacTagLenIsSecretTagLen", bool(m and m.group(1).strip() == "crate::packet::secret_control::TAG_LEN"),
          "crypto/awslc.rs: SECRET_TAG_LEN = secret_control::TAG_LEN")
    aads = re.findall(r"Aad::from\(([^)]*)\)", aw)
    o.define("aadArgs", "List String", "[" + ", ".join('"' + a.strip() + '"' for a in aads) + "]",
             "crypto/awslc.rs: every Aad::from(..) argument (seal, open, open in place)")
    i = aw.find("pub fn verify(")
    vf = _fn_body(aw[i:], "verify") if i >= 0 else ""
    vf = vf or ""
    norm = re.sub(r"\s+", " ", vf)
    _flag(o, "verifyChecksTagLen", bool(re.search(r"if tag\.len\(\) != expected_tag_len \{ return Err\(open::Error::InvalidTag\); \}", norm)),
          "control::verify refuses a tag whose length is not the key's tag length")
    _flag(o, "verifyComparesHmacOfHeader", "hmac::sign(key, header)" in norm and "verify_slices_are_equal(&tag[..len], &out[..len])" in norm,
          "control::verify compares the tag with HMAC(key, header)")
    _flag(o, "openRefusesKeyPhaseOne", len(re.findall(r"key_phase == KeyPhase::Zero,\s*Err\(Error::RotationNotSupported\)", aw)) == 2,
          "open::Application::{decrypt, decrypt_in_place} refuse key phase one")

    # wire version
    m = re.search(r"decoder_invariant!\(version == (\d+),", wv)
    try:
        o.define("wireVersion", "Nat", m.group(1), "packet/wire_version.rs: the only accepted version")
    except Exception:
        o.fail("wireVersion", "Nat", "999", "wire version check not found")
    m = re.search(r"const MAX_QUEUE_ID: u64 = ([^;]+);", sid)
    try:
        o.define("maxQueueId", "Nat", str(const_expr(m.group(1))), "packet/stream/id.rs: MAX_QUEUE_ID")
    except Exception:
        o.fail("maxQueueId", "Nat", "0", "MAX_QUEUE_ID not found")
    m = re.search(r"pub const IS_RELIABLE_MASK: u64 = ([^;]+);\s*pub const IS_BIDIRECTIONAL_MASK: u64 = ([^;]+);", sid)
    try:
        o.define("streamIdMasks", "Nat × Nat", f"({rust_int(m.group(1))}, {rust_int(m.group(2))})", "stream/id.rs: reliable / bidirectional masks")
    except Exception:
        o.fail("streamIdMasks", "Nat × Nat", "(0, 0)", "stream id masks not found")

    # the handlers: authenticate before any effect
    def handler(name, effects):
        body = _fn_body(ms, name)
        if not body:
            return None
        norm = re.sub(r"\s+", " ", body)
        i_auth = norm.find("packet.authenticate(")
        # the rejected branch returns before anything else happens
        m = re.search(r"let Some\(packet\) = packet\.authenticate\([^;{]*\) else \{ self\.subscriber\(\) ?\.on_\w+_rejected\(.*?\); return None; \};", norm)
        pos = [norm.find(e) for e in effects]
        return i_auth >= 0 and bool(m) and all(p > i_auth for p in pos)

    r = handler("handle_stale_key_packet", ["update_for_stale_key(packet.min_key_id)"])
    _flag(o, "staleKeyAuthBeforeUpdate", bool(r), "handle_stale_key_packet: authenticate(..) else return None; then update_for_stale_key(packet.min_key_id)")
    r = handler("handle_replay_detected_packet", [".request_handshake("])
    _flag(o, "replayAuthBeforeHandshake", bool(r), "handle_replay_detected_packet: authenticate(..) else return None; then request_handshake")
    r = handler("handle_unknown_path_secret_packet", [".request_handshake(", "self.evict("])
    _flag(o, "upsAuthBeforeEffects", bool(r), "handle_unknown_path_secret_packet: authenticate(..) else return None; then request_handshake / evict")
    body = re.sub(r"\s+", " ", _fn_body(ms, "handle_unknown_path_secret_packet") or "")
    m = re.search(r"let should_evict = self\.should_evict_on_unknown_path_secret\(\) && \(cfg!\(test\) \|\| entry\.age\(\) (>=|>) Duration::from_secs\((\d+)\)\);", body)
    if m:
        o.define("evictionGuard", "String × Nat", f'("{m.group(1)}", {m.group(2)})', "should_evict = configured && (cfg!(test) || entry.age() > 10 s)")
    else:
        o.fail("evictionGuard", "String × Nat", '("", 0)', "eviction guard shape changed")
    _flag(o, "upsAuthUsesEntryToken", "packet.authenticate(&entry.sender().stateless_reset)" in body,
          "UnknownPathSecret is checked against the stateless reset token stored for the entry")
    for fn, ident in [("handle_stale_key_packet", "staleKeyUsesEntryControlKey"), ("handle_replay_detected_packet", "replayUsesEntryControlKey")]:
        b = re.sub(r"\s+", " ", _fn_body(ms, fn) or "")
        _flag(o, ident, "let key = entry.control_opener();" in b and "packet.authenticate(&key)" in b,
              f"{fn}: authenticate with the control key of the entry named by the credential id")
    return o
