"""Tie G for C09: statement-level translation of the small pure recovery functions of
s2n-quic-core into Lean (`QuicModel/Generated/Recovery.lean`) + token/constant extraction.

Translated (Rust source text -> Lean definitions, re-done on every run):
  time/timestamp.rs   Timestamp::has_elapsed
  recovery/loss.rs    detect, K_PACKET_THRESHOLD
  recovery/rtt_estimator.rs
      weighted_average, RttEstimator::{new_with_max_ack_delay, update_rtt, rttvar_4x,
      calculate_base_pto_micros, pto_period, persistent_congestion_threshold, loss_time_threshold,
      on_persistent_congestion}, the constants
  recovery/pto.rs     the probe count of Pto::on_timeout and the arms of State::on_transmit (tokens)

Conventions of the translation (= the trusted part): `Duration` is Nat nanoseconds, `Timestamp` is Nat
microseconds (`x.0.get()`), `Timestamp + Duration` is `tsAdd`, `e.as_nanos()/as_micros()/as_millis() as u64`
is `u64 (e [/ 1000 [000]])`, `Duration::from_{nanos,micros,millis}(e)` is `e [* 1000 [000]]`,
`debug_assert!(c)` is `if !c then none` (debug build), `if c { A } rest` is `if c then [A; rest] else [rest]`,
`&mut self` functions return the updated `self` (`this`).
"""
from extract import *

# ---------------------------------------------------------------------------------------------
# tokenizer


TOK = re.compile(r"""
    (?P<ws>\s+)
  | (?P<str>"(?:[^"\\]|\\.)*")
  | (?P<num>\d[\d_]*(?:u8|u16|u32|u64|u128|usize|i32|i64)?)
  | (?P<id>[A-Za-z_][A-Za-z0-9_]*!?)
  | (?P<op>::|->|=>|==|!=|<=|>=|&&|\|\||\+=|-=|\*=|/=|\|=|&=|\.\.=|\.\.|[-+*/%<>=!&|.,;:(){}\[\]#?'])
""", re.X)


def tokenize(src):
    out = []
    i = 0
    while i < len(src):
        m = TOK.match(src, i)
        if not m:
            raise ValueError("cannot tokenize at: " + src[i:i + 30])
        i = m.end()
        k = m.lastgroup
        if k == "ws":
            continue
        out.append((k, m.group(k)))
    return out


class P:
    """recursive-descent parser for the Rust subset used by the curated functions"""

    def __init__(self, toks):
        self.t = toks
        self.i = 0

    def peek(self, k=0):
        return self.t[self.i + k][1] if self.i + k < len(self.t) else None

    def kind(self, k=0):
        return self.t[self.i + k][0] if self.i + k < len(self.t) else None

    def next(self):
        v = self.t[self.i][1]
        self.i += 1
        return v

    def expect(self, v):
        if self.peek() != v:
            raise ValueError(f"expected {v!r}, found {self.peek()!r} at token {self.i}")
        self.i += 1

    def accept(self, v):
        if self.peek() == v:
            self.i += 1
            return True
        return False

    # ---- statements
    def block(self):
        self.expect("{")
        stmts = []
        while self.peek() != "}":
            stmts.append(self.stmt())
        self.expect("}")
        return stmts

    def stmt(self):
        v = self.peek()
        if v == "let":
            self.next()
            self.accept("mut")
            name = self.next()
            if self.accept(":"):
                self.type_()
            self.expect("=")
            e = self.expr()
            self.expect(";")
            return ("let", name, e)
        if v == "return":
            self.next()
            e = None if self.peek() == ";" else self.expr()
            self.expect(";")
            return ("return", e)
        if v == "if":
            s = self.if_()
            return s
        if self.kind() == "id" and v.endswith("!"):
            self.next()
            self.expect("(")
            args = self.args(")")
            self.accept(";")
            return ("macro", v[:-1], args)
        e = self.expr()
        for op in ("=", "+=", "-=", "*=", "/=", "|="):
            if self.peek() == op:
                self.next()
                r = self.expr()
                self.expect(";")
                return ("assign", e, op, r)
        if self.accept(";"):
            return ("expr", e, True)
        return ("expr", e, False)      # tail expression

    def if_(self):
        self.expect("if")
        c = self.expr(no_struct=True)
        th = self.block()
        el = None
        if self.accept("else"):
            if self.peek() == "if":
                el = [self.if_()]
            else:
                el = self.block()
        return ("if", c, th, el)

    def type_(self):
        # skip a type: path with optional generics
        depth = 0
        while True:
            v = self.peek()
            if v in ("=", ",", ")", "{", ";") and depth == 0:
                return
            if v == "<":
                depth += 1
            if v == ">":
                depth -= 1
            self.next()

    def args(self, close):
        a = []
        while self.peek() != close:
            a.append(self.expr())
            if not self.accept(","):
                break
        self.expect(close)
        return a

    # ---- expressions (precedence climbing)
    LEVELS = [["||"], ["&&"], ["==", "!=", "<", ">", "<=", ">="], ["|"], ["+", "-"], ["*", "/", "%"]]

    def expr(self, lvl=0, no_struct=False):
        if lvl == len(self.LEVELS):
            return self.unary(no_struct)
        l = self.expr(lvl + 1, no_struct)
        while self.peek() in self.LEVELS[lvl]:
            op = self.next()
            r = self.expr(lvl + 1, no_struct)
            l = ("bin", op, l, r)
        return l

    def unary(self, no_struct):
        if self.accept("!"):
            return ("not", self.unary(no_struct))
        if self.accept("*"):
            return self.unary(no_struct)      # deref: transparent
        if self.accept("&"):
            self.accept("mut")
            return self.unary(no_struct)      # borrow: transparent
        e = self.postfix(no_struct)
        while self.peek() == "as":
            self.next()
            ty = self.next()
            e = ("cast", e, ty)
        return e

    def postfix(self, no_struct):
        e = self.primary(no_struct)
        while True:
            if self.peek() == "." and self.peek(1) != ".":
                self.next()
                name = self.next()
                if self.peek() == "(":
                    self.next()
                    e = ("method", e, name, self.args(")"))
                else:
                    e = ("field", e, name)
            elif self.peek() == "(" and e[0] == "path":
                self.next()
                e = ("call", e[1], self.args(")"))
            elif self.peek() == "?":
                self.next()
                e = ("try", e)
            else:
                return e

    def primary(self, no_struct):
        k, v = self.kind(), self.peek()
        if v == "(":
            self.next()
            e = self.expr()
            self.expect(")")
            return ("paren", e)
        if v == "if":
            s = self.if_()
            return ("ifexpr", s[1], s[2], s[3])
        if k == "num":
            self.next()
            return ("num", rust_int(v))
        if k == "str":
            self.next()
            return ("str", v)
        if k == "id":
            path = [self.next()]
            while self.peek() == "::":
                self.next()
                path.append(self.next())
            if self.peek() == "{" and not no_struct and path[-1][0].isupper():
                self.next()
                fields = []
                while self.peek() != "}":
                    if self.accept(".."):
                        fields.append(("..", self.expr()))
                    else:
                        f = self.next()
                        if self.accept(":"):
                            fields.append((f, self.expr()))
                        else:
                            fields.append((f, ("path", [f])))
                    if not self.accept(","):
                        break
                self.expect("}")
                return ("struct", path, fields)
            return ("path", path)
        raise ValueError(f"unexpected token {v!r}")


def find_fn(src, name, impl_hint=None):
    """(params text, body text) of `fn name(` ; the body by brace matching"""
    for m in re.finditer(r"\bfn\s+" + re.escape(name) + r"\s*(?:<[^>]*>)?\s*\(", src):
        i = m.end()
        depth = 1
        while depth:
            depth += {"(": 1, ")": -1}.get(src[i], 0)
            i += 1
        params = src[m.end():i - 1]
        j = src.index("{", i)
        if ";" in src[i:j]:
            continue          # a trait method declaration
        k = j + 1
        depth = 1
        while depth:
            depth += {"{": 1, "}": -1}.get(src[k], 0)
            k += 1
        return params, src[j:k]
    raise ValueError(f"fn {name} not found")


def camel(s):
    p = s.split("_")
    return p[0] + "".join(x[:1].upper() + x[1:] for x in p[1:])


class NoTranslation(Exception):
    pass


class Tr:
    """emit Lean for one function"""
    FIELDS = ["latest_rtt", "min_rtt", "smoothed_rtt", "rttvar", "max_ack_delay", "first_rtt_sample"]
    CONSTS = {"K_GRANULARITY", "MIN_RTT", "ZERO_DURATION", "K_PERSISTENT_CONGESTION_THRESHOLD", "DEFAULT_INITIAL_RTT",
              "K_PACKET_THRESHOLD"}

    def __init__(self, params, opt, self_mut, tsvars=(), local_fns=(), self_name="this"):
        self.self_name = self_name    # Lean name of `self` (a by-value `Timestamp` in has_elapsed)
        self.opt = opt                # result is Option (a debug_assert!/expect can fire)
        self.self_mut = self_mut      # `&mut self`: result is the updated `this`
        self.ts = set(tsvars)         # variables of type Timestamp
        self.params = params
        self.local_fns = set(local_fns)

    # ---- expression typing: only Timestamp matters (for `+`)
    def is_ts(self, e):
        if e[0] == "path" and len(e[1]) == 1:
            return e[1][0] in self.ts
        if e[0] == "paren":
            return self.is_ts(e[1])
        return False

    def wrap(self, v):
        return f"some ({v})" if self.opt else v

    def e(self, x):
        k = x[0]
        if k == "num":
            return str(x[1])
        if k == "paren":
            return "(" + self.e(x[1]) + ")"
        if k == "path":
            p = x[1]
            if p == ["self"]:
                return self.self_name
            if p == ["None"]:
                return "none"
            if p == ["Outcome", "Lost"]:
                return "Outcome.lost"
            if p == ["Duration", "ZERO"]:
                return "0"
            if len(p) == 1:
                return p[0] if p[0] in self.CONSTS else camel(p[0])
            raise NoTranslation("path " + "::".join(p))
        if k == "not":
            return "!(" + self.e(x[1]) + ")"
        if k == "bin":
            op, l, r = x[1], x[2], x[3]
            if op in ("<", ">", "<=", ">=", "==", "!="):
                lop = {"<": "<", ">": ">", "<=": "≤", ">=": "≥", "==": "=", "!=": "≠"}[op]
                return f"decide ({self.e(l)} {lop} {self.e(r)})"
            if op in ("||", "&&"):
                return f"({self.e(l)} {op} {self.e(r)})"
            if op == "+" and (self.is_ts(l)):
                return f"tsAdd {self.atom(l)} {self.atom(r)}"
            if op in ("+", "-", "*", "/"):
                return f"{self.atom(l)} {op} {self.atom(r)}"
            raise NoTranslation("operator " + op)
        if k == "cast":
            inner, ty = x[1], x[2]
            if ty == "u64":
                # u128 -> u64 truncation for as_nanos/as_micros/as_millis results; identity for narrower ints
                if inner[0] == "method" and inner[2] in ("as_nanos", "as_micros", "as_millis"):
                    return f"u64 ({self.e(inner)})"
                if inner[0] == "path":
                    return self.e(inner)
            raise NoTranslation("cast to " + ty)
        if k == "field":
            r, f = x[1], x[2]
            if r == ("path", ["self"]) and f in self.FIELDS:
                return "this." + camel(f)
            if f == "0" and r[0] == "path":     # Timestamp(NonZeroU64): `.0.get()`
                return self.e(r)
            raise NoTranslation("field " + f)
        if k == "method":
            r, m, a = x[1], x[2], x[3]
            if m == "get" and r[0] == "field" and r[2] == "0":
                return self.e(r)
            if m == "as_nanos":
                return self.e(r)
            if m == "as_micros":
                return f"{self.atom(r)} / 1000"
            if m == "as_millis":
                return f"{self.atom(r)} / 1000000"
            if m in ("max", "min") and len(a) == 1:
                return f"{m} {self.atom(r)} {self.atom(a[0])}"
            if m == "abs_diff":
                return f"absDiff {self.atom(r)} {self.atom(a[0])}"
            if m == "has_elapsed":
                return f"hasElapsed {self.atom(r)} {self.atom(a[0])}"
            if m == "expect" and r[0] == "method" and r[2] == "checked_distance":
                # PacketNumber::checked_distance = u64::checked_sub; the preceding debug_assert! guards it
                return f"{self.atom(r[1])} - {self.atom(r[3][0])}"
            if m in ("is_none", "is_some") and not a:
                return f"{self.atom(r)}.{camel(m)}"
            if m in ("is_initial", "is_application_data") and not a:
                return f"{self.atom(r)}.{camel(m)}"
            if r == ("path", ["self"]):
                if m in self.FIELDS and not a:       # getter
                    return "this." + camel(m)
                if m in self.local_fns:
                    return " ".join([camel(m), "this"] + [self.atom(y) for y in a])
            raise NoTranslation("method " + m)
        if k == "call":
            p, a = x[1], x[2]
            if p in (["max"], ["min"]) and len(a) == 2:
                return f"{p[0]} {self.atom(a[0])} {self.atom(a[1])}"
            if p == ["Some"]:
                return f"some {self.atom(a[0])}"
            if p == ["Duration", "from_nanos"]:
                return self.e(a[0])
            if p == ["Duration", "from_micros"]:
                return f"{self.atom(a[0])} * 1000"
            if p == ["Duration", "from_millis"]:
                return f"{self.atom(a[0])} * 1000000"
            if len(p) == 1 and p[0] in self.local_fns:
                return " ".join([camel(p[0])] + [self.atom(y) for y in a])
            raise NoTranslation("call " + "::".join(p))
        if k == "struct":
            p, fs = x[1], x[2]
            if p == ["Outcome", "NotLostYet"]:
                return f"Outcome.notLostYet {self.atom(fs[0][1])}"
            if p == ["Self"]:
                return "{ " + ", ".join(f"{camel(f)} := {self.e(v)}" for f, v in fs) + " }"
            raise NoTranslation("struct " + "::".join(p))
        if k == "ifexpr":
            c, th, el = x[1], x[2], x[3]
            if len(th) == 1 and el and len(el) == 1 and th[0][0] == "expr" and el[0][0] == "expr":
                return f"if {self.e(c)} then {self.e(th[0][1])} else {self.e(el[0][1])}"
            raise NoTranslation("if expression shape")
        raise NoTranslation(k)

    def atom(self, x):
        s = self.e(x)
        if re.fullmatch(r"[A-Za-z_][A-Za-z0-9_.']*|\d+|\(.*\)", s) and s.count("(") == s.count(")") and not (s.startswith("(") and not _balanced_outer(s)):
            return s
        return "(" + s + ")"

    # ---- statements
    def block(self, stmts, ind):
        pad = "  " * ind
        if not stmts:
            if self.self_mut:
                return pad + self.wrap("this")
            raise NoTranslation("block without value")
        s, rest = stmts[0], stmts[1:]
        k = s[0]
        if k == "let":
            if s[2][0] == "bin" and s[2][1] == "+" and self.is_ts(s[2][2]):
                self.ts.add(s[1])
            return f"{pad}let {camel(s[1])} := {self.e(s[2])}\n" + self.block(rest, ind)
        if k == "assign":
            lhs, op, r = s[1], s[2], s[3]
            if lhs[0] == "path" and len(lhs[1]) == 1:
                v = camel(lhs[1][0])
                rhs = self.e(r) if op == "=" else f"{v} {op[0]} {self.atom(r)}"
                return f"{pad}let {v} := {rhs}\n" + self.block(rest, ind)
            if lhs[0] == "field" and lhs[1] == ("path", ["self"]) and lhs[2] in self.FIELDS:
                f = camel(lhs[2])
                rhs = self.e(r) if op == "=" else f"this.{f} {op[0]} {self.atom(r)}"
                return f"{pad}let this := {{ this with {f} := {rhs} }}\n" + self.block(rest, ind)
            raise NoTranslation("assignment target")
        if k == "macro":
            if s[1] in ("debug_assert", "debug_assert_eq", "debug_assert_ne"):
                if not self.opt:
                    raise NoTranslation("debug_assert in a total function")
                if s[1] == "debug_assert":
                    c = self.e(s[2][0])
                else:
                    c = f"decide ({self.e(s[2][0])} {'=' if s[1].endswith('eq') else '≠'} {self.e(s[2][1])})"
                return f"{pad}if !({c}) then none else\n" + self.block(rest, ind)
            raise NoTranslation("macro " + s[1])
        if k == "if":
            c, th, el = s[1], s[2], s[3] or []
            a = self.block(th + rest, ind + 1)
            b = self.block(el + rest, ind + 1)
            return f"{pad}if {self.e(c)} then\n{a}\n{pad}else\n{b}"
        if k == "return":
            if s[1] is None:
                if self.self_mut:
                    return pad + self.wrap("this")
                raise NoTranslation("bare return")
            return pad + self.wrap(self.e(s[1]))
        if k == "expr":
            if s[2]:      # expression statement `e;` with side effect: not supported
                raise NoTranslation("expression statement")
            if rest:
                raise NoTranslation("tail expression not last")
            return pad + self.wrap(self.e(s[1]))
        raise NoTranslation(k)


def _balanced_outer(s):
    """is `s` of the form ( ... ) with the first paren closing at the very end"""
    d = 0
    for i, ch in enumerate(s):
        if ch == "(":
            d += 1
        elif ch == ")":
            d -= 1
            if d == 0 and i != len(s) - 1:
                return False
    return True


def translate(o, src, rust_name, lean_name, lean_sig, ret, opt=False, self_mut=False, tsvars=(), local_fns=(), self_name="this"):
    """append `def lean_name lean_sig : ret := <translated body>`; on failure emit a stub that cannot bridge"""
    try:
        params, body = find_fn(src, rust_name)
        stmts = P(tokenize(body)).block()
        tr = Tr(params, opt, self_mut, tsvars, local_fns, self_name)
        txt = tr.block(stmts, 1)
        o.lines.append(f"/-- translated from `fn {rust_name}({' '.join(params.split())})` -/")
        o.lines.append(f"def {lean_name} {lean_sig} : {ret} :=\n{txt}")
        o.lines.append("")
        o.items.append(lean_name)
    except (NoTranslation, ValueError, IndexError, TypeError) as ex:
        o.lines.append(f"/-- EXTRACTION FAILED: {rust_name}: {ex} -/")
        o.lines.append(f"def {lean_name} : Unit := ()")
        o.lines.append("")
        o.failed.append(f"{lean_name}: cannot translate fn {rust_name}: {ex}")


def dur_const(src, name):
    m = re.search(r"const\s+" + name + r"\s*:\s*Duration\s*=\s*Duration::from_(millis|micros|nanos|secs)\((\d[\d_]*)\)", src)
    if not m:
        return None
    return rust_int(m.group(2)) * {"secs": 10**9, "millis": 10**6, "micros": 10**3, "nanos": 1}[m.group(1)]


def extract(repo):
    o = Out("Recovery")
    o.lines = ["/- GENERATED by /verif/tools/extract.py (tools/extractors/recovery.py) from /repo's working tree. Do not edit. -/",
               "import QuicModel.Recovery.Rtt",
               "import QuicModel.Recovery.Loss",
               "namespace Quic.Generated.Recovery",
               "open Quic.Recovery.Rtt (RttEstimator Space u64 absDiff)",
               "open Quic.Recovery.Loss (Outcome)",
               "open Quic.Recovery.Time (tsAdd)",
               ""]
    loss = strip_comments(read(repo, "quic/s2n-quic-core/src/recovery/loss.rs"))
    rtt = strip_comments(read(repo, "quic/s2n-quic-core/src/recovery/rtt_estimator.rs"))
    tsrc = strip_comments(read(repo, "quic/s2n-quic-core/src/time/timestamp.rs"))
    pto = strip_comments(read(repo, "quic/s2n-quic-core/src/recovery/pto.rs"))
    loss = loss.split("#[cfg(test)]")[0]
    rtt = rtt.split("#[cfg(test)]")[0]
    pto_main = pto.split("#[cfg(test)]")[0]

    # ---- constants
    m = re.search(r"pub const K_PACKET_THRESHOLD: u64 = (\d[\d_]*);", loss)
    if m:
        o.define("K_PACKET_THRESHOLD", "Nat", str(rust_int(m.group(1))), "loss.rs K_PACKET_THRESHOLD")
    else:
        o.fail("K_PACKET_THRESHOLD", "Nat", "0", "K_PACKET_THRESHOLD not found")
    for name in ("DEFAULT_INITIAL_RTT", "MIN_RTT", "ZERO_DURATION", "K_GRANULARITY"):
        v = dur_const(rtt, name)
        if v is not None:
            o.define(name, "Nat", str(v), f"rtt_estimator.rs {name} (ns)")
        else:
            o.fail(name, "Nat", "0", f"{name} not found")
    m = re.search(r"const K_PERSISTENT_CONGESTION_THRESHOLD: u64 = (\d[\d_]*);", rtt)
    if m:
        o.define("K_PERSISTENT_CONGESTION_THRESHOLD", "Nat", str(rust_int(m.group(1))), "rtt_estimator.rs")
    else:
        o.fail("K_PERSISTENT_CONGESTION_THRESHOLD", "Nat", "0", "K_PERSISTENT_CONGESTION_THRESHOLD not found")
    # RttEstimator::new passes Duration::ZERO as max_ack_delay
    m = re.search(r"pub fn new\(initial_rtt: Duration\) -> Self \{\s*Self::new_with_max_ack_delay\(Duration::ZERO, initial_rtt\)\s*\}", rtt)
    o.define("newUsesZeroMaxAckDelay", "Bool", "true" if m else "false", "RttEstimator::new = new_with_max_ack_delay(Duration::ZERO, initial_rtt)")
    m = re.search(r"fn from_duration_impl\(duration: Duration\) -> Self \{.*?let micros = duration\.as_micros\(\) as u64;", tsrc, re.S)
    m2 = re.search(r"fn add\(self, rhs: Duration\) -> Self::Output \{\s*Timestamp::from_duration_impl\(self\.as_duration_impl\(\) \+ rhs\)\s*\}", tsrc)
    o.define("timestampAddTruncatesToMicros", "Bool", "true" if (m and m2) else "false",
             "Timestamp + Duration = from_duration_impl(as_duration_impl() + rhs), from_duration_impl truncates with as_micros()")

    # ---- translated functions
    translate(o, tsrc, "has_elapsed", "hasElapsed", "(self now : Nat)", "Bool", tsvars=(), self_name="self")
    translate(o, loss, "detect", "detect",
              "(timeThreshold timeSent packetNumberThreshold packetNumber largestAckedPacketNumber now : Nat)",
              "Option Outcome", opt=True, tsvars=("time_sent", "now"))
    translate(o, rtt, "weighted_average", "weightedAverage", "(a b weight : Nat)", "Nat")
    translate(o, rtt, "new_with_max_ack_delay", "newWithMaxAckDelay", "(maxAckDelay initialRtt : Nat)", "Option RttEstimator", opt=True)
    translate(o, rtt, "rttvar_4x", "rttvar4x", "(this : RttEstimator)", "Nat")
    translate(o, rtt, "update_rtt", "updateRtt",
              "(this : RttEstimator) (ackDelay rttSample timestamp : Nat) (isHandshakeConfirmed : Bool) (space : Space)",
              "RttEstimator", self_mut=True, local_fns=("weighted_average",))
    translate(o, rtt, "calculate_base_pto_micros", "calculateBasePtoMicros", "(this : RttEstimator) (ptoBackoff : Nat) (space : Space)",
              "Nat", local_fns=("rttvar_4x",))
    translate(o, rtt, "pto_period", "ptoPeriod", "(this : RttEstimator) (ptoBackoff : Nat) (space : Space)", "Nat",
              local_fns=("calculate_base_pto_micros",))
    translate(o, rtt, "persistent_congestion_threshold", "persistentCongestionThreshold", "(this : RttEstimator)", "Nat",
              local_fns=("rttvar_4x",))
    translate(o, rtt, "loss_time_threshold", "lossTimeThreshold", "(this : RttEstimator)", "Nat")
    translate(o, rtt, "on_persistent_congestion", "onPersistentCongestion", "(this : RttEstimator)", "RttEstimator", self_mut=True)

    # ---- Pto: tokens
    m = re.search(r"let transmission_count = if packets_in_flight \{ (\d+) \} else \{ (\d+) \};", pto_main)
    if m:
        o.define("ptoProbeCounts", "Nat × Nat", f"({m.group(1)}, {m.group(2)})", "Pto::on_timeout transmission_count (in flight, not in flight)")
    else:
        o.fail("ptoProbeCounts", "Nat × Nat", "(0, 0)", "Pto::on_timeout transmission_count not found")
    m = re.search(r"ensure!\(\s*self\.timer\.poll_expiration\(timestamp\)\.is_ready\(\),\s*Poll::Pending\s*\);", pto_main)
    o.define("ptoTimeoutGuardedByTimer", "Bool", "true" if m else "false", "Pto::on_timeout returns Pending unless its timer expired")
    m = re.search(r"Self::Idle \| Self::RequiresTransmission\(0\) => \{\s*debug_assert!\(false, [^)]*\);\s*\}\s*"
                  r"Self::RequiresTransmission\(1\) => \{\s*\*self = Self::Idle;\s*\}\s*"
                  r"Self::RequiresTransmission\(remaining\) => \{\s*\*remaining -= 1;\s*\}", pto_main)
    o.define("ptoOnTransmitArms", "Bool", "true" if m else "false", "State::on_transmit: Idle|RT(0) assert, RT(1) -> Idle, RT(n) -> RT(n-1)")
    m = re.search(r"pub fn update\(&mut self, base_timestamp: Timestamp, pto_period: Duration\) \{\s*self\.timer\.set\(base_timestamp \+ pto_period\);\s*\}", pto_main)
    o.define("ptoUpdateSetsBasePlusPeriod", "Bool", "true" if m else "false", "Pto::update sets the timer to base_timestamp + pto_period")
    # Timer::is_expired delegates to has_elapsed
    timer = strip_comments(read(repo, "quic/s2n-quic-core/src/time/timer.rs"))
    m = re.search(r"pub fn is_expired\(&self, current_time: Timestamp\) -> bool \{\s*match self\.expiration \{\s*Some\(timeout\) => timeout\.has_elapsed\(current_time\),\s*_ => false,\s*\}\s*\}", timer)
    o.define("timerExpiredUsesHasElapsed", "Bool", "true" if m else "false", "Timer::is_expired = expiration.has_elapsed(now)")
    return o
