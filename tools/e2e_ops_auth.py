"""Tie T for C06: turn the receive-side observations of ONE endpoint of a real end-to-end trace into ops for the
Lean `auth-trace` acceptor (lean/QuicModel/Drivers/AuthTrace.lean).

Trace order is real processing order.  Per packet the implementation emits, in this order,
  * `transport:packet_dropped … UnprotectFailed { space }`                         (header protection could not be removed), or
  * `transport:packet_dropped … DecryptionFailed { packet_header }`  [then, for the SAME packet,
    `transport:duplicate_packet` when the decoded number also hits the duplicate window], or
  * `transport:duplicate_packet { packet_header, error: Duplicate|TooOld }`         (authentic replay), or
  * an `rxp` record (the cleartext payload reached frame processing).
"""
import re

import e2e

ERR_RE = re.compile(r"error: (\w+)")
SPACE_RE = re.compile(r"space: (\w+)")
KEYSPACE = {"Initial": "initial", "Handshake": "handshake", "OneRtt": "app", "ZeroRtt": "app"}


def ops_for(tr, ep, conn=None):
    """ops (strings) for endpoint `ep` ('c' or 's'); one history per connection id, separated by `reset`."""
    conns = []
    for r in tr.recs:
        if r.kind in ("rxp", "ev") and r.ep == ep and r.conn not in conns:
            conns.append(r.conn)
    if conn is not None:
        conns = [c for c in conns if c == conn]
    out = []
    for ci, cid in enumerate(conns):
        if ci:
            out.append("reset")
        recs = [r for r in tr.recs if r.kind in ("rxp", "ev") and r.ep == ep and r.conn == cid]
        i = 0
        while i < len(recs):
            r = recs[i]
            i += 1
            if r.kind == "rxp":
                out.append(f"rx {r.space} {r.pn} processed")
                continue
            if r.name == "transport:duplicate_packet":
                sp, pn = e2e.hdr(r.text)
                m = ERR_RE.search(r.text)
                kind = {"Duplicate": "duplicate", "TooOld": "too-old"}.get(m.group(1) if m else "", None)
                if sp in ("initial", "handshake", "app") and pn is not None and kind:
                    out.append(f"rx {sp} {pn} {kind}")
                else:
                    out.append("rx ? ? unparsed-duplicate")
            elif r.name == "transport:packet_dropped":
                if "DecryptionFailed" in r.text:
                    sp, pn = e2e.hdr(r.text)
                    if sp not in ("initial", "handshake", "app") or pn is None:
                        out.append("rx - - dropped-auth")
                        continue
                    kind = "forged"
                    # the duplicate check of the same packet follows immediately (same call)
                    if i < len(recs) and recs[i].kind == "ev" and recs[i].name == "transport:duplicate_packet":
                        sp2, pn2 = e2e.hdr(recs[i].text)
                        if (sp2, pn2) == (sp, pn):
                            m = ERR_RE.search(recs[i].text)
                            kind = {"Duplicate": "forged-duplicate", "TooOld": "forged-too-old"}.get(m.group(1) if m else "", "forged")
                            i += 1
                    out.append(f"rx {sp} {pn} {kind}")
                elif "UnprotectFailed" in r.text:
                    m = SPACE_RE.search(r.text)
                    sp = KEYSPACE.get(m.group(1)) if m else None
                    out.append(f"rx {sp} - unprotect-failed" if sp else "rx - - dropped-auth")
    return out
