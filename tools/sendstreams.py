"""Component-level tie for C03 / C12 on the crate-private stream sending machinery: n REAL `StreamImpl`s of
s2n-quic-transport sharing one REAL `OutgoingConnectionFlowController`, real `writer::Stream` framing through the
crate's `MockWriteContext`, driven in-crate (cfg-guarded hook, /verif/hooks/transport_stream.rs, component
`send-streams`) with adversarial histories of application calls, packet acknowledgements / losses, limit updates,
STOP_SENDING and resets that whole-endpoint runs cannot steer.  Every answer of the harness lists the wire-level
events that happened, already in the op language of the Lean trace acceptor `send-trace`
(lean/QuicModel/Stream/SendTrace.lean, theorems `accepted_trace_satisfies_C03` / `accepted_trace_satisfies_C12`):
the history is replayed through the acceptor (every step must be admissible) and judged by `oracle`, an independent
python statement of C03 / C12 over the same history."""
from vlib import DRIVER, harness_bin, run_lines

M = (1 << 64) - 1
P61 = (1 << 61) - 1


def mix(z):
    z = (z + 0x9e3779b97f4a7c15) & M
    z = ((z ^ (z >> 30)) * 0xbf58476d1ce4e5b9) & M
    z = ((z ^ (z >> 27)) * 0x94d049bb133111eb) & M
    return z ^ (z >> 31)


def payload_byte(key, i):
    w = mix(key ^ (((i >> 3) * 0xd6e8feb86659fd93) & M))
    return (w >> ((i & 7) * 8)) & 0xff


def digest(key, off, n):
    acc = 0
    for j in range(n):
        acc = (acc + (payload_byte(key, off + j) + 1) * (off + j + 1)) % P61
    return acc


CORPUS = [
    # F3 witness shape: data queued beyond the stream window, transmitted, reset (final size must obey the limits)
    "new 102400 100 16384 1", "w 0 500", "tx 1200 n", "rst 0", "tx 1200 n", "reset",
    # two streams competing for connection credit, MAX_DATA arrives, loss + retransmission, FIN
    "new 300 1000 4096 2", "w 0 250", "w 1 250", "tx 1200 n", "tx 1200 n", "md 600", "tx 1200 n", "loss 0 1", "tx 100 n",
    "tx 1200 r", "fin 0", "fin 1", "tx 1200 n", "ack 0 20", "tx 1200 n", "reset",
    # STOP_SENDING while data is in flight, then limit updates and ticks (blocked frames)
    "new 1000 50 4096 2", "w 0 200", "tx 1200 n", "tick 1000", "tx 1200 n", "stop 0", "tx 1200 n", "msd 0 500", "w 0 10",
    "tx 1200 n", "loss 0 9", "tx 1200 n", "w 1 100", "fin 1", "tx 40 n", "tx 40 n", "msd 1 100", "tx 1200 n", "reset",
]


def gen(rng, n, tier):
    lines = list(CORPUS)
    while len(lines) < n:
        ns = rng.choice([1, 1, 2, 3])
        cw = rng.choice([0, 100, 300, 1000, 5000, 100000])
        sw = rng.choice([0, 50, 100, 400, 2000, 100000])
        buf = rng.choice([64, 1000, 4096, 16384])
        lines.append(f"new {cw} {sw} {buf} {ns}")
        pn_hi = 0
        for _ in range(rng.choice([10, 20, 40])):
            x = rng.random()
            i = rng.randrange(ns)
            if x < 0.25:
                lines.append(f"w {i} {rng.choice([1, 10, 50, 100, 300, 1000, 3000])}")
            elif x < 0.55:
                cap = rng.choice([1, 20, 40, 100, 300, 1200, 1200, 9000])
                lines.append(f"tx {cap} {rng.choice(['n', 'n', 'n', 'n', 'r', 'c'])}")
                pn_hi += 1
            elif x < 0.65:
                a = rng.randrange(pn_hi + 1)
                lines.append(f"ack {a} {a + rng.choice([0, 0, 1, 4])}")
            elif x < 0.75:
                a = rng.randrange(pn_hi + 1)
                lines.append(f"loss {a} {a + rng.choice([0, 0, 1, 4])}")
            elif x < 0.82:
                cw = cw + rng.choice([1, 50, 200, 1000, 5000]) if rng.random() < 0.85 else max(0, cw - 10)
                lines.append(f"md {cw}")
            elif x < 0.89:
                lines.append(f"msd {i} {rng.choice([10, 100, 500, 1000, 5000, 200000])}")
            elif x < 0.93:
                lines.append(f"fin {i}")
            elif x < 0.96:
                lines.append(f"rst {i}")
            elif x < 0.98:
                lines.append(f"stop {i}")
            else:
                lines.append(f"tick {rng.choice([1, 50, 1000, 5000])}")
        lines.append("reset")
    return lines


def to_trace(ops, outs):
    """harness answers -> (trace op lines for the acceptor incl. `reset`, index of the harness op behind each line)"""
    tr, src = [], []
    for i, (op, out) in enumerate(zip(ops, outs)):
        if op.strip() == "reset":
            tr.append("reset")
            src.append(i)
            continue
        if not out.startswith("ok "):
            continue
        body = out[3:]
        if body.startswith("-"):
            continue
        for ev in body.split(";"):
            tr.append(ev)
            src.append(i)
    return tr, src


def oracle(trace):
    """independent statement of C03 / C12 over one endpoint's history (list of acceptor op lines, `reset` separates
    histories) -> [(index into trace, signature, message)]"""
    fails = []
    st = None
    for i, l in enumerate(trace):
        t = l.split(" ")
        if l == "reset" or st is None:
            st = {"md": 0, "init": 0, "msd": {}, "key": {}, "written": {}, "fin_called": set(), "cause": set(), "high": {},
                  "final": {}, "reset": set()}
            if l == "reset":
                continue
        if t[0] == "tp":
            st["md"] = max(st["md"], int(t[1]))
            st["init"] = int(t[2])
        elif t[:2] == ["rx", "max_data"]:
            st["md"] = max(st["md"], int(t[2]))
        elif t[:2] == ["rx", "max_stream_data"]:
            st["msd"][int(t[2])] = max(st["msd"].get(int(t[2]), 0), int(t[3]))
        elif t[:2] == ["rx", "stop_sending"]:
            st["cause"].add(int(t[2]))
        elif t[:2] == ["app", "write"]:
            sid = int(t[2])
            st["key"][sid] = int(t[4])
            st["written"][sid] = st["written"].get(sid, 0) + int(t[3])
        elif t[:2] == ["app", "finish"]:
            st["fin_called"].add(int(t[2]))
        elif t[:2] == ["app", "reset"]:
            st["cause"].add(int(t[2]))
        elif t[:2] == ["tx", "stream"] or t[:2] == ["tx", "reset"]:
            sid = int(t[3])
            if t[1] == "stream":
                off, ln, fin, dg = int(t[4]), int(t[5]), t[6] == "1", int(t[7])
                end = off + ln
                if sid in st["reset"]:
                    fails.append((i, "ss:stream-after-reset", f"STREAM frame on stream {sid} after its RESET_STREAM"))
                if end > st["written"].get(sid, 0):
                    fails.append((i, "ss:beyond-written", f"stream {sid}: frame ends at {end}, application wrote {st['written'].get(sid, 0)}"))
                elif ln and dg != digest(st["key"][sid], off, ln):
                    fails.append((i, "ss:bytes-differ", f"stream {sid}: bytes at {off}+{ln} differ from what the application wrote there"))
                if sid in st["final"] and end > st["final"][sid]:
                    fails.append((i, "ss:data-beyond-final", f"stream {sid}: data up to {end} beyond the final size {st['final'][sid]}"))
                if fin:
                    if sid not in st["fin_called"] or end != st["written"].get(sid, 0):
                        fails.append((i, "ss:fin-wrong", f"stream {sid}: FIN at {end}, written {st['written'].get(sid, 0)}"))
                    if sid in st["final"] and st["final"][sid] != end:
                        fails.append((i, "ss:final-size-changed", f"stream {sid}: final size {st['final'][sid]} -> {end}"))
                    st["final"][sid] = end
                if ln == 0 and not fin:
                    fails.append((i, "ss:empty-frame", f"stream {sid}: empty STREAM frame without FIN"))
            else:
                end = int(t[4])
                if sid not in st["cause"] and sid not in st["reset"]:
                    fails.append((i, "ss:reset-without-cause", f"stream {sid}: RESET_STREAM without reset() or STOP_SENDING"))
                if sid in st["final"] and st["final"][sid] != end:
                    fails.append((i, "ss:final-size-changed", f"stream {sid}: final size {st['final'][sid]} -> {end}"))
                if end < st["high"].get(sid, 0):
                    fails.append((i, "ss:final-below-sent", f"stream {sid}: final size {end} below data sent {st['high'][sid]}"))
                st["final"][sid] = end
                st["reset"].add(sid)
            lim = max(st["init"], st["msd"].get(sid, 0))
            if end > lim:
                fails.append((i, "ss:stream-limit", f"stream {sid}: end offset {end} beyond the largest stream limit received {lim}"))
            st["high"][sid] = max(st["high"].get(sid, 0), end)
            if sum(st["high"].values()) > st["md"]:
                fails.append((i, "ss:conn-limit", f"sum of stream lengths {sum(st['high'].values())} beyond the largest MAX_DATA received {st['md']}"))
        elif t[:2] == ["tx", "blocked"]:
            sid = int(t[3])
            if sid in st["reset"]:
                fails.append((i, "ss:blocked-after-reset", f"STREAM_DATA_BLOCKED on stream {sid} after its RESET_STREAM"))
    return fails


def run_part(ctx, prop, n):
    """shared by C03_sendstreams / C12_sendstreams"""
    from vlib import incrate_build, lake_build, segment_upto
    ok, out = incrate_build()
    if not ok:
        ctx.oblige("build", "s2n-quic-transport unit-test binary with the verification hook builds from /repo's working tree", False, out)
        return
    ok, out = lake_build(["driver"])
    if not ok:
        ctx.oblige("build", "lean driver builds", False, out)
        return
    rng = ctx.rng("send-streams")
    ops = gen(rng, n, ctx.tier)
    rc, outs, err = run_lines([harness_bin("vh-incrate"), "send-streams"], ops)
    if rc != 0 or len(outs) != len(ops):
        raise RuntimeError(f"in-crate harness send-streams failed rc={rc} lines={len(outs)}/{len(ops)}: {err[-1500:]}")
    ctx.evaluations += len(ops)
    for op, o in zip(ops, outs):
        ctx.count(f"send-streams:{op.split(' ')[0]}:{'panic' if o.startswith('panic') else ('events' if o.startswith('ok ') and not o.startswith('ok -') else 'none')}")
    trace, src = to_trace(ops, outs)
    for l in trace:
        t = l.split(" ")
        if t[0] == "tx":
            ctx.nontrivial.add("send-streams|" + " ".join(t[:2]) + ("|fin" if t[1] == "stream" and t[6] == "1" else "") + ("|empty" if t[1] == "stream" and t[5] == "0" else ""))
    for k in (0, len(ops) // 3, 2 * len(ops) // 3):
        ctx.sample({"component": "send-streams", "op": ops[k], "impl": outs[k][:300]})
    # (1) panics of the real code (its own debug assertions included)
    panics = [i for i, o in enumerate(outs) if o.startswith("panic")]
    new = []
    for i in panics[:3]:
        if ctx.violation("ss:panic", f"the stream sending machinery panicked: {outs[i][:200]}",
                         {"kind": "oracle", "harness": "vh-incrate", "component": "send-streams", "ops": segment_upto(ops, i), "impl_output": outs[i]}):
            new.append(i)
    ctx.oblige("oracle", f"D:vh-incrate/send-streams: no panic / debug assertion of the real code on {len(ops)} ops", not new,
               "; ".join(outs[i][:160] for i in new))
    if new:
        ctx.obligations[-1]["explained"] = True
    # (2) the property oracle on the implementation's history
    fails = oracle(trace)
    newf = []
    seen = set()
    for (k, sig, msg) in fails:
        if sig in seen:
            continue
        seen.add(sig)
        if ctx.violation(sig, msg, {"kind": "oracle", "harness": "vh-incrate", "component": "send-streams",
                                    "ops": segment_upto(ops, src[k]), "failing_event": trace[k], "impl_output": outs[src[k]]}):
            newf.append(msg)
    ctx.oblige("oracle", f"D:vh-incrate/send-streams: the wire-level history of the real StreamImpl / flow controllers satisfies {prop} "
               f"({len(trace)} events of {len(ops)} ops)", not newf, "; ".join(newf[:5]))
    if newf:
        ctx.obligations[-1]["explained"] = True
    # (3) the Lean acceptor admits every step
    rc, louts, lerr = run_lines([DRIVER, "send-trace"], trace)
    if rc != 0 or len(louts) != len(trace):
        raise RuntimeError(f"lean driver send-trace failed rc={rc}: {lerr[-1000:]}")
    rej = [k for k, o in enumerate(louts) if not o.startswith("ok")]
    detail = ""
    if rej:
        k = rej[0]
        detail = f"{len(rej)} steps rejected; first: `{trace[k]}` -> {louts[k]} (harness op {src[k]}: {ops[src[k]]})"
    ctx.oblige("correspond", f"T:vh-incrate/send-streams: every step of the real history is admitted by the Lean acceptor `send-trace` "
               f"({len(trace)} events)", not rej, detail)
    if rej:
        o = ctx.obligations[-1]
        o["replay"] = {"component": "send-streams", "harness": "vh-incrate", "ops": segment_upto(ops, src[rej[0]]),
                       "rejected_event": trace[rej[0]], "acceptor": louts[rej[0]]}
        if newf:
            o["explained"] = True
