"""C13 (tie T): connection IDs are issued, routed and retired consistently — scenario family `cid`, the
property oracle `o_c13` (the PEER's view recomputed only from the frames an endpoint emitted / processed and
from the datagrams on the simulated wire; RFC 9000 §5.1.1, §5.1.2, §19.15, §19.16) and the converter from an
end-to-end trace to the op lines of the Lean trace acceptor `cid-trace` (lean/QuicModel/Drivers/CidTrace.lean).

Importing this module registers the family in `e2e_props.FAMILIES`."""
import re

import e2e
import e2e_props
import quicparse as qp

# ---------------------------------------------------------------------------------------
# scenario family
# ---------------------------------------------------------------------------------------


def fam_cid(rng, i):
    """handshakes with peer limits 2..8, custom connection-ID providers (length, lifetime, handshake-id rotation),
    client address rebinding schedules, loss / duplication / reordering of NEW_CONNECTION_ID and
    RETIRE_CONNECTION_ID frames, long virtual-time holds so that ID lifetimes expire, one-directional blackholes
    around the retirement time"""
    kind = ["rebind", "lifetime", "lifetime", "rebind-lifetime", "plain", "expiry"][i % 6]
    if i == 5:
        # directed: the server's ids live 60 s; everything the server sends is lost from 29 s to 64 s, so the client never
        # sees the NEW_CONNECTION_ID frames that ask it (Retire Prior To) to give up the expiring id
        return {"seed": rng.randrange(1, 2**40), "bidi": 1, "size": 2000, "chunk": 1000, "delay_ms": 5, "endpoint_drops": 1,
                "s.cid_lifetime_ms": 60000, "tick_ms": 1000, "c.max_idle_ms": 100000, "s.max_idle_ms": 100000,
                "bh": "29000:64000:2", "hold_ms": 80000, "deadline_ms": 230000}
    delay = rng.choice([5, 25])
    p = {
        "seed": rng.randrange(1, 2**40), "bidi": 1, "uni": rng.choice([0, 1]), "size": rng.choice([500, 3000, 20000]), "chunk": 1000,
        "delay_ms": delay, "endpoint_drops": 1,
        "drop_pm": rng.choice([0, 0, 50, 150, 300]), "dup_pm": rng.choice([0, 0, 100, 300]), "jitter_ms": rng.choice([0, 0, 10, 60]),
        "c.active_cid_limit": rng.choice([0, 2, 3, 4, 8]), "s.active_cid_limit": rng.choice([0, 2, 3, 4, 8]),
        "cid_len": rng.choice([0, 0, 4, 8, 20]),
    }
    r = rng.choice([-1, -1, 0, 1, 2, 3])
    if r in (0, 1):
        p["rotate_handshake_cid"] = r
    elif r == 2:
        p["c.rotate_handshake_cid"] = 1
        p["s.rotate_handshake_cid"] = 2
    elif r == 3:
        p["c.rotate_handshake_cid"] = 2
        p["s.rotate_handshake_cid"] = 1
    hold = 0
    if kind in ("lifetime", "rebind-lifetime", "expiry"):
        life = rng.choice([60000, 60000, 61000, 75000, 90000])
        which = rng.choice(["both", "both", "s", "c"])
        if which == "both":
            p["cid_lifetime_ms"] = life
        else:
            p[which + ".cid_lifetime_ms"] = life
        if i % 6 in (1, 3):
            # ids that expire OUT OF sequence-number order: every second generated id lives shorter (a connection-id
            # provider may return any lifetime >= 60 s per id)
            life = max(life, 85000)
            alt = max(60000, life - rng.choice([7000, 15000, 25000]))
            for e in (("c", "s") if which == "both" else (which,)):
                p[e + ".cid_lifetime_ms"] = life
                p[e + ".cid_lifetime_alt_ms"] = alt
            p.pop("cid_lifetime_ms", None)
        hold = life * rng.choice([1, 2, 3]) + rng.choice([5000, 20000, 45000])
        p["tick_ms"] = rng.choice([500, 1000, 3000, 9000])
        p["c.max_idle_ms"] = 100000
        p["s.max_idle_ms"] = 100000
        p["faults_until_ms"] = rng.choice([0, hold // 2, hold])
        if kind == "expiry":
            # NEW_CONNECTION_ID (with the increased Retire Prior To) or RETIRE_CONNECTION_ID frames are lost for a
            # long time around the retirement of an id: one-directional blackhole
            start = life - 30000 - rng.choice([500, 2000]) + rng.choice([0, life])
            p["bh"] = f"{start}:{start + rng.choice([3000, 12000, 33000])}:{rng.choice([1, 2])}"
            p["drop_pm"] = 0
            if i % 2 == 1:
                # two ids retire a little apart, the later-numbered one first, while the frames that announce the first
                # retirement are being lost: whatever is (re)sent afterwards must still cover both
                d = rng.choice([200, 1000, 3000])
                for e in (("c", "s") if which == "both" else (which,)):
                    p[e + ".cid_lifetime_ms"] = life + d
                    p[e + ".cid_lifetime_alt_ms"] = life
                p.pop("cid_lifetime_ms", None)
    if kind in ("rebind", "rebind-lifetime"):
        span = hold if hold else rng.choice([2000, 6000, 15000])
        n = rng.choice([1, 2, 3, 4, 4, 6])
        times = sorted(rng.randrange(10 * delay, max(span, 20 * delay)) for _ in range(n))
        p["rebind_at_ms"] = ",".join(str(t) for t in times)
        p["rebind_ip"] = rng.choice([0, 1, 2])
        if not hold:
            hold = span + 1000
            p["tick_ms"] = rng.choice([50, 200, 500])
            p["faults_until_ms"] = rng.choice([0, span])
    if kind == "plain":
        hold = rng.choice([0, 1500])
        p["tick_ms"] = 100
        p["faults_until_ms"] = rng.choice([0, 1000])
    if hold:
        p["hold_ms"] = hold
    p["deadline_ms"] = hold + 150000
    return {k: v for k, v in p.items() if not (isinstance(v, int) and v == 0 and k not in ("size", "bidi", "uni"))}


e2e_props.FAMILIES["cid"] = fam_cid


# ---------------------------------------------------------------------------------------
# reading the trace
# ---------------------------------------------------------------------------------------

SENT_RE = re.compile(r"packet_header: (\w+)(?: \{ number: (\d+))?.*packet_len: (\d+)")
SPACE = {"Initial": "initial", "Handshake": "handshake", "OneRtt": "app", "ZeroRtt": "app"}
REACTIONS = ("transport:packet_received", "transport:packet_dropped", "transport:datagram_dropped", "transport:duplicate_packet")
BUCKET_US = 1500      # the simulator's timers tick in milliseconds: delivery time and processing time differ by < 1 ms


def preferred_address_cid(hexval):
    """(cid hex, token hex) of a preferred_address transport parameter (RFC 9000 §18.2)"""
    b = bytes.fromhex(hexval)
    i = 4 + 2 + 16 + 2
    n = b[i]
    return b[i + 1:i + 1 + n].hex(), b[i + 1 + n:i + 1 + n + 16].hex()


class CidView:
    """everything C13 needs, recomputed from the trace for BOTH endpoints"""

    def __init__(self, tr):
        self.tr = tr
        self.decl = e2e.declared_tps(tr)
        wires = tr.of("wire")
        self.server_addr = wires[0].dst if wires else None
        # client address over time (rebinding is traced by the harness: `app <t> c rebind <old> <new>`)
        self.client_addr = [(0, wires[0].src)] if wires else []
        for r in tr.of("app"):
            if r.what == "rebind":
                self.client_addr.append((r.t, r.args[1]))
        self.hs = {}          # ep -> list of (seq, cid, token|None)
        for ep in ("c", "s"):
            tp = self.decl.get(ep)
            ids = []
            if tp and "initial_source_connection_id" in tp:
                ids.append((0, tp["initial_source_connection_id"], tp.get("stateless_reset_token")))
                if "preferred_address" in tp:
                    c, t = preferred_address_cid(tp["preferred_address"])
                    ids.append((1, c, t))
            self.hs[ep] = ids
        self.ops = {"c": [], "s": []}        # wire-level events per endpoint, in trace order (dicts)
        self.broken = {"c": False, "s": False}   # packet <-> datagram correlation lost
        self._scan()

    def ep_of_src(self, addr):
        return "s" if addr == self.server_addr else "c"

    def client_addr_at(self, t):
        cur = None
        for t0, a in self.client_addr:
            if t0 <= t:
                cur = a
        return cur

    def limit(self, ep):
        """the active_connection_id_limit the PEER of `ep` declared"""
        tp = self.decl.get(e2e.peer(ep))
        return tp.get("active_connection_id_limit", 2) if tp else None

    def _scan(self):
        tr = self.tr
        txp = {}
        sentq = {"c": [], "s": []}      # packets handed to the IO layer, not yet seen on the wire
        self.dgram_of = {}              # (ep, space, pn) -> (wire rec, position of the packet in the datagram)
        self.cids = {"c": {}, "s": {}}  # ep -> {cid hex: seq} every id the endpoint made known (handshake + emitted frames)
        for ep in ("c", "s"):
            for seq, cid, tok in self.hs[ep]:
                self.cids[ep][cid] = seq
                self.ops[ep].append({"op": "hs", "seq": seq, "cid": cid, "token": tok, "t": 0})
            for seq, cid, tok in self.hs[e2e.peer(ep)]:
                self.ops[ep].append({"op": "hspeer", "seq": seq, "cid": cid, "t": 0})
        for r in tr.recs:
            if r.kind == "txp":
                txp[(r.ep, r.space, r.pn)] = r
                if r.space != "app":
                    continue
                for f in r.frames:
                    if f["type"] == "NEW_CONNECTION_ID":
                        self.cids[r.ep].setdefault(f["cid"], f["seq"])
                        self.ops[r.ep].append({"op": "tx ncid", "seq": f["seq"], "rpt": f["retire_prior_to"], "cid": f["cid"],
                                               "token": f["token"], "t": r.t, "pn": r.pn})
                    elif f["type"] == "RETIRE_CONNECTION_ID":
                        self.ops[r.ep].append({"op": "tx retire", "seq": f["seq"], "t": r.t, "pn": r.pn, "key": (r.ep, r.space, r.pn)})
            elif r.kind == "rxp":
                if r.space != "app":
                    continue
                for f in r.frames:
                    if f["type"] == "NEW_CONNECTION_ID":
                        self.ops[r.ep].append({"op": "rx ncid", "seq": f["seq"], "rpt": f["retire_prior_to"], "cid": f["cid"],
                                               "token": f["token"], "t": r.t, "pn": r.pn})
                    elif f["type"] == "RETIRE_CONNECTION_ID":
                        self.ops[r.ep].append({"op": "rx retire", "seq": f["seq"], "t": r.t, "pn": r.pn})
            elif r.kind == "ev" and r.name == "transport:packet_sent":
                m = SENT_RE.search(r.text)
                if m and m.group(1) in SPACE and m.group(2) is not None:
                    sentq[r.ep].append((SPACE[m.group(1)], int(m.group(2)), int(m.group(3))))
                else:
                    self.broken[r.ep] = True
            elif r.kind == "wire":
                if r.action in ("replay", "inject", "dup"):
                    continue       # not a new transmission of the endpoint (`dup` is logged in addition to the datagram itself)
                ep = self.ep_of_src(r.src)
                if self.broken[ep]:
                    continue
                if r.action.startswith("corrupt"):
                    self.broken[ep] = True     # the logged length/head are those of the garbled datagram
                    continue
                q = sentq[ep]
                total = 0
                k = 0
                while k < len(q) and total < r.len:
                    total += q[k][2]
                    k += 1
                if total != r.len or k == 0:
                    self.broken[ep] = True
                    continue
                for pos in range(k):
                    sp, pn, ln = q[pos]
                    self.dgram_of[(ep, sp, pn)] = (r, pos)
                del q[:k]

    def dcid_of_packet(self, key):
        """destination connection ID (hex) of the datagram that carried packet `key`, when it can be read
        unambiguously from the first bytes on the wire; else None"""
        ep = key[0]
        if self.broken[ep]:
            return None
        hit = self.dgram_of.get(key)
        if hit is None:
            return None
        w, pos = hit
        if pos != 0:
            return None       # coalesced behind a long-header packet: its header is not in the recorded prefix
        return self.dcid_of_head(w.head, e2e.peer(ep))

    def dcid_of_head(self, head, dst_ep):
        """DCID (hex) of a datagram's first packet if it is one of the ids `dst_ep` made known, else None"""
        if not head:
            return None
        if head[0] & 0x80:
            if len(head) < 6:
                return None
            n = head[5]
            cid = head[6:6 + n].hex()
            return cid if cid in self.cids[dst_ep] and len(head) >= 6 + n else None
        body = head[1:].hex()
        hits = [c for c in self.cids[dst_ep] if c and body.startswith(c)]
        if len(hits) != 1:
            return None
        return hits[0]

    def lines(self, ep):
        """op lines for the Lean trace acceptor `cid-trace`"""
        out = []
        lim = self.limit(ep)
        if lim is not None:
            out.append(f"tp {lim}")
        for o in self.ops[ep]:
            k = o["op"]
            if k == "hs":
                out.append(f"hs {o['seq']} {o['cid'] or '-'} {o['token'] or '-'}")
            elif k == "hspeer":
                out.append(f"hspeer {o['seq']} {o['cid'] or '-'}")
            elif k in ("tx ncid", "rx ncid"):
                out.append(f"{k} {o['seq']} {o['rpt']} {o['cid'] or '-'} {o['token']}")
            elif k == "rx retire":
                out.append(f"rx retire {o['seq']}")
            elif k == "tx retire":
                out.append(f"tx retire {o['seq']} {self.dcid_of_packet(o['key']) or '-'}")
        return out


# ---------------------------------------------------------------------------------------
# the oracle
# ---------------------------------------------------------------------------------------

def o_c13(tr):
    """C13 from the peer's point of view. Returns [(signature, message)]."""
    bad = []
    v = CidView(tr)
    if not v.server_addr:
        return bad
    retired_at = {"c": {}, "s": {}}      # ep -> {seq: time E processed the peer's RETIRE_CONNECTION_ID}
    rpt_at = {"c": [], "s": []}          # ep -> [(t, retire_prior_to announced)]
    for ep in ("c", "s"):
        if tr.attack and ep == "c":
            continue      # the attacker's own frames are not the implementation's choice
        lim = v.limit(ep)
        issued = {}       # seq -> (cid, token)
        for seq, cid, tok in v.hs[ep]:
            issued[seq] = (cid, tok)
        if not issued:
            continue      # handshake never got far enough to declare the ids
        nxt = max(issued) + 1
        maxrpt = 0
        retired = retired_at[ep]
        peer_ids = {seq: cid for seq, cid, tok in v.hs[e2e.peer(ep)]}
        for o in v.ops[ep]:
            k = o["op"]
            if k == "tx ncid":
                seq, rpt, cid, tok = o["seq"], o["rpt"], o["cid"], o["token"]
                where = f"endpoint {ep} NEW_CONNECTION_ID seq {seq} (packet {o['pn']} at {o['t']}us)"
                if rpt > seq:
                    bad.append(("e2e:c13:retire-prior-to", f"{where}: retire_prior_to {rpt} > sequence number"))
                if seq in issued:
                    if issued[seq] != (cid, tok):
                        bad.append(("e2e:c13:retransmit-differs", f"{where}: sequence number already used for cid {issued[seq][0]} / token {issued[seq][1]}, now {cid} / {tok}"))
                else:
                    if seq != nxt:
                        bad.append(("e2e:c13:seq-gap", f"{where}: expected sequence number {nxt}"))
                    if any(c == cid for c, _ in issued.values()):
                        bad.append(("e2e:c13:dup-cid", f"{where}: connection id {cid} was already issued"))
                    if any(t == tok for _, t in issued.values()):
                        bad.append(("e2e:c13:dup-token", f"{where}: stateless reset token {tok} was already issued"))
                    issued[seq] = (cid, tok)
                    nxt = max(nxt, seq + 1)
                if rpt > maxrpt:
                    maxrpt = rpt
                    rpt_at[ep].append((o["t"], rpt))
                active = [s for s in issued if s >= maxrpt and s not in retired]
                if lim is not None and len(active) > lim:
                    bad.append(("e2e:c13:limit-exceeded", f"{where}: {len(active)} unretired ids {sorted(active)} (retire_prior_to {maxrpt}, retired by peer {sorted(retired)}) exceed the peer's active_connection_id_limit {lim}"))
            elif k == "rx retire":
                retired.setdefault(o["seq"], o["t"])
            elif k == "rx ncid":
                peer_ids.setdefault(o["seq"], o["cid"])
            elif k == "tx retire":
                seq = o["seq"]
                where = f"endpoint {ep} RETIRE_CONNECTION_ID seq {seq} (packet {o['pn']} at {o['t']}us)"
                if seq not in peer_ids:
                    bad.append(("e2e:c13:retire-unissued", f"{where}: the peer never issued that sequence number (known: {sorted(peer_ids)})"))
                else:
                    d = v.dcid_of_packet(o["key"])
                    if d is not None and d == peer_ids[seq]:
                        bad.append(("e2e:c13:retire-in-own-packet", f"{where}: the packet is addressed to connection id {d}, the very id being retired"))
    bad += routing(tr, v, retired_at, rpt_at)
    return bad


def routing(tr, v, retired_at, rpt_at):
    """every datagram delivered to E whose DCID is an unretired id of E reaches E's connection"""
    bad = []
    closed = {}
    evs = {"c": [], "s": []}
    for r in tr.of("ev"):
        if r.name == "connectivity:connection_closed":
            closed.setdefault(r.ep, r.t)
        if r.name in REACTIONS or r.name == "transport:endpoint_datagram_dropped":
            evs[r.ep].append(r)
    if tr.params.get("endpoint_drops") in (None, 0, "0"):
        return bad     # endpoint-level drops are not in this trace
    per = {"c": [], "s": []}
    for w in tr.of("wire"):
        if w.at is None:
            continue
        if w.dst == v.server_addr:
            ep = "s"
        elif w.dst == v.client_addr_at(w.at):
            ep = "c"
        else:
            continue      # addressed to an address nobody is bound to any more
        per[ep].append(w)
    for ep in ("c", "s"):
        if tr.attack and ep == "c":
            continue
        ws = per[ep]
        drops = [r for r in evs[ep] if r.name == "transport:endpoint_datagram_dropped"]
        reacts = [r for r in evs[ep] if r.name in REACTIONS]
        for d in drops:
            m = re.search(r"len: (\d+), reason: (\w+)", d.text)
            if not m:
                continue
            ln, reason = int(m.group(1)), m.group(2)
            cands = [w for w in ws if abs(w.at - d.t) <= BUCKET_US and w.len == ln]
            if not cands:
                continue
            must = []
            for w in cands:
                cid = v.dcid_of_head(w.head, ep)
                if cid is None:
                    break
                seq = v.cids[ep][cid]
                t_ret = retired_at[ep].get(seq)
                if t_ret is not None and t_ret <= w.at + BUCKET_US:
                    break
                if w.action not in ("deliver", "dup", "replay"):
                    break      # garbled / forged datagram: not a datagram of the peer
                must.append((w, cid, seq))
            else:
                # EVERY datagram this drop could refer to was addressed to an unretired id of `ep`
                w, cid, seq = must[0]
                asked = [t for t, rpt in rpt_at[ep] if rpt > seq]
                if closed.get(ep) is not None and closed[ep] <= w.at + BUCKET_US:
                    continue      # the connection is gone: nothing to route to
                sig = "e2e:c13:unroutable"
                extra = ""
                if asked and w.at - asked[0] >= 29_000_000:
                    sig += ":expired-unconfirmed"
                    extra = (f"; the endpoint asked for its retirement (retire_prior_to > {seq}) at {asked[0]}us, the peer never "
                             f"confirmed with RETIRE_CONNECTION_ID, and the id was dropped after the 30 s expiration buffer")
                bad.append((sig, f"endpoint {ep} dropped a datagram ({ln} bytes, delivered at {w.at}us, reason {reason}) addressed to its "
                                 f"connection id {cid} (seq {seq}), which the peer has not retired{extra}"))
    return bad


def nontrivial(tr, s):
    """a scenario counts when the handshake completed and connection IDs were really issued"""
    return any(f["type"] == "NEW_CONNECTION_ID" for r in tr.recs if r.kind == "txp" and r.space == "app" for f in r.frames)


# ---------------------------------------------------------------------------------------
# correspondence: real traces are accepted by the Lean trace acceptor
# ---------------------------------------------------------------------------------------

def lean_lines(traces):
    """[(trace, ep, [op lines])] for the Lean component `cid-trace`"""
    out = []
    for tr in traces:
        if tr.attack:
            continue
        v = CidView(tr)
        for ep in ("c", "s"):
            ls = v.lines(ep)
            if any(l.startswith("hs ") for l in ls):
                out.append((tr, ep, ls))
    return out
