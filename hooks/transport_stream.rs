// In-crate line-protocol harness for the crate-private stream sending machinery of
// s2n-quic-transport. This file lives in /verif/hooks and is `include!`d by the cfg-guarded hook
//
//     #[cfg(all(test, aws_s2n_quic_verif))]
//     mod verif { include!(concat!(env!("AWS_S2N_QUIC_VERIF_HOOKS"), "/transport_stream.rs")); }
//
// in quic/s2n-quic-transport/src/stream/mod.rs (module `crate::stream::verif`, a child of `stream`,
// so `pub(super)` items of the stream modules are visible). With the guard off nothing is compiled.
//
// Driven by the test `stream::verif::line_protocol`: VERIF_COMP = component, VERIF_IN = file with
// one op per line, VERIF_OUT = file that receives exactly one answer line per op.
//
//   component `send-streams` : n real `StreamImpl`s sharing one real `OutgoingConnectionFlowController`,
//                              real `writer::Stream` framing through the crate's `MockWriteContext`
//   component `data-sender`  : the real `DataSender` / `Transmissions` / `Buffer` with a payload-only
//                              frame writer and the simplest flow controller (the abstraction of
//                              lean/QuicModel/Stream/DataSender.lean, made real)

use crate::{
    contexts::{testing::{MockWriteContext, OutgoingFrameBuffer}, WriteContext},
    stream::{
        incoming_connection_flow_controller::IncomingConnectionFlowController,
        outgoing_connection_flow_controller::OutgoingConnectionFlowController,
        stream_impl::StreamConfig,
        stream_interests::StreamInterestProvider,
        StreamEvents, StreamImpl, StreamTrait,
    },
    sync::data_sender::{self, DataSender, FrameWriter, OutgoingDataFlowController, View},
    transmission::{self, interest::Provider as _},
};
use bytes::Bytes;
use core::task::{Context, Poll};
use futures_test::task::new_count_waker;
use s2n_codec::{EncoderBuffer, EncoderValue};
use s2n_quic_core::{
    application::Error as ApplicationErrorCode,
    endpoint,
    frame::{FitError, Frame, MaxData, MaxStreamData, StopSending},
    packet::number::{PacketNumber, PacketNumberSpace},
    stream::{ops, StreamError, StreamId, StreamType},
    time::{clock::testing as time, Timestamp},
    varint::VarInt,
};
use std::{cell::RefCell, panic::{catch_unwind, AssertUnwindSafe}};

fn mix(mut z: u64) -> u64 {
    z = z.wrapping_add(0x9e3779b97f4a7c15);
    z = (z ^ (z >> 30)).wrapping_mul(0xbf58476d1ce4e5b9);
    z = (z ^ (z >> 27)).wrapping_mul(0x94d049bb133111eb);
    z ^ (z >> 31)
}

/// keyed, position-dependent payload (same definition as harness/vh-e2e/src/cfg.rs and
/// `payloadByte` in lean/QuicModel/Stream/SendTrace.lean)
fn payload_byte(key: u64, i: u64) -> u8 {
    let w = mix(key ^ (i >> 3).wrapping_mul(0xd6e8feb86659fd93));
    (w >> ((i & 7) * 8)) as u8
}

fn payload(key: u64, off: u64, len: usize) -> Vec<u8> {
    (0..len as u64).map(|j| payload_byte(key, off + j)).collect()
}

const P61: u128 = (1u128 << 61) - 1;

/// Σ (byte+1)·(offset+1) mod 2^61−1 over the bytes actually present in the frame
fn digest_bytes(off: u64, data: &[u8]) -> u64 {
    let mut acc: u128 = 0;
    for (j, b) in data.iter().enumerate() {
        acc = (acc + (*b as u128 + 1) * (off as u128 + j as u128 + 1)) % P61;
    }
    acc as u64
}

fn pn(n: u64) -> PacketNumber {
    PacketNumberSpace::ApplicationData.new_packet_number(VarInt::new(n).unwrap())
}

fn num(t: &str) -> Option<u64> {
    t.parse::<u64>().ok()
}

trait Component {
    fn step(&mut self, toks: &[&str]) -> String;
}

// ------------------------------------------------------------------------------------------------
// send-streams
// ------------------------------------------------------------------------------------------------

struct SendStreams {
    streams: Vec<StreamImpl>,
    keys: Vec<u64>,
    written: Vec<u64>,
    tx_conn: Option<OutgoingConnectionFlowController>,
    frames: OutgoingFrameBuffer,
    now: Timestamp,
}

impl SendStreams {
    fn new() -> Self {
        Self {
            streams: vec![],
            keys: vec![],
            written: vec![],
            tx_conn: None,
            frames: OutgoingFrameBuffer::new(),
            now: time::now(),
        }
    }

    fn sid(i: usize) -> u64 {
        // client-initiated bidirectional streams; the traced endpoint is the server
        (i as u64) * 4
    }

    fn run(&mut self, i: usize, request: &mut ops::Request) -> Result<ops::Response, StreamError> {
        let (waker, _count) = new_count_waker();
        let context = Context::from_waker(&waker);
        self.streams[i].poll_request(request, Some(&context))
    }
}

impl Component for SendStreams {
    fn step(&mut self, t: &[&str]) -> String {
        match t {
            ["new", cw, sw, buf, n] => {
                let (cw, sw, buf, n) = match (num(cw), num(sw), num(buf), num(n)) {
                    (Some(a), Some(b), Some(c), Some(d)) if d >= 1 && d <= 8 && c >= 1 && c < (1 << 31) => (a, b, c, d),
                    _ => return "bad-op".into(),
                };
                let (cwv, swv) = match (VarInt::new(cw), VarInt::new(sw)) {
                    (Ok(a), Ok(b)) => (a, b),
                    _ => return "bad-op".into(),
                };
                let rx_conn = IncomingConnectionFlowController::new(VarInt::from_u32(1 << 20), 1 << 20);
                let tx_conn = OutgoingConnectionFlowController::new(cwv);
                self.streams.clear();
                self.keys.clear();
                self.written.clear();
                for i in 0..n as usize {
                    let stream_id = StreamId::nth(endpoint::Type::Client, StreamType::Bidirectional, i as u64).unwrap();
                    assert_eq!(stream_id.as_varint().as_u64(), Self::sid(i));
                    self.streams.push(StreamImpl::new(StreamConfig {
                        incoming_connection_flow_controller: rx_conn.clone(),
                        outgoing_connection_flow_controller: tx_conn.clone(),
                        local_endpoint_type: endpoint::Type::Server,
                        stream_id,
                        initial_receive_window: VarInt::from_u32(4096),
                        desired_flow_control_window: 4096,
                        initial_send_window: swv,
                        max_send_buffer_size: buf as u32,
                    }));
                    self.keys.push(mix(0xc0ffee ^ Self::sid(i)) >> 1);
                    self.written.push(0);
                }
                self.tx_conn = Some(tx_conn);
                self.frames = OutgoingFrameBuffer::new();
                format!("ok tp {cw} {sw} {sw} {sw} 100 100 s")
            }
            _ if self.tx_conn.is_none() => "bad-op".into(),
            ["w", i, len] => {
                let (i, len) = match (num(i), num(len)) {
                    (Some(i), Some(l)) if (i as usize) < self.streams.len() && l >= 1 && l <= 70000 => (i as usize, l as usize),
                    _ => return "bad-op".into(),
                };
                let data = Bytes::from(payload(self.keys[i], self.written[i], len));
                let mut chunks = [data];
                let r = self.run(i, ops::Request::default().send(&mut chunks));
                match r {
                    Ok(resp) => match resp.into_poll() {
                        Poll::Ready(_) if chunks[0].is_empty() => {
                            self.written[i] += len as u64;
                            format!("ok app write {} {} {}", Self::sid(i), len, self.keys[i])
                        }
                        Poll::Ready(_) => "ok - partial".into(),
                        Poll::Pending => {
                            if chunks[0].is_empty() {
                                // the chunk was consumed although the request is pending
                                self.written[i] += len as u64;
                                format!("ok app write {} {} {}", Self::sid(i), len, self.keys[i])
                            } else {
                                "ok - pending".into()
                            }
                        }
                    },
                    Err(_) => "ok - err".into(),
                }
            }
            ["fin", i] => {
                let i = match num(i) {
                    Some(i) if (i as usize) < self.streams.len() => i as usize,
                    _ => return "bad-op".into(),
                };
                match self.run(i, ops::Request::default().finish()) {
                    Ok(_) => format!("ok app finish {}", Self::sid(i)),
                    Err(_) => "ok - err".into(),
                }
            }
            ["rst", i] => {
                let i = match num(i) {
                    Some(i) if (i as usize) < self.streams.len() => i as usize,
                    _ => return "bad-op".into(),
                };
                match self.run(i, ops::Request::default().reset(ApplicationErrorCode::new(7).unwrap())) {
                    Ok(_) => format!("ok app reset {}", Self::sid(i)),
                    Err(_) => "ok - err".into(),
                }
            }
            ["stop", i] => {
                let i = match num(i) {
                    Some(i) if (i as usize) < self.streams.len() => i as usize,
                    _ => return "bad-op".into(),
                };
                let mut events = StreamEvents::new();
                let r = self.streams[i].on_stop_sending(
                    &StopSending {
                        stream_id: VarInt::new(Self::sid(i)).unwrap(),
                        application_error_code: VarInt::from_u8(3),
                    },
                    &mut events,
                );
                events.wake_all();
                match r {
                    Ok(_) => format!("ok rx stop_sending {}", Self::sid(i)),
                    Err(_) => "ok - err".into(),
                }
            }
            ["msd", i, v] => {
                let (i, v) = match (num(i), num(v).and_then(|v| VarInt::new(v).ok())) {
                    (Some(i), Some(v)) if (i as usize) < self.streams.len() => (i as usize, v),
                    _ => return "bad-op".into(),
                };
                let mut events = StreamEvents::new();
                let r = self.streams[i].on_max_stream_data(
                    &MaxStreamData { stream_id: VarInt::new(Self::sid(i)).unwrap(), maximum_stream_data: v },
                    &mut events,
                );
                events.wake_all();
                match r {
                    Ok(_) => format!("ok rx max_stream_data {} {}", Self::sid(i), v.as_u64()),
                    Err(_) => "ok - err".into(),
                }
            }
            ["md", v] => {
                let v = match num(v).and_then(|v| VarInt::new(v).ok()) {
                    Some(v) => v,
                    _ => return "bad-op".into(),
                };
                let conn = self.tx_conn.as_mut().unwrap();
                conn.on_max_data(MaxData { maximum_data: v });
                // `AbstractStreamManager::on_max_data`: streams waiting for connection credit are served in turn
                for s in self.streams.iter_mut() {
                    if self.tx_conn.as_ref().unwrap().available_window() == VarInt::from_u8(0) {
                        break;
                    }
                    if s.get_stream_interests().connection_flow_control_credits {
                        s.on_connection_window_available();
                    }
                }
                format!("ok rx max_data {}", v.as_u64())
            }
            ["tx", cap, c] => {
                let cap = match num(cap) {
                    Some(c) if c >= 1 && c <= 70000 => c as usize,
                    _ => return "bad-op".into(),
                };
                let constraint = match *c {
                    "n" => transmission::Constraint::None,
                    "r" => transmission::Constraint::RetransmissionOnly,
                    "c" => transmission::Constraint::CongestionLimited,
                    _ => return "bad-op".into(),
                };
                self.frames.set_max_packet_size(Some(cap));
                for s in self.streams.iter_mut() {
                    let mut ctx = MockWriteContext::new(
                        self.now,
                        &mut self.frames,
                        constraint,
                        transmission::Mode::Normal,
                        endpoint::Type::Server,
                    );
                    let _ = s.on_transmit(&mut ctx);
                }
                self.frames.flush();
                let mut out = vec![];
                while let Some(mut w) = self.frames.pop_front() {
                    let p = w.packet_nr.as_u64();
                    match w.as_frame() {
                        Frame::Stream(f) => {
                            let off = f.offset.as_u64();
                            let data: &[u8] = &f.data.as_less_safe_slice();
                            out.push(format!(
                                "tx stream {} {} {} {} {} {}",
                                p, f.stream_id.as_u64(), off, data.len(), f.is_fin as u8, digest_bytes(off, data)
                            ));
                        }
                        Frame::ResetStream(f) => {
                            out.push(format!("tx reset {} {} {}", p, f.stream_id.as_u64(), f.final_size.as_u64()))
                        }
                        Frame::StreamDataBlocked(f) => {
                            out.push(format!("tx blocked {} {} {}", p, f.stream_id.as_u64(), f.stream_data_limit.as_u64()))
                        }
                        _ => out.push(format!("tx other {}", p)),
                    }
                }
                if out.is_empty() { "ok -".into() } else { format!("ok {}", out.join(";")) }
            }
            ["ack", a, b] | ["loss", a, b] => {
                let (a, b) = match (num(a), num(b)) {
                    (Some(a), Some(b)) if a <= b && b < (1 << 40) => (a, b),
                    _ => return "bad-op".into(),
                };
                let range = s2n_quic_core::packet::number::PacketNumberRange::new(pn(a), pn(b));
                for s in self.streams.iter_mut() {
                    let mut events = StreamEvents::new();
                    if t[0] == "ack" {
                        s.on_packet_ack(&range, &mut events);
                    } else {
                        s.on_packet_loss(&range, &mut events);
                    }
                    events.wake_all();
                }
                "ok -".into()
            }
            ["tick", ms] => {
                let ms = match num(ms) {
                    Some(m) if m <= 100000 => m,
                    _ => return "bad-op".into(),
                };
                self.now = self.now + core::time::Duration::from_millis(ms);
                for s in self.streams.iter_mut() {
                    s.on_timeout(self.now);
                }
                "ok -".into()
            }
            _ => "bad-op".into(),
        }
    }
}

// ------------------------------------------------------------------------------------------------
// data-sender
// ------------------------------------------------------------------------------------------------

thread_local! {
    /// payload bytes left in the packet being assembled (the model's `cap`)
    static CAP: RefCell<usize> = RefCell::new(0);
    /// frames written by `PayloadWriter`: (offset, bytes, fin)
    static WRITTEN: RefCell<Vec<(u64, Vec<u8>, bool)>> = RefCell::new(vec![]);
}

/// `simpleFlow` of the Lean model: the maximum offset allowed; blocked = the last request went beyond it
#[derive(Debug)]
struct SimpleFc {
    allowed: u64,
    blocked: bool,
    finished: bool,
}

impl OutgoingDataFlowController for SimpleFc {
    fn acquire_flow_control_window(&mut self, end_offset: VarInt) -> VarInt {
        self.blocked = self.allowed < end_offset.as_u64();
        VarInt::new(self.allowed).unwrap()
    }
    fn is_blocked(&self) -> bool {
        self.blocked
    }
    fn clear_blocked(&mut self) {
        self.blocked = false;
    }
    fn finish(&mut self) {
        self.finished = true;
    }
}

/// frame headers are free: a chunk of `n` payload bytes needs `n` units of capacity, an empty FIN frame one
#[derive(Clone, Copy, Debug, Default)]
struct PayloadWriter;

impl FrameWriter for PayloadWriter {
    type Context = ();

    fn write_chunk<W: WriteContext>(&self, offset: VarInt, data: &mut View, _: (), context: &mut W) -> Result<(), FitError> {
        let cap = context.remaining_capacity();
        let len = data.len().as_u64() as usize;
        if cap == 0 {
            return Err(FitError);
        }
        if len > cap {
            data.trim_off(len - cap)?;
        }
        let len = data.len().as_u64() as usize;
        let mut bytes = vec![0u8; len];
        {
            let mut enc = EncoderBuffer::new(&mut bytes[..]);
            let d: &mut View = data;
            EncoderValue::encode(&d, &mut enc);
        }
        let fin = data.is_fin();
        CAP.with(|c| *c.borrow_mut() -= len);
        WRITTEN.with(|w| w.borrow_mut().push((offset.as_u64(), bytes, fin)));
        Ok(())
    }

    fn write_fin<W: WriteContext>(&self, offset: VarInt, _: (), context: &mut W) -> Result<(), FitError> {
        if context.remaining_capacity() == 0 {
            return Err(FitError);
        }
        CAP.with(|c| *c.borrow_mut() -= 1);
        WRITTEN.with(|w| w.borrow_mut().push((offset.as_u64(), vec![], true)));
        Ok(())
    }
}

struct PayloadCtx {
    pn: PacketNumber,
    constraint: transmission::Constraint,
}

impl WriteContext for PayloadCtx {
    fn current_time(&self) -> Timestamp {
        time::now()
    }
    fn transmission_constraint(&self) -> transmission::Constraint {
        self.constraint
    }
    fn transmission_mode(&self) -> transmission::Mode {
        transmission::Mode::Normal
    }
    fn remaining_capacity(&self) -> usize {
        CAP.with(|c| *c.borrow())
    }
    fn write_frame<F>(&mut self, _frame: &F) -> Option<PacketNumber>
    where
        F: EncoderValue + s2n_quic_core::frame::FrameTrait,
        for<'frame> &'frame F: s2n_quic_core::event::IntoEvent<s2n_quic_core::event::builder::Frame>,
    {
        unreachable!("the payload writer never writes encoded frames")
    }
    fn write_fitted_frame<F>(&mut self, _frame: &F) -> PacketNumber
    where
        F: EncoderValue + s2n_quic_core::frame::FrameTrait,
        for<'frame> &'frame F: s2n_quic_core::event::IntoEvent<s2n_quic_core::event::builder::Frame>,
    {
        unreachable!("the payload writer never writes encoded frames")
    }
    fn write_frame_forced<F>(&mut self, _frame: &F) -> Option<PacketNumber>
    where
        F: EncoderValue + s2n_quic_core::frame::FrameTrait,
        for<'frame> &'frame F: s2n_quic_core::event::IntoEvent<s2n_quic_core::event::builder::Frame>,
    {
        unreachable!("the payload writer never writes encoded frames")
    }
    fn ack_elicitation(&self) -> s2n_quic_core::frame::ack_elicitation::AckElicitation {
        Default::default()
    }
    fn packet_number(&self) -> PacketNumber {
        self.pn
    }
    fn local_endpoint_type(&self) -> endpoint::Type {
        endpoint::Type::Server
    }
    fn header_len(&self) -> usize {
        0
    }
    fn tag_len(&self) -> usize {
        0
    }
}

/// byte of the data-sender workload at stream offset `o` (same formula in the Lean driver)
fn ds_byte(o: u64) -> u8 {
    ((o * 31 + 7) % 251) as u8
}

/// Σ (j+1)·byte mod 1000003 over the frame's bytes
fn ds_sum(data: &[u8]) -> u64 {
    let mut acc = 0u64;
    for (j, b) in data.iter().enumerate() {
        acc = (acc + (j as u64 + 1) * (*b as u64)) % 1_000_003;
    }
    acc
}

struct DataSenderComp {
    s: DataSender<SimpleFc, PayloadWriter>,
    reset: bool,
}

impl DataSenderComp {
    fn new() -> Self {
        Self {
            s: DataSender::new(SimpleFc { allowed: 0, blocked: false, finished: false }, u32::MAX),
            reset: false,
        }
    }

    fn summary(&self) -> String {
        let st = match self.s.state() {
            data_sender::State::Sending => "sending".to_string(),
            data_sender::State::Finishing(f) => match f {
                data_sender::FinState::Pending => "fin-pending".to_string(),
                data_sender::FinState::InFlight(p) => format!("fin-inflight:{}", p.as_u64()),
                data_sender::FinState::Lost => "fin-lost".to_string(),
                data_sender::FinState::Acknowledged => "fin-acked".to_string(),
            },
            data_sender::State::Finished => "finished".to_string(),
            data_sender::State::Cancelled(_) => "cancelled".to_string(),
        };
        let total = self.s.total_enqueued_len().as_u64();
        // available_buffer_space = max_buffer_capacity − enqueued_len, enqueued_len = total_len − head
        let enq = (u32::MAX as u64).saturating_sub(self.s.available_buffer_space() as u64);
        let interest = match self.s.get_transmission_interest() {
            transmission::Interest::None => "none",
            transmission::Interest::NewData => "new",
            transmission::Interest::LostData => "lost",
            transmission::Interest::Forced => "forced",
        };
        format!(
            "st={} total={} enq={} infl={} blocked={} int={}",
            st, total, enq, self.s.is_inflight() as u8, self.s.flow_controller().blocked as u8, interest
        )
    }
}

impl Component for DataSenderComp {
    fn step(&mut self, t: &[&str]) -> String {
        match t {
            ["push", n] => {
                let n = match num(n) {
                    Some(n) if n <= 100000 => n,
                    _ => return "bad-op".into(),
                };
                // `SendStream::validate_push`: only in state Sending (and not after a reset)
                if !self.reset && self.s.state() == data_sender::State::Sending {
                    let off = self.s.total_enqueued_len().as_u64();
                    let data: Vec<u8> = (0..n).map(|j| ds_byte(off + j)).collect();
                    self.s.push(Bytes::from(data));
                }
                format!("ok - {}", self.summary())
            }
            ["finish"] => {
                if !self.reset {
                    self.s.finish();
                }
                format!("ok - {}", self.summary())
            }
            ["flow", v] => {
                let v = match num(v) {
                    Some(v) if v < (1 << 60) => v,
                    _ => return "bad-op".into(),
                };
                self.s.flow_controller_mut().allowed = v;
                format!("ok - {}", self.summary())
            }
            ["transmit", p, cap, c] => {
                let (p, cap) = match (num(p), num(cap)) {
                    (Some(p), Some(c)) if p < (1 << 40) && c <= 100000 => (p, c as usize),
                    _ => return "bad-op".into(),
                };
                let constraint = match *c {
                    "n" => transmission::Constraint::None,
                    "r" => transmission::Constraint::RetransmissionOnly,
                    "c" => transmission::Constraint::CongestionLimited,
                    _ => return "bad-op".into(),
                };
                CAP.with(|c| *c.borrow_mut() = cap);
                WRITTEN.with(|w| w.borrow_mut().clear());
                if !self.reset {
                    let mut ctx = PayloadCtx { pn: pn(p), constraint };
                    let _ = self.s.on_transmit((), &mut ctx);
                }
                let frames: Vec<String> = WRITTEN.with(|w| {
                    w.borrow().iter().map(|(off, d, fin)| format!("{}:{}:{}:{}", off, d.len(), *fin as u8, ds_sum(d))).collect()
                });
                let f = if frames.is_empty() { "-".to_string() } else { frames.join(",") };
                format!("ok {} {}", f, self.summary())
            }
            ["ack", a, b] | ["loss", a, b] => {
                let (a, b) = match (num(a), num(b)) {
                    (Some(a), Some(b)) if a <= b && b < (1 << 40) => (a, b),
                    _ => return "bad-op".into(),
                };
                let range = s2n_quic_core::packet::number::PacketNumberRange::new(pn(a), pn(b));
                if t[0] == "ack" {
                    self.s.on_packet_ack(&range);
                } else {
                    self.s.on_packet_loss(&range);
                }
                format!("ok - {}", self.summary())
            }
            ["stop"] => {
                // `SendStream::init_reset`: not necessary when already reset or when everything was acknowledged
                if !self.reset && self.s.state() != data_sender::State::Finished {
                    self.s.stop_sending(StreamError::stream_reset(ApplicationErrorCode::new(1).unwrap()));
                    self.reset = true;
                    format!("ok reset {}", self.summary())
                } else {
                    format!("ok - {}", self.summary())
                }
            }
            _ => "bad-op".into(),
        }
    }
}

fn make(name: &str) -> Box<dyn Component> {
    match name {
        "send-streams" => Box::new(SendStreams::new()),
        "data-sender" => Box::new(DataSenderComp::new()),
        other => panic!("unknown component {other}"),
    }
}

#[test]
fn line_protocol() {
    let comp = match std::env::var("VERIF_COMP") {
        Ok(c) => c,
        Err(_) => return, // not driven by /verif: nothing to do
    };
    let input = std::fs::read_to_string(std::env::var("VERIF_IN").expect("VERIF_IN")).expect("read ops");
    let out_path = std::env::var("VERIF_OUT").expect("VERIF_OUT");
    std::panic::set_hook(Box::new(|_| {}));
    let mut c = make(&comp);
    let mut out = String::new();
    for line in input.lines() {
        let toks: Vec<&str> = line.split_ascii_whitespace().collect();
        if toks.is_empty() {
            out.push_str("bad-op\n");
            continue;
        }
        if toks == ["reset"] {
            // the line `reset` restarts the component (the data-sender's own reset op is spelled `stop`)
            c = make(&comp);
            out.push_str("ok reset\n");
            continue;
        }
        match catch_unwind(AssertUnwindSafe(|| c.step(&toks))) {
            Ok(s) => {
                out.push_str(&s);
                out.push('\n');
            }
            Err(e) => {
                let msg = if let Some(s) = e.downcast_ref::<String>() {
                    s.clone()
                } else if let Some(s) = e.downcast_ref::<&str>() {
                    s.to_string()
                } else {
                    "?".to_string()
                };
                let msg: String = msg.chars().map(|c| if c.is_ascii_whitespace() { '_' } else { c }).take(160).collect();
                out.push_str(&format!("panic {msg}\n"));
                c = make(&comp);
            }
        }
    }
    std::fs::write(out_path, out).expect("write answers");
}
