// both halves of an spsc channel dropped concurrently: State::close on each side
use s2n_quic_core::sync::spsc::channel;
fn main() {
    for _ in 0..4 {
        let (mut send, recv) = channel::<Box<u32>>(2);
        let _ = send.try_slice().unwrap().unwrap().push(Box::new(7));
        let a = std::thread::spawn(move || drop(send));
        let b = std::thread::spawn(move || drop(recv));
        a.join().unwrap();
        b.join().unwrap();
    }
}
