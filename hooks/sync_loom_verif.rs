// Copyright Amazon.com, Inc. or its affiliates. All Rights Reserved.
// SPDX-License-Identifier: Apache-2.0

//! /verif hook for C17 (lock-free spsc queue / wakers): ADD-ONLY loom scenarios for the close /
//! drop races of `sync::spsc` that the crate's own loom tests (sync/spsc/tests.rs) do not cover.
//!
//! How to apply (integrator; nothing existing is changed):
//!   1. copy this file to      quic/s2n-quic-core/src/sync/verif_loom.rs
//!   2. add ONE line to        quic/s2n-quic-core/src/sync.rs  (or sync/mod.rs):
//!          #[cfg(all(test, loom, aws_s2n_quic_verif))] mod verif_loom;
//!   3. run
//!          LOOM_MAX_PREEMPTIONS=2 \
//!          RUSTFLAGS="--cfg s2n_internal_dev --cfg loom --cfg aws_s2n_quic_verif" \
//!          cargo test -p s2n-quic-core --offline --lib sync::verif_loom -- --test-threads 2
//!
//! `aws_s2n_quic_verif` is a `--cfg`, not a feature: no Cargo.toml edit, invisible to normal builds.
//! props/parts/C17_sync.py adds `--cfg aws_s2n_quic_verif` by itself as soon as
//! quic/s2n-quic-core/src/sync/verif_loom.rs exists (the scenarios match its `sync::` filter).
//!
//! Every scenario uses capacity 2 (3 usable slots), `u32` items (d: a drop-counting item) and at
//! most 2 batches of <= 3 items, like the `loom_*` tests in sync/spsc/tests.rs.  A lost wake-up
//! shows as a loom "deadlock" (a parked `block_on` that nobody wakes), a lost/duplicated/reordered
//! item or a double free as an assertion failure.

use crate::{
    sync::spsc::{channel, Sender},
    testing::loom,
};
use core::task::Poll;
use futures::future::poll_fn;
use loom::sync::{
    atomic::{AtomicUsize, Ordering},
    Arc,
};

const CAPACITY: usize = 2;

/// pushes `count` values `0..count`, one slice per value, without ever waiting; stops at the first
/// closed/full answer. Returns the number of accepted values.
fn push_now(send: &mut Sender<u32>, count: u32) -> u32 {
    let mut value = 0;
    while value < count {
        match send.try_slice() {
            Ok(Some(mut slice)) => {
                if slice.push(value).is_err() {
                    break;
                }
                value += 1;
            }
            Ok(None) | Err(_) => break,
        }
    }
    value
}

/// (a) The producer pushes one item and goes away while the async consumer may be parked:
/// the consumer receives exactly the pushed prefix, in order, and then `Err(closed)`; it never hangs.
#[test]
fn verif_loom_drop_sender_wakes_parked_receiver() {
    loom::model(|| {
        let (mut send, mut recv) = channel::<u32>(CAPACITY);

        let tx = loom::thread::spawn(move || {
            let pushed = push_now(&mut send, 1);
            assert_eq!(pushed, 1, "the queue has room for the only item");
            drop(send);
        });

        let rx = loom::thread::spawn(move || {
            loom::future::block_on(async move {
                let mut next = 0u32;
                poll_fn(|cx| loop {
                    match ready!(recv.poll_slice(cx)) {
                        Ok(mut slice) => {
                            while let Some(actual) = slice.pop() {
                                assert_eq!(actual, next, "FIFO order");
                                next += 1;
                            }
                        }
                        Err(_closed) => return Poll::Ready(()),
                    }
                })
                .await;
                assert_eq!(next, 1, "closed must only be reported after every pushed item was delivered");
            });
        });

        tx.join().unwrap();
        rx.join().unwrap();
    });
}

/// (b) The consumer pops one item and goes away while the async producer is blocked on a full
/// queue: the producer observes `Err(closed)` (after at most one more accepted item); it never hangs.
#[test]
fn verif_loom_drop_receiver_wakes_blocked_sender() {
    loom::model(|| {
        let (mut send, mut recv) = channel::<u32>(CAPACITY);
        let slots = send.capacity() as u32;

        let tx = loom::thread::spawn(move || {
            loom::future::block_on(async move {
                // two batches of `slots`: more than the consumer will ever take
                let total = 2 * slots;
                let mut value = 0u32;
                let closed = poll_fn(|cx| loop {
                    match ready!(send.poll_slice(cx)) {
                        Ok(mut slice) => {
                            while value < total && slice.push(value).is_ok() {
                                value += 1;
                            }
                            if value == total {
                                return Poll::Ready(false);
                            }
                        }
                        Err(_closed) => return Poll::Ready(true),
                    }
                })
                .await;
                assert!(closed, "the receiver took one item only: the sender must end with closed");
                assert!(value >= slots, "the first slice fills the queue before anything can be popped: {value}");
                assert!(value <= slots + 1, "at most capacity + 1 items fit: {value}");
            });
        });

        let rx = loom::thread::spawn(move || {
            loop {
                match recv.try_slice() {
                    Ok(Some(mut slice)) => {
                        if let Some(actual) = slice.pop() {
                            assert_eq!(actual, 0, "FIFO order");
                            break;
                        }
                    }
                    Ok(None) => loom::hint::spin_loop(),
                    Err(_) => unreachable!("the sender only stops after it has seen the close"),
                }
            }
            drop(recv);
        });

        tx.join().unwrap();
        rx.join().unwrap();
    });
}

/// (c) close racing push: the producer spin-pushes 3 items, the consumer pops what one slice gives
/// (at least one item) and drops: the received values are 0, 1, .. in order, nobody panics or hangs.
#[test]
fn verif_loom_close_races_push() {
    loom::model(|| {
        let (mut send, mut recv) = channel::<u32>(CAPACITY);

        let tx = loom::thread::spawn(move || {
            // one slice (= one tail publication + wake) per item; 3 slots, so never full:
            // the only way to stop early is the close of the receiver
            let pushed = push_now(&mut send, 3);
            assert!(pushed >= 1, "the receiver only leaves after it got an item");
            drop(send);
        });

        let rx = loom::thread::spawn(move || {
            let mut next = 0u32;
            while next == 0 {
                match recv.try_slice() {
                    Ok(Some(mut slice)) => {
                        while let Some(actual) = slice.pop() {
                            assert_eq!(actual, next, "FIFO order");
                            next += 1;
                        }
                    }
                    Ok(None) => loom::hint::spin_loop(),
                    Err(_) => unreachable!("closed before the first of three items was delivered"),
                }
            }
            assert!(next <= 3);
            drop(recv);
        });

        tx.join().unwrap();
        rx.join().unwrap();
    });
}

/// An item that counts its own destruction.
struct Counted(Arc<AtomicUsize>);

impl Drop for Counted {
    fn drop(&mut self) {
        self.0.fetch_add(1, Ordering::SeqCst);
    }
}

/// (d) both halves are dropped concurrently with items still queued: every item that was created
/// is destroyed exactly once (popped by the consumer, or freed by `drop_contents` of whichever
/// side closes second) -- no leak, no double free.
#[test]
fn verif_loom_concurrent_drop_frees_items_once() {
    loom::model(|| {
        let (mut send, mut recv) = channel::<Counted>(CAPACITY);
        let drops: [Arc<AtomicUsize>; 2] = [Arc::new(AtomicUsize::new(0)), Arc::new(AtomicUsize::new(0))];
        let items = [Counted(drops[0].clone()), Counted(drops[1].clone())];

        let tx = loom::thread::spawn(move || {
            if let Ok(Some(mut slice)) = send.try_slice() {
                for item in items {
                    // a rejected item comes back inside the error and is destroyed right here
                    let _ = slice.push(item);
                }
            }
            drop(send);
        });

        let rx = loom::thread::spawn(move || {
            // take at most one item, if one is visible, then leave with the rest still queued
            if let Ok(Some(mut slice)) = recv.try_slice() {
                drop(slice.pop());
            }
            drop(recv);
        });

        tx.join().unwrap();
        rx.join().unwrap();

        for (idx, count) in drops.iter().enumerate() {
            assert_eq!(count.load(Ordering::SeqCst), 1, "item {idx} must be destroyed exactly once");
        }
    });
}
