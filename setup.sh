#!/bin/sh
# MANIFEST.setup_cmd: build the framework offline from files on disk only.
set -e
cd "$(dirname "$0")"
export CARGO_NET_OFFLINE=true
python3 tools/regen.py
python3 tools/extract.py "${VERIF_REPO:-/repo}" lean/QuicModel/Generated >/dev/null
export CARGO_TARGET_DIR="$(pwd)/.cache/target"
(cd lean && lake build 2>&1 | tail -3)
ln -sfn "${VERIF_REPO:-/repo}" harness/repo
for h in harness/vh-*/; do
  [ -f "$h/Cargo.toml" ] || continue
  cp "${VERIF_REPO:-/repo}/Cargo.lock" "$h/Cargo.lock"
  (cd "$h" && cargo build --offline 2>&1 | tail -2)
done
# in-crate harness (crate-private code of s2n-quic-transport through the cfg(aws_s2n_quic_verif) hook, MANIFEST.hooks)
python3 -c "import sys; sys.path.insert(0, 'tools'); import vlib; ok, out = vlib.incrate_build(); print('incrate', 'ok' if ok else out[-600:])" || true
# C17 support: the crate's own loom scenarios (bounded model checking of the real code) need a --cfg loom build
(cd "${VERIF_REPO:-/repo}" && RUSTFLAGS="--cfg s2n_internal_dev --cfg loom" CARGO_TARGET_DIR="$(cd "$OLDPWD" && pwd)/.cache/target-loom" \
   cargo test -p s2n-quic-core --offline --lib --no-run 2>&1 | tail -1) || true
echo setup done
