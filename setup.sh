#!/bin/sh
# MANIFEST.setup_cmd: build the framework offline from files on disk only.
set -e
cd "$(dirname "$0")"
export CARGO_NET_OFFLINE=true
python3 tools/regen.py
python3 tools/extract.py "${VERIF_REPO:-/repo}" lean/QuicModel/Generated >/dev/null
export CARGO_TARGET_DIR="$(pwd)/.cache/target"
(cd lean && lake build 2>&1 | tail -3)
ln -sfn "${VERIF_REPO:-/repo}" harness/repo
for h in harness/vh-*/; do
  [ -f "$h/Cargo.toml" ] || continue
  cp "${VERIF_REPO:-/repo}/Cargo.lock" "$h/Cargo.lock"
  (cd "$h" && cargo build --offline 2>&1 | tail -2)
done
echo setup done
