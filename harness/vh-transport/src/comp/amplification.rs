//! Drives the real `s2n_quic_transport::path::Path` (public API) of a server / client endpoint.
//! `path::testing::helper_path_server` is behind `cfg(any(test, feature = "testing"))` and the crate declares
//! no such feature, so the harness supplies its own `endpoint::Config` (same associated types as the
//! crate's `endpoint::testing::Server`) and calls the public `Path::new` exactly like `path::Manager` does.
//!
//! ops: `new server|client`, `recv <n>`, `send <n>`, `validate`, `query`, `cc <limited 0|1> <fast-retransmission 0|1>`
//!   -> `ok <at_amplification_limit> <transmission_constraint> <is_validated> <unblocked>`
//! `send` models the connection: a datagram is started only when `!at_amplification_limit()`
//! (`can_transmit`); otherwise `err limited` and `on_bytes_transmitted` is not called.
use crate::{util::*, Component};
use core::time::Duration;
use s2n_quic_core::{
    connection::{self, limits::ANTI_AMPLIFICATION_MULTIPLIER},
    endpoint as core_endpoint,
    path::mtu,
    recovery::RttEstimator,
};
use s2n_quic_transport::{endpoint, path::Path};

pub const NAMES: &[&str] = &["amplification"];

pub fn make(name: &str) -> Option<Box<dyn Component>> {
    match name {
        "amplification" => Some(Box::new(Amp { path: P::Server(new_path::<Server>()) })),
        _ => None,
    }
}

macro_rules! config {
    ($name:ident, $ty:expr) => {
        #[derive(Debug)]
        pub struct $name;

        impl endpoint::Config for $name {
            type CongestionControllerEndpoint = s2n_quic_core::recovery::congestion_controller::testing::mock::Endpoint;
            type TLSEndpoint = s2n_quic_core::crypto::tls::testing::Endpoint;
            type PathHandle = s2n_quic_core::path::RemoteAddress;
            type Connection = s2n_quic_transport::connection::Implementation<Self>;
            type ConnectionLock = std::sync::Mutex<Self::Connection>;
            type EndpointLimits = Limits;
            type ConnectionIdFormat = connection::id::testing::Format;
            type StatelessResetTokenGenerator = s2n_quic_core::stateless_reset::token::testing::Generator;
            type RandomGenerator = s2n_quic_core::random::testing::Generator;
            type TokenFormat = s2n_quic_core::token::testing::Format;
            type ConnectionLimits = s2n_quic_core::connection::limits::Limits;
            type Mtu = s2n_quic_core::path::mtu::Config;
            type StreamManager = s2n_quic_transport::stream::DefaultStreamManager;
            type ConnectionCloseFormatter = s2n_quic_core::connection::close::Development;
            type EventSubscriber = s2n_quic_core::event::testing::Subscriber;
            type PathMigrationValidator = s2n_quic_core::path::migration::allow_all::Validator;
            type PacketInterceptor = s2n_quic_core::packet::interceptor::Disabled;
            type DatagramEndpoint = s2n_quic_core::datagram::Disabled;
            type DcEndpoint = s2n_quic_core::dc::testing::MockDcEndpoint;

            fn context(&mut self) -> endpoint::Context<'_, Self> {
                unimplemented!("only Path is driven")
            }

            const ENDPOINT_TYPE: core_endpoint::Type = $ty;
        }
    };
}

config!(Server, core_endpoint::Type::Server);
config!(Client, core_endpoint::Type::Client);

#[derive(Debug)]
pub struct Limits;

impl core_endpoint::Limiter for Limits {
    fn on_connection_attempt(&mut self, _attempt: &core_endpoint::limits::ConnectionAttempt) -> core_endpoint::limits::Outcome {
        core_endpoint::limits::Outcome::allow()
    }
}

fn new_path<C: endpoint::Config<PathHandle = s2n_quic_core::path::RemoteAddress>>() -> Path<C>
where
    <C::CongestionControllerEndpoint as s2n_quic_core::recovery::congestion_controller::Endpoint>::CongestionController: Default,
{
    Path::new(
        Default::default(),
        connection::PeerId::try_from_bytes(&[]).unwrap(),
        connection::LocalId::TEST_ID,
        RttEstimator::new(Duration::from_millis(30)),
        Default::default(),
        true,
        mtu::Config::default(),
        // what `path::Manager` passes: `limits.anti_amplification_multiplier()`, whose default is this constant
        ANTI_AMPLIFICATION_MULTIPLIER,
        0,
    )
}

enum P {
    Server(Path<Server>),
    Client(Path<Client>),
}

macro_rules! with {
    ($self:ident, $p:ident => $e:expr) => {
        match &mut $self.path {
            P::Server($p) => $e,
            P::Client($p) => $e,
        }
    };
}

pub struct Amp {
    path: P,
}

impl Amp {
    fn show(&mut self, unblocked: bool) -> String {
        with!(self, p => format!(
            "ok {} {:?} {} {}",
            p.at_amplification_limit() as u8,
            p.transmission_constraint(),
            p.is_validated() as u8,
            unblocked as u8
        ))
    }
}

impl Component for Amp {
    fn step(&mut self, t: &[&str]) -> String {
        match t {
            ["new", "server"] => {
                self.path = P::Server(new_path::<Server>());
                self.show(false)
            }
            ["new", "client"] => {
                self.path = P::Client(new_path::<Client>());
                self.show(false)
            }
            ["recv", n] => {
                let Some(n) = num::<usize>(n) else { return "bad-op".into() };
                let outcome = with!(self, p => p.on_bytes_received(n));
                let unblocked = outcome.is_active_path_unblocked() || outcome.is_inactivate_path_unblocked();
                self.show(unblocked)
            }
            ["send", n] => {
                let Some(n) = num::<usize>(n) else { return "bad-op".into() };
                let limited = with!(self, p => p.at_amplification_limit());
                if limited {
                    return "err limited".into();
                }
                with!(self, p => p.on_bytes_transmitted(n));
                self.show(false)
            }
            ["validate"] => {
                // receiving a Handshake packet validates the initial path
                with!(self, p => p.on_handshake_packet());
                self.show(false)
            }
            ["query"] => self.show(false),
            ["cc", l, f] => {
                // the (mock) congestion controller's state: window exhausted / fast retransmission required
                let (l, f) = match (*l, *f) {
                    ("0" | "1", "0" | "1") => (*l == "1", *f == "1"),
                    _ => return "bad-op".into(),
                };
                with!(self, p => {
                    p.congestion_controller.requires_fast_retransmission = f;
                    p.congestion_controller.bytes_in_flight = if l { p.congestion_controller.congestion_window } else { 0 };
                });
                self.show(false)
            }
            _ => "bad-op".into(),
        }
    }
}
