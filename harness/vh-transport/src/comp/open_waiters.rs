//! Drives the real `s2n_quic_transport::stream::Controller` (public API): the locally-initiated
//! bidirectional stream controller (`LocalInitiated::poll_open_stream` / `wake_unblocked`, open tokens).
//! Up to 8 application tasks, each with its own connection handle (= its own `connection::OpenToken`)
//! and its own waker (a wake counter).
//!
//! ops: `new <peer_limit> <local_limit>`              -> `ok new`
//!      `poll <task>`                                 -> `ok ready` | `ok pending`
//!      `max <n>`                (MAX_STREAMS frame)  -> `ok <tasks woken by this op, sorted, with multiplicity | ->`
//!      `close_stream`           (a local stream ends)-> `ok <tasks woken>`   (`bad-op` when no stream is open)
//!      `close`                  (connection closed)  -> `ok <tasks woken>`
use crate::{util::*, Component};
use core::{
    task::{Context, Waker},
    time::Duration,
};
use s2n_quic_core::{
    endpoint,
    frame::MaxStreams,
    stream::{StreamId, StreamType},
    transport::parameters::InitialFlowControlLimits,
    varint::VarInt,
};
use s2n_quic_transport::{connection::OpenToken, stream};
use std::sync::{
    atomic::{AtomicU64, Ordering},
    Arc,
};

pub const NAMES: &[&str] = &["open-waiters"];
const TASKS: usize = 8;

pub fn make(name: &str) -> Option<Box<dyn Component>> {
    match name {
        "open-waiters" => Some(Box::new(OpenWaiters::new(1, 100))),
        _ => None,
    }
}

struct Counter(AtomicU64);

impl std::task::Wake for Counter {
    fn wake(self: Arc<Self>) {
        self.0.fetch_add(1, Ordering::SeqCst);
    }
}

pub struct OpenWaiters {
    controller: stream::Controller,
    tokens: Vec<OpenToken>,
    counters: Vec<Arc<Counter>>,
    wakers: Vec<Waker>,
    seen: Vec<u64>,
    open: u64,
}

impl OpenWaiters {
    fn new(peer_limit: u32, local_limit: u64) -> Self {
        let mut peer = InitialFlowControlLimits::default();
        peer.max_open_remote_bidirectional_streams = VarInt::from_u32(peer_limit);
        let limits = stream::Limits {
            max_open_local_bidirectional_streams: local_limit.try_into().expect("local limit"),
            ..Default::default()
        };
        let controller = stream::Controller::new(
            endpoint::Type::Client,
            peer,
            InitialFlowControlLimits::default(),
            limits,
            Duration::from_millis(100),
        );
        let counters: Vec<Arc<Counter>> = (0..TASKS).map(|_| Arc::new(Counter(AtomicU64::new(0)))).collect();
        let wakers = counters.iter().map(|c| Waker::from(c.clone())).collect();
        Self {
            controller,
            tokens: (0..TASKS).map(|_| OpenToken::new()).collect(),
            counters,
            wakers,
            seen: vec![0; TASKS],
            open: 0,
        }
    }

    /// tasks whose wake counter moved since the last call (sorted, with multiplicity)
    fn woken(&mut self) -> String {
        let mut v = Vec::new();
        for t in 0..TASKS {
            let n = self.counters[t].0.load(Ordering::SeqCst);
            for _ in self.seen[t]..n {
                v.push(t as u64);
            }
            self.seen[t] = n;
        }
        format!("ok {}", list(&v))
    }
}

impl Component for OpenWaiters {
    fn step(&mut self, t: &[&str]) -> String {
        match t {
            ["new", p, l] => {
                let (Some(p), Some(l)) = (num::<u32>(p), num::<u64>(l)) else { return "bad-op".into() };
                if p > 1000 || l == 0 || l > 1000 {
                    return "bad-op".into();
                }
                *self = Self::new(p, l);
                "ok new".into()
            }
            ["poll", task] => {
                let Some(task) = num::<usize>(task).filter(|t| *t < TASKS) else { return "bad-op".into() };
                let cx = Context::from_waker(&self.wakers[task]);
                let r = self
                    .controller
                    .poll_open_local_stream(StreamType::Bidirectional, &mut self.tokens[task], &cx);
                if r.is_ready() {
                    self.open += 1;
                    "ok ready".into()
                } else {
                    "ok pending".into()
                }
            }
            ["max", n] => {
                let Some(n) = num::<u32>(n).filter(|n| *n <= 100000) else { return "bad-op".into() };
                self.controller.on_max_streams(&MaxStreams {
                    stream_type: StreamType::Bidirectional,
                    maximum_streams: VarInt::from_u32(n),
                });
                self.woken()
            }
            ["close_stream"] => {
                if self.open == 0 {
                    return "bad-op".into();
                }
                self.open -= 1;
                self.controller
                    .on_close_stream(StreamId::initial(endpoint::Type::Client, StreamType::Bidirectional));
                self.woken()
            }
            ["close"] => {
                self.controller.close();
                self.woken()
            }
            _ => "bad-op".into(),
        }
    }
}
