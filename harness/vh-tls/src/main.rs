//! vh-tls: differential harness driving the *real* s2n-codec / s2n-quic-core components
//! through the line protocol described in /verif/DESIGN.md §2.2.
//! usage: vh-tls <component>   (ops on stdin, one output line per input line on stdout)
use std::io::{BufRead, Write};
use std::panic::{catch_unwind, AssertUnwindSafe};

mod comp;
pub mod util;

/// A component keeps its own state; `step` handles one tokenised line.
pub trait Component {
    fn step(&mut self, toks: &[&str]) -> String;
}

fn main() {
    let args: Vec<String> = std::env::args().collect();
    if args.len() != 2 {
        eprintln!("usage: vh-tls <component>; components: {}", comp::names().join(" "));
        std::process::exit(2);
    }
    let name = args[1].clone();
    let mut c = match comp::make(&name) {
        Some(c) => c,
        None => {
            eprintln!("unknown component {name}");
            std::process::exit(2);
        }
    };
    // keep panics quiet: they are reported in-band as `panic <msg>`
    std::panic::set_hook(Box::new(|_| {}));
    let stdin = std::io::stdin();
    let stdout = std::io::stdout();
    let mut out = std::io::BufWriter::new(stdout.lock());
    for line in stdin.lock().lines() {
        let line = line.expect("read");
        let toks: Vec<&str> = line.split_ascii_whitespace().collect();
        if toks.is_empty() {
            writeln!(out, "bad-op").unwrap();
            continue;
        }
        if toks == ["reset"] {
            c = comp::make(&name).unwrap();
            writeln!(out, "ok reset").unwrap();
            continue;
        }
        let r = catch_unwind(AssertUnwindSafe(|| c.step(&toks)));
        match r {
            Ok(s) => writeln!(out, "{s}").unwrap(),
            Err(e) => {
                let msg = if let Some(s) = e.downcast_ref::<String>() {
                    s.clone()
                } else if let Some(s) = e.downcast_ref::<&str>() {
                    s.to_string()
                } else {
                    "?".to_string()
                };
                let msg: String = msg.chars().map(|c| if c.is_ascii_whitespace() { '_' } else { c }).take(120).collect();
                writeln!(out, "panic {msg}").unwrap();
                // state may be poisoned: start over
                c = comp::make(&name).unwrap();
            }
        }
    }
    out.flush().unwrap();
}
