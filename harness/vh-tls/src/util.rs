pub fn hex(b: &[u8]) -> String {
    if b.is_empty() {
        return "-".to_string();
    }
    let mut s = String::with_capacity(b.len() * 2);
    for x in b {
        s.push_str(&format!("{x:02x}"));
    }
    s
}

pub fn unhex(s: &str) -> Option<Vec<u8>> {
    if s == "-" {
        return Some(vec![]);
    }
    if s.len() % 2 != 0 {
        return None;
    }
    let mut v = Vec::with_capacity(s.len() / 2);
    let b = s.as_bytes();
    for i in (0..b.len()).step_by(2) {
        let h = (b[i] as char).to_digit(16)?;
        let l = (b[i + 1] as char).to_digit(16)?;
        v.push((h * 16 + l) as u8);
    }
    Some(v)
}

pub fn num<T: std::str::FromStr>(s: &str) -> Option<T> {
    s.parse().ok()
}

pub fn list(v: &[u64]) -> String {
    if v.is_empty() {
        "-".into()
    } else {
        v.iter().map(|x| x.to_string()).collect::<Vec<_>>().join(",")
    }
}
