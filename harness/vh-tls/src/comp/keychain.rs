//! C15 key chain: the REAL 1-RTT key chains of every TLS provider.
//!
//! A TLS 1.3 handshake is completed in memory with `s2n_quic_core::crypto::tls::testing::Pair`
//! (the way the providers' own tests do it) for any server × client combination of
//! `s2n-quic-tls` (s2n-tls + s2n-quic-crypto keys) and `s2n-quic-rustls` (rustls' own QUIC keys),
//! both sides' 1-RTT keys are taken from `pair.{client,server}.context.application.crypto`, and
//! the chains are walked with the REAL `crypto::OneRttKey::derive_next_key`. Nothing about key
//! derivation or AEAD is re-implemented here.
//!
//! ops (one output line each):
//!   hs <server s2n|rustls> <client s2n|rustls> <suite aes128|aes256|chacha20>
//!        -> ok <negotiated suite> <client traffic secret hex> <server traffic secret hex>
//!           (the secrets are what the TLS libraries write through their NSS key-log callback,
//!            `with_key_logging()` of the two providers; `-` when not logged)
//!   keys <suite> <client secret hex> <server secret hex>
//!        -> ok <suite> <client secret> <server secret>      s2n-quic-crypto keys from KNOWN secrets
//!   next c|s                      derive_next_key of the side's newest generation -> ok <new generation>
//!   seal c|s <gen> <id> <pn> <header> <payload>   -> ok <ciphertext||tag hex>   (kept under <id>)
//!   open c|s <gen> <id>                           -> ok opened <payload hex> | ok rejected
//!   openx c|s <gen> <id> <pn> <header> <flip index|->   the kept packet with another packet number /
//!                                                   header / one flipped byte -> ok opened .. | ok rejected
//!   openhex c|s <gen> <pn> <header> <ciphertext>  -> ok opened <payload hex> | ok rejected
//!   limits c|s <gen>              -> ok <suite> <confidentiality limit> <integrity limit> <tag len>
//!   hp c|s seal|open <sample hex> -> ok <mask: low 5 bits of byte 0, bytes 1..4>
use crate::{util::*, Component};
use s2n_codec::{encoder::scatter, Encoder as _, EncoderBuffer};
use s2n_quic_core::crypto::{
    self,
    tls::{
        self,
        testing::certificates::{CERT_DER, CERT_PEM, KEY_DER, KEY_PEM},
    },
};
use s2n_quic_crypto::{aws_lc_aead as aead, hkdf, one_rtt, SecretPair};
use std::{collections::BTreeMap, sync::Arc};

pub const NAMES: &[&str] = &["keychain"];

pub fn make(name: &str) -> Option<Box<dyn Component>> {
    match name {
        "keychain" => Some(Box::new(Kc::default())),
        _ => None,
    }
}

/// object-safe view of a `crypto::OneRttKey` (its `derive_next_key` returns `Self`)
trait DynKey {
    fn seal(&mut self, pn: u64, header: &[u8], payload: &[u8]) -> Result<Vec<u8>, String>;
    fn open(&self, pn: u64, header: &[u8], ciphertext: &[u8]) -> Option<Vec<u8>>;
    fn next(&self) -> Box<dyn DynKey>;
    fn limits(&self) -> String;
}

fn suite_name(s: tls::CipherSuite) -> &'static str {
    match s {
        tls::CipherSuite::TLS_AES_128_GCM_SHA256 => "aes128",
        tls::CipherSuite::TLS_AES_256_GCM_SHA384 => "aes256",
        tls::CipherSuite::TLS_CHACHA20_POLY1305_SHA256 => "chacha20",
        tls::CipherSuite::Unknown => "unknown",
    }
}

impl<K: crypto::OneRttKey + 'static> DynKey for K {
    fn seal(&mut self, pn: u64, header: &[u8], payload: &[u8]) -> Result<Vec<u8>, String> {
        let mut buf = vec![0u8; payload.len() + self.tag_len()];
        {
            let enc = EncoderBuffer::new(&mut buf);
            let mut enc = scatter::Buffer::new(enc);
            enc.write_slice(payload);
            self.encrypt(pn, header, &mut enc).map_err(|e| format!("{e:?}"))?;
        }
        Ok(buf)
    }

    fn open(&self, pn: u64, header: &[u8], ciphertext: &[u8]) -> Option<Vec<u8>> {
        let mut buf = ciphertext.to_vec();
        self.decrypt(pn, header, &mut buf).ok()?;
        let n = buf.len().checked_sub(self.tag_len())?;
        buf.truncate(n);
        Some(buf)
    }

    fn next(&self) -> Box<dyn DynKey> {
        Box::new(self.derive_next_key())
    }

    fn limits(&self) -> String {
        format!(
            "{} {} {} {}",
            suite_name(self.cipher_suite()),
            self.aead_confidentiality_limit(),
            self.aead_integrity_limit(),
            self.tag_len()
        )
    }
}

trait DynHeaderKey {
    fn mask(&self, sealing: bool, sample: &[u8]) -> Option<[u8; 5]>;
}

impl<H: crypto::OneRttHeaderKey + 'static> DynHeaderKey for H {
    fn mask(&self, sealing: bool, sample: &[u8]) -> Option<[u8; 5]> {
        let n = if sealing { self.sealing_sample_len() } else { self.opening_sample_len() };
        if sample.len() != n {
            return None;
        }
        let m = if sealing {
            self.sealing_header_protection_mask(sample)
        } else {
            self.opening_header_protection_mask(sample)
        };
        let mut out = [0u8; 5];
        out.copy_from_slice(&m[..5]);
        // short header: only the low five bits of the first byte are protected
        out[0] &= 0x1f;
        Some(out)
    }
}

struct Side {
    gens: Vec<Box<dyn DynKey>>,
    header: Box<dyn DynHeaderKey>,
}

struct Packet {
    pn: u64,
    header: Vec<u8>,
    ciphertext: Vec<u8>,
}

#[derive(Default)]
pub struct Kc {
    client: Option<Side>,
    server: Option<Side>,
    packets: BTreeMap<String, Packet>,
    handshakes: u64,
}

fn algorithm(suite: &str) -> Option<(&'static aead::Algorithm, hkdf::Algorithm, usize)> {
    match suite {
        "aes128" => Some((&aead::AES_128_GCM, hkdf::HKDF_SHA256, 32)),
        "aes256" => Some((&aead::AES_256_GCM, hkdf::HKDF_SHA384, 48)),
        "chacha20" => Some((&aead::CHACHA20_POLY1305, hkdf::HKDF_SHA256, 32)),
        _ => None,
    }
}

// ---- endpoints -------------------------------------------------------------------------------

mod rustls_ep {
    //! the deprecated re-export is the only way to hand the provider a single-suite configuration
    #![allow(deprecated)]
    use super::*;
    use s2n_quic_rustls::rustls::{
        self as rustls,
        crypto::{aws_lc_rs, CryptoProvider},
        pki_types::{CertificateDer, PrivateKeyDer},
    };

    fn provider(suite: &str) -> Option<Arc<CryptoProvider>> {
        let s = match suite {
            "aes128" => aws_lc_rs::cipher_suite::TLS13_AES_128_GCM_SHA256,
            "aes256" => aws_lc_rs::cipher_suite::TLS13_AES_256_GCM_SHA384,
            "chacha20" => aws_lc_rs::cipher_suite::TLS13_CHACHA20_POLY1305_SHA256,
            _ => return None,
        };
        Some(Arc::new(CryptoProvider { cipher_suites: vec![s], ..aws_lc_rs::default_provider() }))
    }

    /// the provider's own builder (all three suites, its own preference order)
    pub fn server_default() -> Option<s2n_quic_rustls::Server> {
        s2n_quic_rustls::server::Builder::new()
            .with_certificate(CERT_PEM, KEY_PEM)
            .ok()?
            .with_key_logging()
            .ok()?
            .build()
            .ok()
    }

    pub fn client_default() -> Option<s2n_quic_rustls::Client> {
        s2n_quic_rustls::client::Builder::new().with_certificate(CERT_PEM).ok()?.with_key_logging().ok()?.build().ok()
    }

    /// same settings as the provider's builder, restricted to one cipher suite
    pub fn server(suite: &str) -> Option<s2n_quic_rustls::Server> {
        let key = PrivateKeyDer::try_from(KEY_DER.to_vec()).ok()?;
        let mut config = rustls::ServerConfig::builder_with_provider(provider(suite)?)
            .with_protocol_versions(&[&rustls::version::TLS13])
            .ok()?
            .with_no_client_auth()
            .with_single_cert(vec![CertificateDer::from(CERT_DER.to_vec())], key)
            .ok()?;
        config.ignore_client_order = true;
        config.max_fragment_size = None;
        config.alpn_protocols = vec![b"h3".to_vec()];
        config.key_log = Arc::new(rustls::KeyLogFile::new());
        Some(s2n_quic_rustls::Server::new(config))
    }

    pub fn client(suite: &str) -> Option<s2n_quic_rustls::Client> {
        let mut roots = rustls::RootCertStore::empty();
        roots.add(CertificateDer::from(CERT_DER.to_vec())).ok()?;
        let mut config = rustls::ClientConfig::builder_with_provider(provider(suite)?)
            .with_protocol_versions(&[&rustls::version::TLS13])
            .ok()?
            .with_root_certificates(roots)
            .with_no_client_auth();
        config.max_fragment_size = None;
        config.alpn_protocols = vec![b"h3".to_vec()];
        config.key_log = Arc::new(rustls::KeyLogFile::new());
        Some(s2n_quic_rustls::Client::new(config))
    }
}

mod s2n_ep {
    use super::*;
    use s2n_quic_tls::security::Policy;

    /// s2n-tls security policies whose TLS 1.3 preference starts with the wanted suite (the s2n-tls
    /// server picks by its own order); `None`: no such policy ships with s2n-tls
    pub fn policy(suite: &str) -> Option<Policy> {
        match suite {
            // default_tls13: AES_128_GCM, AES_256_GCM
            "aes128" => Policy::from_version("default_tls13").ok(),
            // 20190801: AES_256_GCM, AES_128_GCM, CHACHA20_POLY1305
            "aes256" => Policy::from_version("20190801").ok(),
            _ => None,
        }
    }

    /// policy of an s2n-tls endpoint whose rustls peer offers / accepts only `suite`: the provider's default
    /// (default_tls13) has no ChaCha20-Poly1305, 20190801 has all three
    pub fn peer_policy(suite: &str) -> Option<Policy> {
        match suite {
            "chacha20" => Policy::from_version("20190801").ok(),
            _ => None,
        }
    }

    pub fn server(policy: Option<&Policy>) -> Option<s2n_quic_tls::Server> {
        let mut b = s2n_quic_tls::server::Builder::default().with_certificate(CERT_PEM, KEY_PEM).ok()?;
        if let Some(p) = policy {
            b.config_mut().set_security_policy(p).ok()?;
        }
        b.with_key_logging().ok()?.build().ok()
    }

    pub fn client(policy: Option<&Policy>) -> Option<s2n_quic_tls::Client> {
        let mut b = s2n_quic_tls::client::Builder::default().with_certificate(CERT_PEM).ok()?;
        if let Some(p) = policy {
            b.config_mut().set_security_policy(p).ok()?;
        }
        b.with_key_logging().ok()?.build().ok()
    }
}

/// run the handshake to completion and take both sides' 1-RTT keys
fn handshake<S: tls::Endpoint, C: tls::Endpoint>(server: &mut S, client: &mut C) -> Result<(Side, Side), String>
where
    <S::Session as crypto::CryptoSuite>::OneRttKey: 'static,
    <S::Session as crypto::CryptoSuite>::OneRttHeaderKey: 'static,
    <C::Session as crypto::CryptoSuite>::OneRttKey: 'static,
    <C::Session as crypto::CryptoSuite>::OneRttHeaderKey: 'static,
{
    let mut pair = tls::testing::Pair::new(server, client, "localhost".into());
    let mut rounds = 0;
    while pair.is_handshaking() {
        pair.poll(None).map_err(|e| format!("{e:?}"))?;
        rounds += 1;
        if rounds > 16 {
            return Err("no-progress".into());
        }
    }
    // `pair.finish()` (assertions of the providers' own tests, among them one seal/open per direction with the
    // handshake's 1-RTT keys) is deliberately not called: whether the two sides' keys agree is what the ops report
    let (ck, ch) = pair.client.context.application.crypto.take().ok_or("no-client-keys")?;
    let (sk, sh) = pair.server.context.application.crypto.take().ok_or("no-server-keys")?;
    Ok((Side { gens: vec![Box::new(ck)], header: Box::new(ch) }, Side { gens: vec![Box::new(sk)], header: Box::new(sh) }))
}

/// CLIENT_TRAFFIC_SECRET_0 / SERVER_TRAFFIC_SECRET_0 of the NSS key log; every line that is present must agree
fn read_keylog(path: &std::path::Path) -> (String, String) {
    let txt = std::fs::read_to_string(path).unwrap_or_default();
    let pick = |label: &str| -> String {
        let mut found: Option<String> = None;
        for l in txt.lines() {
            let t: Vec<&str> = l.split_ascii_whitespace().collect();
            if t.len() == 3 && t[0] == label {
                match &found {
                    None => found = Some(t[2].to_ascii_lowercase()),
                    Some(f) if *f == t[2].to_ascii_lowercase() => {}
                    Some(_) => return "conflict".into(),
                }
            }
        }
        found.unwrap_or_else(|| "-".into())
    };
    (pick("CLIENT_TRAFFIC_SECRET_0"), pick("SERVER_TRAFFIC_SECRET_0"))
}

impl Kc {
    fn side(&mut self, s: &str) -> Option<&mut Side> {
        match s {
            "c" => self.client.as_mut(),
            "s" => self.server.as_mut(),
            _ => None,
        }
    }

    fn hs(&mut self, server: &str, client: &str, suite: &str) -> String {
        self.client = None;
        self.server = None;
        self.packets.clear();
        if algorithm(suite).is_none() {
            return "bad-op".into();
        }
        self.handshakes += 1;
        let path = std::env::temp_dir().join(format!("vh-tls-keylog-{}-{}", std::process::id(), self.handshakes));
        let _ = std::fs::remove_file(&path);
        std::env::set_var("SSLKEYLOGFILE", &path);
        let r = match (server, client) {
            ("s2n", "s2n") => {
                // the s2n-tls server chooses by its own preference order
                let Some(p) = s2n_ep::policy(suite) else { return "err cannot-force-suite".into() };
                match (s2n_ep::server(Some(&p)), s2n_ep::client(None)) {
                    (Some(mut s), Some(mut c)) => handshake(&mut s, &mut c),
                    _ => Err("config".into()),
                }
            }
            ("s2n", "rustls") => match (s2n_ep::server(s2n_ep::peer_policy(suite).as_ref()), rustls_ep::client(suite)) {
                (Some(mut s), Some(mut c)) => handshake(&mut s, &mut c),
                _ => Err("config".into()),
            },
            ("rustls", "s2n") => match (rustls_ep::server(suite), s2n_ep::client(s2n_ep::peer_policy(suite).as_ref())) {
                (Some(mut s), Some(mut c)) => handshake(&mut s, &mut c),
                _ => Err("config".into()),
            },
            ("rustls", "rustls") => match (rustls_ep::server(suite), rustls_ep::client_default()) {
                (Some(mut s), Some(mut c)) => handshake(&mut s, &mut c),
                _ => Err("config".into()),
            },
            // the providers' own builders on both sides (whatever they negotiate)
            ("rustls-default", "rustls-default") => match (rustls_ep::server_default(), rustls_ep::client_default()) {
                (Some(mut s), Some(mut c)) => handshake(&mut s, &mut c),
                _ => Err("config".into()),
            },
            _ => return "bad-op".into(),
        };
        let (cs, ss) = read_keylog(&path);
        let _ = std::fs::remove_file(&path);
        std::env::remove_var("SSLKEYLOGFILE");
        match r {
            Ok((c, s)) => {
                let negotiated = c.gens[0].limits().split(' ').next().unwrap_or("?").to_string();
                self.client = Some(c);
                self.server = Some(s);
                format!("ok {negotiated} {cs} {ss}")
            }
            Err(e) => format!("err handshake {}", e.replace(' ', "_").chars().take(80).collect::<String>()),
        }
    }

    fn keys(&mut self, suite: &str, client: &[u8], server: &[u8]) -> String {
        self.client = None;
        self.server = None;
        self.packets.clear();
        let Some((alg, digest, len)) = algorithm(suite) else { return "bad-op".into() };
        if client.len() != len || server.len() != len {
            return "bad-op".into();
        }
        let pair = || SecretPair { client: hkdf::Prk::new_less_safe(digest, client), server: hkdf::Prk::new_less_safe(digest, server) };
        let (Some((ck, ch)), Some((sk, sh))) = (one_rtt::OneRttKey::new_client(alg, pair()), one_rtt::OneRttKey::new_server(alg, pair())) else {
            return "err keys".into();
        };
        self.client = Some(Side { gens: vec![Box::new(ck)], header: Box::new(ch) });
        self.server = Some(Side { gens: vec![Box::new(sk)], header: Box::new(sh) });
        format!("ok {suite} {} {}", hex(client), hex(server))
    }
}

const MAX_GENS: usize = 4096;
const MAX_PN: u64 = (1 << 62) - 1;

impl Component for Kc {
    fn step(&mut self, t: &[&str]) -> String {
        match t {
            ["hs", server, client, suite] => self.hs(server, client, suite),
            ["keys", suite, c, s] => match (unhex(c), unhex(s)) {
                (Some(c), Some(s)) => self.keys(suite, &c, &s),
                _ => "bad-op".into(),
            },
            ["next", who] => {
                let Some(side) = self.side(who) else { return "bad-op".into() };
                if side.gens.len() >= MAX_GENS {
                    return "bad-op".into();
                }
                let k = side.gens.last().unwrap().next();
                side.gens.push(k);
                format!("ok {}", side.gens.len() - 1)
            }
            ["seal", who, gen, id, pn, header, payload] => {
                let (Some(g), Some(pn), Some(h), Some(p)) = (num::<usize>(gen), num::<u64>(pn), unhex(header), unhex(payload)) else {
                    return "bad-op".into();
                };
                if pn > MAX_PN || self.packets.contains_key(*id) {
                    return "bad-op".into();
                }
                let Some(side) = self.side(who) else { return "bad-op".into() };
                let Some(key) = side.gens.get_mut(g) else { return "bad-op".into() };
                match key.seal(pn, &h, &p) {
                    Ok(ct) => {
                        let out = format!("ok {}", hex(&ct));
                        self.packets.insert(id.to_string(), Packet { pn, header: h, ciphertext: ct });
                        out
                    }
                    Err(e) => format!("err seal {e}"),
                }
            }
            ["open", who, gen, id] => {
                let Some(g) = num::<usize>(gen) else { return "bad-op".into() };
                let Some(p) = self.packets.get(*id) else { return "bad-op".into() };
                let (pn, h, ct) = (p.pn, p.header.clone(), p.ciphertext.clone());
                let Some(side) = self.side(who) else { return "bad-op".into() };
                let Some(key) = side.gens.get(g) else { return "bad-op".into() };
                verdict(key.open(pn, &h, &ct))
            }
            ["openx", who, gen, id, pn, header, flip] => {
                let (Some(g), Some(pn), Some(h)) = (num::<usize>(gen), num::<u64>(pn), unhex(header)) else { return "bad-op".into() };
                let Some(p) = self.packets.get(*id) else { return "bad-op".into() };
                let mut ct = p.ciphertext.clone();
                if *flip != "-" {
                    match num::<usize>(flip) {
                        Some(i) if i < ct.len() => ct[i] ^= 0x01,
                        _ => return "bad-op".into(),
                    }
                }
                if pn > MAX_PN {
                    return "bad-op".into();
                }
                let Some(side) = self.side(who) else { return "bad-op".into() };
                let Some(key) = side.gens.get(g) else { return "bad-op".into() };
                verdict(key.open(pn, &h, &ct))
            }
            ["openhex", who, gen, pn, header, ct] => {
                let (Some(g), Some(pn), Some(h), Some(ct)) = (num::<usize>(gen), num::<u64>(pn), unhex(header), unhex(ct)) else {
                    return "bad-op".into();
                };
                if pn > MAX_PN {
                    return "bad-op".into();
                }
                let Some(side) = self.side(who) else { return "bad-op".into() };
                let Some(key) = side.gens.get(g) else { return "bad-op".into() };
                verdict(key.open(pn, &h, &ct))
            }
            ["limits", who, gen] => {
                let Some(g) = num::<usize>(gen) else { return "bad-op".into() };
                let Some(side) = self.side(who) else { return "bad-op".into() };
                let Some(key) = side.gens.get(g) else { return "bad-op".into() };
                format!("ok {}", key.limits())
            }
            ["hp", who, dir, sample] => {
                let Some(sample) = unhex(sample) else { return "bad-op".into() };
                let sealing = match *dir {
                    "seal" => true,
                    "open" => false,
                    _ => return "bad-op".into(),
                };
                let Some(side) = self.side(who) else { return "bad-op".into() };
                match side.header.mask(sealing, &sample) {
                    Some(m) => format!("ok {}", hex(&m)),
                    None => "bad-op".into(),
                }
            }
            _ => "bad-op".into(),
        }
    }
}

fn verdict(r: Option<Vec<u8>>) -> String {
    match r {
        Some(p) => format!("ok opened {}", hex(&p)),
        None => "ok rejected".into(),
    }
}
