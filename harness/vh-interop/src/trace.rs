//! global trace sink; every line is stamped by the caller with the virtual time it passes
use std::io::Write;
use std::sync::atomic::{AtomicU64, Ordering};
use std::sync::Mutex;

static OUT: Mutex<Option<std::io::BufWriter<std::io::Stdout>>> = Mutex::new(None);
static LAST: AtomicU64 = AtomicU64::new(0);

pub fn line(s: String) {
    let mut g = OUT.lock().unwrap_or_else(|e| e.into_inner());
    let w = g.get_or_insert_with(|| std::io::BufWriter::with_capacity(1 << 20, std::io::stdout()));
    let _ = writeln!(w, "{s}");
}

pub fn flush() {
    let mut g = OUT.lock().unwrap_or_else(|e| e.into_inner());
    if let Some(w) = g.as_mut() {
        let _ = w.flush();
    }
}

/// virtual time in microseconds
pub fn now() -> u64 {
    let t = s2n_quic::provider::io::testing::now();
    let us = unsafe { t.as_duration() }.as_micros() as u64;
    LAST.store(us, Ordering::Relaxed);
    us
}

pub fn last_time() -> u64 {
    LAST.load(Ordering::Relaxed)
}

pub fn hex(b: &[u8]) -> String {
    if b.is_empty() {
        return "-".into();
    }
    const H: &[u8; 16] = b"0123456789abcdef";
    let mut s = Vec::with_capacity(b.len() * 2);
    for x in b {
        s.push(H[(x >> 4) as usize]);
        s.push(H[(x & 15) as usize]);
    }
    unsafe { String::from_utf8_unchecked(s) }
}
