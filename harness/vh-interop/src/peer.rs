//! the independent implementation: cloudflare quiche 0.29 driven as a sans-IO state machine inside a task
//! of the simulated IO executor, over a raw simulated socket (the way
//! quic/s2n-quic-tests/src/tests/zero_length_cid_client_connection_migration.rs does it): received
//! datagrams are fed to `conn.recv`, `conn.send` is flushed to the socket, `conn.timeout()` is honoured
//! on the virtual clock (see clock.rs).
//! Trace lines (virtual time in µs):
//!   peer <t> config <role> <Debug of the knobs>
//!   peer <t> established alpn=<…> tp=<Debug of s2n-quic's transport parameters as quiche decoded them>
//!   peer <t> open <sid> <kind>
//!   peer <t> write <sid> <off> <len>
//!   peer <t> finish <sid> <total>                 (all bytes and the FIN were accepted by quiche's send buffer)
//!   peer <t> read <sid> <off> <len> ok|BAD <first mismatch offset>
//!   peer <t> eof <sid> <total>
//!   peer <t> err <sid|-> <where> <error>
//!   peer <t> done                                 (quiche's share of the workload is complete)
//!   peer <t> app-close
//!   peer <t> closed established=<0|1> timed_out=<0|1> local_error=<none|app:<code>|transport:<code>:<reason hex>> peer_error=<…> stats=<…>
use crate::{
    app,
    cfg::{self, stream_size, Cfg, Rng},
    clock, trace,
};
use s2n_quic::provider::io::testing::{self as io, primary, Result};
use s2n_quic_core::crypto::tls::testing::certificates;
use s2n_quic_core::inet::ExplicitCongestionNotification;
use s2n_quic_platform::io::testing::Socket;
use std::collections::BTreeMap;
use std::future::Future;
use std::net::SocketAddr;
use std::pin::Pin;
use std::sync::atomic::Ordering;
use std::task::Poll;
use std::time::Duration;

fn log(s: String) {
    trace::line(format!("peer {} {s}", trace::now()));
}

fn dbg<E: core::fmt::Debug>(e: &E) -> String {
    format!("{e:?}").replace('\n', " ").chars().take(400).collect()
}

fn mk_config(cfg: &Cfg, server: bool) -> core::result::Result<quiche::Config, String> {
    let q = &cfg.q;
    let mut c = quiche::Config::new(quiche::PROTOCOL_VERSION).map_err(|e| dbg(&e))?;
    c.set_application_protos(&[b"h3"]).map_err(|e| dbg(&e))?;
    let dir = if cfg.certdir.is_empty() {
        let exe = std::env::current_exe().map_err(|e| e.to_string())?;
        exe.parent().unwrap().join("vh-interop-certs")
    } else {
        std::path::PathBuf::from(&cfg.certdir)
    };
    std::fs::create_dir_all(&dir).map_err(|e| e.to_string())?;
    // per-process file names: scenarios run in parallel
    let pid = std::process::id();
    let cert = dir.join(format!("cert-{pid}.pem"));
    let key = dir.join(format!("key-{pid}.pem"));
    std::fs::write(&cert, certificates::CERT_PEM).map_err(|e| e.to_string())?;
    if server {
        std::fs::write(&key, certificates::KEY_PEM).map_err(|e| e.to_string())?;
        c.load_cert_chain_from_pem_file(cert.to_str().unwrap()).map_err(|e| dbg(&e))?;
        c.load_priv_key_from_pem_file(key.to_str().unwrap()).map_err(|e| dbg(&e))?;
        let _ = std::fs::remove_file(&key);
    } else if q.verify != 0 {
        c.load_verify_locations_from_file(cert.to_str().unwrap()).map_err(|e| dbg(&e))?;
        c.verify_peer(true);
    } else {
        c.verify_peer(false);
    }
    let _ = std::fs::remove_file(&cert);
    c.set_initial_max_data(q.data_window);
    c.set_initial_max_stream_data_bidi_local(q.bidi_local);
    c.set_initial_max_stream_data_bidi_remote(q.bidi_remote);
    c.set_initial_max_stream_data_uni(q.uni);
    c.set_initial_max_streams_bidi(q.max_bidi);
    c.set_initial_max_streams_uni(q.max_uni);
    c.set_max_idle_timeout(q.max_idle_ms);
    if q.max_ack_delay_ms > 0 {
        c.set_max_ack_delay(q.max_ack_delay_ms);
    }
    if q.ack_delay_exp > 0 {
        c.set_ack_delay_exponent(q.ack_delay_exp);
    }
    if q.max_recv_udp > 0 {
        c.set_max_recv_udp_payload_size(q.max_recv_udp as usize);
    }
    if q.max_send_udp > 0 {
        c.set_max_send_udp_payload_size(q.max_send_udp as usize);
    }
    if q.max_conn_window > 0 {
        c.set_max_connection_window(q.max_conn_window);
    }
    if q.max_stream_window > 0 {
        c.set_max_stream_window(q.max_stream_window);
    }
    if q.active_cid_limit > 0 {
        c.set_active_connection_id_limit(q.active_cid_limit);
    }
    c.set_disable_active_migration(true);
    c.discover_pmtu(q.pmtud != 0);
    c.enable_pacing(q.pacing != 0);
    c.grease(q.grease != 0);
    c.set_cc_algorithm_name(&q.cc).map_err(|e| format!("q.cc {}: {}", q.cc, dbg(&e)))?;
    Ok(c)
}

struct SendSt {
    key: u64,
    size: u64,
    off: u64,
    fin: bool,
    opened: bool,
    kind: &'static str,
    rng: Rng,
    /// length of the chunk currently being written (kept across partial writes)
    pending: usize,
}

struct RecvSt {
    key: u64,
    off: u64,
    fin: bool,
}

struct Driver {
    cfg: Cfg,
    server: bool,
    socket: Socket,
    local: SocketAddr,
    conn: Option<quiche::Connection>,
    config: quiche::Config,
    sends: BTreeMap<u64, SendSt>,
    recvs: BTreeMap<u64, RecvSt>,
    established: bool,
    done_logged: bool,
    close_at: Option<u64>,
    closing: bool,
    cid_rng: Rng,
    next_read_at: u64,
}

fn err_str(e: Option<&quiche::ConnectionError>) -> String {
    match e {
        None => "none".into(),
        Some(e) if e.is_app => format!("app:{}", e.error_code),
        Some(e) => format!("transport:{}:{}", e.error_code, trace::hex(&e.reason)),
    }
}

impl Driver {
    fn new(cfg: Cfg, server: bool, socket: Socket) -> core::result::Result<Self, String> {
        let config = mk_config(&cfg, server)?;
        let local = socket.local_addr().map_err(|e| e.to_string())?;
        let seed = cfg.seed;
        let mut d = Self {
            cfg,
            server,
            socket,
            local,
            conn: None,
            config,
            sends: BTreeMap::new(),
            recvs: BTreeMap::new(),
            established: false,
            done_logged: false,
            close_at: None,
            closing: false,
            cid_rng: Rng(cfg::mix(seed ^ 0xc1d0)),
            next_read_at: 0,
        };
        d.plan();
        Ok(d)
    }

    fn new_cid(&mut self) -> Vec<u8> {
        (0..self.cfg.q.cid_len).map(|_| self.cid_rng.next() as u8).collect()
    }

    /// the streams quiche initiates (same ids, sizes, keys and chunking salts as the s2n-quic application
    /// in the same role would use, see harness/vh-e2e/src/app.rs)
    fn plan(&mut self) {
        let cfg = self.cfg.clone();
        let add = |sid: u64, from_server: bool, size: u64, salt: u64, kind: &'static str, sends: &mut BTreeMap<u64, SendSt>| {
            sends.insert(
                sid,
                SendSt {
                    key: cfg::stream_key(cfg.seed, sid, from_server),
                    size,
                    off: 0,
                    fin: false,
                    opened: false,
                    kind,
                    rng: Rng(cfg::mix(cfg.seed ^ salt ^ sid)),
                    pending: 0,
                },
            );
        };
        if self.server {
            for i in 0..cfg.suni {
                add(4 * i + 3, true, stream_size(&cfg, i, 0x53), 0x77, "uni", &mut self.sends);
            }
        } else {
            for i in 0..cfg.bidi {
                add(4 * i, false, stream_size(&cfg, i, 0xb1), 0x79, "bidi", &mut self.sends);
            }
            for i in 0..cfg.uni {
                add(4 * i + 2, false, stream_size(&cfg, i, 0xa1), 0x7a, "uni", &mut self.sends);
            }
        }
    }

    fn expected_recv_streams(&self) -> u64 {
        if self.server {
            self.cfg.bidi + self.cfg.uni
        } else {
            self.cfg.bidi + self.cfg.suni
        }
    }

    fn expected_send_streams(&self) -> u64 {
        if self.server {
            self.cfg.bidi + self.cfg.suni
        } else {
            self.cfg.bidi + self.cfg.uni
        }
    }

    fn quiche_done(&self) -> bool {
        self.sends.len() as u64 == self.expected_send_streams()
            && self.sends.values().all(|s| s.fin)
            && self.recvs.len() as u64 == self.expected_recv_streams()
            && self.recvs.values().all(|r| r.fin)
    }

    fn s2n_done(&self) -> bool {
        if self.server {
            // the s2n client closes the connection itself when it is done
            false
        } else {
            let eofs = app::S2N_EOFS.load(Ordering::Relaxed);
            let fins = app::S2N_FINS.load(Ordering::Relaxed);
            eofs >= self.cfg.bidi + self.cfg.uni && fins >= self.cfg.bidi + self.cfg.suni
        }
    }

    fn on_datagram(&mut self, from: SocketAddr, mut payload: Vec<u8>) {
        if self.conn.is_none() {
            if !self.server {
                return;
            }
            let hdr = match quiche::Header::from_slice(&mut payload, quiche::MAX_CONN_ID_LEN) {
                Ok(h) => h,
                Err(e) => {
                    log(format!("err - header {}", dbg(&e)));
                    return;
                }
            };
            if hdr.ty != quiche::Type::Initial || !quiche::version_is_supported(hdr.version) {
                log(format!("err - first-packet ty={:?} version={:#x}", hdr.ty, hdr.version));
                return;
            }
            let scid = self.new_cid();
            let scid = quiche::ConnectionId::from_vec(scid);
            match quiche::accept(&scid, None, self.local, from, &mut self.config) {
                Ok(c) => {
                    log(format!("accept scid={} dcid={}", trace::hex(&scid), trace::hex(&hdr.dcid)));
                    self.conn = Some(c)
                }
                Err(e) => {
                    log(format!("err - accept {}", dbg(&e)));
                    return;
                }
            }
        }
        let local = self.local;
        let conn = self.conn.as_mut().unwrap();
        match conn.recv(&mut payload, quiche::RecvInfo { from, to: local }) {
            Ok(_) | Err(quiche::Error::Done) => {}
            Err(e) => log(format!("err - recv {}", dbg(&e))),
        }
    }

    fn pump_app(&mut self) {
        let now = trace::now();
        let Some(conn) = self.conn.as_mut() else { return };
        if !self.established && conn.is_established() {
            self.established = true;
            log(format!(
                "established alpn={} tp={}",
                String::from_utf8_lossy(conn.application_proto()),
                conn.peer_transport_params().map(|t| dbg(t)).unwrap_or_else(|| "-".into())
            ));
        }
        if !(conn.is_established() || conn.is_in_early_data()) || conn.is_closed() || conn.is_draining() || self.closing {
            return;
        }
        // ---- reads -------------------------------------------------------------------------------
        if now >= self.next_read_at {
            if self.cfg.read_delay_ms > 0 {
                self.next_read_at = now + self.cfg.read_delay_ms * 1000;
            }
            let mut buf = vec![0u8; 65536];
            let readable: Vec<u64> = conn.readable().collect();
            for sid in readable {
                let peer_initiated = (sid & 1 == 1) != self.server;
                if !self.recvs.contains_key(&sid) {
                    let kind = if sid & 2 == 0 { "bidi" } else { "uni" };
                    if peer_initiated {
                        log(format!("open {sid} peer-{kind}"));
                    }
                    // data flowing towards quiche was written by the s2n side: key space of s2n's role
                    self.recvs.insert(sid, RecvSt { key: cfg::stream_key(self.cfg.seed, sid, !self.server), off: 0, fin: false });
                    if peer_initiated && sid & 2 == 0 && !self.sends.contains_key(&sid) {
                        // answer a peer-initiated bidirectional stream with quiche's own keyed stream
                        let size = stream_size(&self.cfg, sid, 0x5b);
                        self.sends.insert(
                            sid,
                            SendSt {
                                key: cfg::stream_key(self.cfg.seed, sid, self.server),
                                size,
                                off: 0,
                                fin: false,
                                opened: true,
                                kind: "bidi",
                                rng: Rng(cfg::mix(self.cfg.seed ^ 0x78 ^ sid)),
                                pending: 0,
                            },
                        );
                    }
                }
                let st = self.recvs.get_mut(&sid).unwrap();
                loop {
                    match conn.stream_recv(sid, &mut buf) {
                        Ok((n, fin)) => {
                            if n > 0 {
                                let mut bad = None;
                                for (j, b) in buf[..n].iter().enumerate() {
                                    if *b != cfg::payload_byte(st.key, st.off + j as u64) {
                                        bad = Some(st.off + j as u64);
                                        break;
                                    }
                                }
                                match bad {
                                    None => log(format!("read {sid} {} {n} ok", st.off)),
                                    Some(p) => log(format!("read {sid} {} {n} BAD {p}", st.off)),
                                }
                                st.off += n as u64;
                            }
                            if fin {
                                st.fin = true;
                                log(format!("eof {sid} {}", st.off));
                                break;
                            }
                            if n == 0 {
                                break;
                            }
                        }
                        Err(quiche::Error::Done) => break,
                        Err(e) => {
                            log(format!("err {sid} stream_recv {}", dbg(&e)));
                            st.fin = true;
                            break;
                        }
                    }
                }
            }
        }
        // ---- writes ------------------------------------------------------------------------------
        let chunk_max = self.cfg.chunk.max(1);
        for (&sid, st) in self.sends.iter_mut() {
            if st.fin {
                continue;
            }
            if !st.opened {
                let left = if sid & 2 == 0 { conn.peer_streams_left_bidi() } else { conn.peer_streams_left_uni() };
                if left == 0 {
                    // stream ids must be used in order: later streams of this type wait as well
                    continue;
                }
            }
            loop {
                if st.pending == 0 {
                    st.pending = (1 + st.rng.below(chunk_max)).min(st.size - st.off) as usize;
                }
                let last = st.off + st.pending as u64 == st.size;
                let data = cfg::payload(st.key, st.off, st.pending);
                match conn.stream_send(sid, &data, last) {
                    Ok(n) => {
                        if !st.opened {
                            st.opened = true;
                            log(format!("open {sid} {}", st.kind));
                        }
                        if n > 0 {
                            log(format!("write {sid} {} {n}", st.off));
                        }
                        st.off += n as u64;
                        st.pending -= n;
                        if st.pending == 0 && last {
                            st.fin = true;
                            log(format!("finish {sid} {}", st.off));
                            break;
                        }
                        if n == 0 && !data.is_empty() {
                            break;
                        }
                    }
                    Err(quiche::Error::Done) => {
                        if !st.opened {
                            // the stream exists now (blocked on flow control)
                            st.opened = true;
                            log(format!("open {sid} {}", st.kind));
                        }
                        break;
                    }
                    Err(quiche::Error::StreamLimit) => break,
                    Err(e) => {
                        log(format!("err {sid} stream_send {}", dbg(&e)));
                        st.fin = true;
                        break;
                    }
                }
            }
        }
    }

    fn flush(&mut self) {
        let Some(conn) = self.conn.as_mut() else { return };
        let mut out = vec![0u8; 65535];
        loop {
            match conn.send(&mut out) {
                Ok((n, info)) => {
                    if let Err(e) = self.socket.send_to(info.to, ExplicitCongestionNotification::NotEct, out[..n].to_vec()) {
                        log(format!("err - send_to {e}"));
                        break;
                    }
                }
                Err(quiche::Error::Done) => break,
                Err(e) => {
                    log(format!("err - send {}", dbg(&e)));
                    break;
                }
            }
        }
    }

    fn log_closed(&self) {
        let Some(conn) = self.conn.as_ref() else {
            log("closed established=0 timed_out=0 local_error=none peer_error=none stats=no-connection".into());
            return;
        };
        let s = conn.stats();
        log(format!(
            "closed established={} timed_out={} local_error={} peer_error={} stats=sent:{},recv:{},lost:{},retrans:{},sent_bytes:{},recv_bytes:{}",
            self.established as u8,
            conn.is_timed_out() as u8,
            err_str(conn.local_error()),
            err_str(conn.peer_error()),
            s.sent,
            s.recv,
            s.lost,
            s.retrans,
            s.sent_bytes,
            s.recv_bytes,
        ));
    }
}

/// wait for the next datagram, but no longer than `max`
async fn wait(socket: &Socket, max: Duration) -> Option<(SocketAddr, Vec<u8>)> {
    let mut timer = io::time::delay(max);
    futures::future::poll_fn(|cx| {
        if let Poll::Ready(r) = socket.poll_recv_from(cx) {
            return Poll::Ready(r.ok().map(|(from, _ecn, payload)| (from, payload)));
        }
        match Pin::new(&mut timer).poll(cx) {
            Poll::Ready(()) => Poll::Ready(None),
            Poll::Pending => Poll::Pending,
        }
    })
    .await
}

async fn run(mut d: Driver, server_addr: Option<SocketAddr>) {
    clock::sync();
    log(format!("config {} {:?}", if d.server { "server" } else { "client" }, d.cfg.q));
    if let Some(addr) = server_addr {
        let scid = d.new_cid();
        let scid = quiche::ConnectionId::from_vec(scid);
        match quiche::connect(Some("localhost"), &scid, d.local, addr, &mut d.config) {
            Ok(c) => d.conn = Some(c),
            Err(e) => {
                log(format!("err - connect {}", dbg(&e)));
                d.log_closed();
                return;
            }
        }
    }
    let mut abandoned_at: Option<u64> = None;
    loop {
        let now = clock::sync();
        if let Some(conn) = d.conn.as_mut() {
            conn.on_timeout();
        }
        while let Ok(Some((from, _ecn, payload))) = d.socket.try_recv_from() {
            d.on_datagram(from, payload);
        }
        d.pump_app();
        if !d.done_logged && d.quiche_done() {
            d.done_logged = true;
            log("done".into());
        }
        // harness-level termination: when both applications have everything, quiche (as the client)
        // closes with application error code 0
        if d.done_logged && d.s2n_done() && d.close_at.is_none() && !d.closing {
            d.close_at = Some(now + (2 * d.cfg.delay_ms + 2 * d.cfg.jitter_ms + 20) * 1000);
        }
        if let Some(at) = d.close_at {
            if now >= at && !d.closing {
                d.closing = true;
                log("app-close".into());
                if let Some(conn) = d.conn.as_mut() {
                    if let Err(e) = conn.close(true, 0, b"done") {
                        log(format!("err - close {}", dbg(&e)));
                    }
                }
            }
        }
        d.flush();
        if let Some(conn) = d.conn.as_ref() {
            if conn.is_closed() {
                break;
            }
        }
        // the s2n client is gone and quiche has no connection / will not notice: do not wait forever
        if d.server && app::S2N_CLIENT_FINISHED.load(Ordering::Relaxed) {
            let at = *abandoned_at.get_or_insert(now + 5_000_000);
            if d.conn.is_none() || now >= at {
                log("abandoned".into());
                break;
            }
        }
        let mut max = Duration::from_millis(20);
        if let Some(t) = d.conn.as_ref().and_then(|c| c.timeout()) {
            max = max.min(t.max(Duration::from_micros(1)));
        }
        if let Some(at) = d.close_at {
            if !d.closing {
                max = max.min(Duration::from_micros(at.saturating_sub(now).max(1)));
            }
        }
        if let Some((from, payload)) = wait(&d.socket, max).await {
            clock::sync();
            d.on_datagram(from, payload);
        }
    }
    d.log_closed();
}

pub fn start_client(socket: Socket, server_addr: SocketAddr, cfg: Cfg) -> Result<()> {
    let d = Driver::new(cfg, false, socket).map_err(std::io::Error::other)?;
    primary::spawn(run(d, Some(server_addr)));
    Ok(())
}

pub fn start_server(socket: Socket, cfg: Cfg) -> Result<()> {
    let d = Driver::new(cfg, true, socket).map_err(std::io::Error::other)?;
    primary::spawn(run(d, None));
    Ok(())
}
