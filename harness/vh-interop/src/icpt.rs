//! packet interceptor (harness/vh-e2e/src/icpt.rs without the attacker role): records the cleartext
//! payload of every packet the s2n-quic endpoint sends / processes
//!   txp <t_us> <c|s> <conn> <space> <pn> <hex>
//!   rxp <t_us> <c|s> <conn> <space> <pn> <hex>
use crate::{cfg::Cfg, trace};
use s2n_codec::DecoderBufferMut;
use s2n_quic_core::event::api::Subject;
use s2n_quic_core::packet::interceptor::{Interceptor, Packet};
use s2n_quic_core::packet::number::PacketNumberSpace;

pub struct Icpt {
    pub ep: &'static str,
    pub payloads: bool,
}

impl Icpt {
    pub fn new(ep: &'static str, cfg: &Cfg) -> Self {
        Self { ep, payloads: cfg.payloads }
    }
}

fn conn(subject: &Subject) -> String {
    match subject {
        Subject::Connection { id, .. } => id.to_string(),
        _ => "-".into(),
    }
}

fn space(s: PacketNumberSpace) -> &'static str {
    match s {
        PacketNumberSpace::Initial => "initial",
        PacketNumberSpace::Handshake => "handshake",
        PacketNumberSpace::ApplicationData => "app",
    }
}

impl Interceptor for Icpt {
    fn intercept_rx_payload<'a>(&mut self, subject: &Subject, packet: &Packet, payload: DecoderBufferMut<'a>) -> DecoderBufferMut<'a> {
        let bytes = payload.into_less_safe_slice();
        if self.payloads {
            trace::line(format!(
                "rxp {} {} {} {} {} {}",
                trace::now(),
                self.ep,
                conn(subject),
                space(packet.number.space()),
                packet.number.as_u64(),
                trace::hex(bytes)
            ));
        }
        DecoderBufferMut::new(bytes)
    }

    fn intercept_tx_payload(&mut self, subject: &Subject, packet: &Packet, payload: &mut s2n_codec::encoder::scatter::Buffer) {
        if self.payloads {
            let buf = payload.flatten();
            let bytes = buf.as_mut_slice();
            trace::line(format!(
                "txp {} {} {} {} {} {}",
                trace::now(),
                self.ep,
                conn(subject),
                space(packet.number.space()),
                packet.number.as_u64(),
                trace::hex(bytes)
            ));
        }
    }
}
