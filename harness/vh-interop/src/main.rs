//! vh-interop: runs ONE deterministic interoperability scenario — a real s2n-quic endpoint (server or
//! client) against cloudflare quiche 0.29 (the independent RFC 9000/9001 implementation vendored in the
//! cargo registry as a dependency of quic/s2n-quic-tests) on the repo's simulated IO provider, through the
//! adversarial network of harness/vh-e2e — and prints a trace (one event per line) on stdout.
//! Line formats: `cfg`, `app`, `txp`, `rxp`, `ev`, `wire`, `end` as in vh-e2e (DESIGN.md §2.2, tie T);
//! `peer …` lines are quiche's view (see peer.rs); `clock virtual=ok` reports that quiche's
//! `Instant::now()` follows the virtual clock (clock.rs).
//!
//! usage: vh-interop role=s2n-server|s2n-client key=value ...      (see `Cfg`)
mod app;
mod cfg;
mod clock;
mod icpt;
mod net;
mod peer;
mod sub;
mod trace;

use cfg::Cfg;
use s2n_quic::provider::io::testing as io;
use std::panic::{catch_unwind, AssertUnwindSafe};

fn main() {
    let args: Vec<String> = std::env::args().skip(1).collect();
    let cfg = match Cfg::parse(&args) {
        Ok(c) => c,
        Err(e) => {
            eprintln!("bad scenario: {e}");
            std::process::exit(2);
        }
    };
    trace::line(format!("cfg {}", cfg.echo()));
    let clock_ok = clock::selftest();
    trace::line(format!("clock virtual={}", if clock_ok { "ok" } else { "BROKEN" }));
    if !clock_ok {
        trace::line("end 0 setup-error the monotonic clock could not be virtualised (quiche timers would run on wall-clock time)".into());
        trace::flush();
        std::process::exit(0);
    }
    std::panic::set_hook(Box::new(|info| {
        let msg = info.to_string().replace('\n', " ");
        trace::line(format!("panic-hook {}", msg.chars().take(300).collect::<String>()));
    }));
    let network = net::Adversary::new(&cfg);
    let c2 = cfg.clone();
    let r = catch_unwind(AssertUnwindSafe(|| {
        io::test_seed(network, cfg.seed, move |handle| app::setup(handle, &c2))
    }));
    match r {
        Ok(Ok(d)) => trace::line(format!("end {} ok", d.as_micros())),
        Ok(Err(e)) => trace::line(format!("end 0 setup-error {}", e.to_string().replace('\n', " "))),
        Err(e) => {
            let msg = if let Some(s) = e.downcast_ref::<String>() {
                s.clone()
            } else if let Some(s) = e.downcast_ref::<&str>() {
                s.to_string()
            } else {
                "?".into()
            };
            trace::line(format!("end {} panic {}", trace::last_time(), msg.replace('\n', " ").chars().take(300).collect::<String>()));
        }
    }
    trace::flush();
    // some tasks may still hold resources; exit hard, the trace is complete
    std::process::exit(0);
}
