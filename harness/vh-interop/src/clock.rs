//! quiche reads `std::time::Instant::now()` directly (timers, RTT samples, idle timeout). The whole
//! scenario runs on the simulated IO provider's VIRTUAL clock, so the process-wide monotonic clock is
//! replaced: this executable defines `clock_gettime`; the statically linked std (and everything else in
//! the executable) resolves to it at link time. CLOCK_MONOTONIC reports BASE + the virtual time last
//! published by `sync()`; every other clock is forwarded to the kernel.
use std::sync::atomic::{AtomicU64, Ordering};

static VIRT_US: AtomicU64 = AtomicU64::new(0);
const BASE_S: i64 = 1_000_000;

/// publish the executor's virtual time (call inside the executor before touching quiche)
pub fn sync() -> u64 {
    let t = crate::trace::now();
    VIRT_US.store(t, Ordering::Relaxed);
    t
}

#[no_mangle]
pub unsafe extern "C" fn clock_gettime(clk: libc::clockid_t, ts: *mut libc::timespec) -> libc::c_int {
    if clk == libc::CLOCK_MONOTONIC && !ts.is_null() {
        let us = VIRT_US.load(Ordering::Relaxed);
        (*ts).tv_sec = BASE_S + (us / 1_000_000) as i64;
        (*ts).tv_nsec = ((us % 1_000_000) * 1000) as i64;
        return 0;
    }
    libc::syscall(libc::SYS_clock_gettime, clk, ts) as libc::c_int
}

/// self-test: `Instant::now()` must follow the published virtual time exactly
pub fn selftest() -> bool {
    let old = VIRT_US.load(Ordering::Relaxed);
    VIRT_US.store(5_000_000, Ordering::Relaxed);
    let a = std::time::Instant::now();
    VIRT_US.store(12_345_678, Ordering::Relaxed);
    let b = std::time::Instant::now();
    VIRT_US.store(old, Ordering::Relaxed);
    b.duration_since(a) == std::time::Duration::from_micros(7_345_678)
}
