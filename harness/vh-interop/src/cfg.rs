//! scenario parameters (`key=value` tokens). Integers only (no floats): rates are per-mille.
//! `s.*` = the s2n-quic endpoint's limits, `q.*` = the quiche endpoint's configuration.
//! (PRNG / keyed payload helpers at the end are the ones of harness/vh-e2e/src/cfg.rs, unchanged.)
#[derive(Clone, Debug, Default)]
pub struct Limits {
    pub data_window: u64,
    pub bidi_local: u64,
    pub bidi_remote: u64,
    pub uni: u64,
    pub max_bidi_remote: u64,
    pub max_uni_remote: u64,
    pub max_bidi_local: u64,
    pub max_uni_local: u64,
    pub max_idle_ms: u64,
    pub max_ack_delay_ms: u64,
    pub send_buffer: u64,
}

/// quiche `Config` knobs (0 = the harness default given in `QCfg::default`)
#[derive(Clone, Debug)]
pub struct QCfg {
    pub data_window: u64,
    pub bidi_local: u64,
    pub bidi_remote: u64,
    pub uni: u64,
    pub max_bidi: u64,
    pub max_uni: u64,
    pub max_idle_ms: u64,
    pub max_ack_delay_ms: u64,
    pub ack_delay_exp: u64,
    pub max_recv_udp: u64,
    pub max_send_udp: u64,
    pub max_conn_window: u64,
    pub max_stream_window: u64,
    pub active_cid_limit: u64,
    pub cid_len: u64,
    pub pmtud: u64,
    pub pacing: u64,
    pub grease: u64,
    pub verify: u64,
    pub cc: String,
}

impl Default for QCfg {
    fn default() -> Self {
        Self {
            data_window: 1_000_000,
            bidi_local: 200_000,
            bidi_remote: 200_000,
            uni: 200_000,
            max_bidi: 100,
            max_uni: 100,
            max_idle_ms: 30_000,
            max_ack_delay_ms: 0,
            ack_delay_exp: 0,
            max_recv_udp: 0,
            max_send_udp: 0,
            max_conn_window: 0,
            max_stream_window: 0,
            active_cid_limit: 0,
            cid_len: 16,
            pmtud: 0,
            pacing: 0,
            grease: 1,
            verify: 1,
            cc: "cubic".into(),
        }
    }
}

#[derive(Clone, Debug)]
pub struct Cfg {
    pub seed: u64,
    /// `s2n-server` (quiche is the client) | `s2n-client` (quiche is the server)
    pub role: String,
    /// directory for the PEM files handed to quiche
    pub certdir: String,
    // network
    pub delay_ms: u64,
    pub jitter_ms: u64,
    pub drop_pm: u64,
    pub dup_pm: u64,
    pub corrupt_pm: u64,
    pub inject_pm: u64,
    pub replay_pm: u64,
    pub net_mtu: usize,
    /// fault prefix: after this virtual time (ms) the network becomes perfect (0 = faults forever)
    pub faults_until_ms: u64,
    /// blackholes: (start_ms, end_ms, dir) dir: 0 both, 1 client->server, 2 server->client
    pub blackholes: Vec<(u64, u64, u8)>,
    // endpoints
    pub s2n: Limits,
    pub q: QCfg,
    pub cc: String,
    pub max_mtu: u16,
    // workload
    pub bidi: u64,
    pub uni: u64,
    pub suni: u64,
    pub size: u64,
    pub chunk: u64,
    pub read_delay_ms: u64,
    /// watchdog: scenario is abandoned at this virtual time
    pub deadline_ms: u64,
    /// record cleartext payloads (hex) in the trace
    pub payloads: bool,
    pub events: bool,
}

impl Default for Cfg {
    fn default() -> Self {
        Self {
            seed: 1,
            role: "s2n-server".into(),
            certdir: String::new(),
            delay_ms: 25,
            jitter_ms: 0,
            drop_pm: 0,
            dup_pm: 0,
            corrupt_pm: 0,
            inject_pm: 0,
            replay_pm: 0,
            net_mtu: 65535,
            faults_until_ms: 0,
            blackholes: vec![],
            s2n: Limits::default(),
            q: QCfg::default(),
            cc: "cubic".into(),
            max_mtu: 0,
            bidi: 1,
            uni: 0,
            suni: 0,
            size: 10_000,
            chunk: 1000,
            read_delay_ms: 0,
            deadline_ms: 600_000,
            payloads: true,
            events: true,
        }
    }
}

fn lim(l: &mut Limits, k: &str, v: u64) -> bool {
    match k {
        "data_window" => l.data_window = v,
        "bidi_local" => l.bidi_local = v,
        "bidi_remote" => l.bidi_remote = v,
        "uni" => l.uni = v,
        "max_bidi_remote" => l.max_bidi_remote = v,
        "max_uni_remote" => l.max_uni_remote = v,
        "max_bidi_local" => l.max_bidi_local = v,
        "max_uni_local" => l.max_uni_local = v,
        "max_idle_ms" => l.max_idle_ms = v,
        "max_ack_delay_ms" => l.max_ack_delay_ms = v,
        "send_buffer" => l.send_buffer = v,
        _ => return false,
    }
    true
}

fn qlim(q: &mut QCfg, k: &str, v: u64) -> bool {
    match k {
        "data_window" => q.data_window = v,
        "bidi_local" => q.bidi_local = v,
        "bidi_remote" => q.bidi_remote = v,
        "uni" => q.uni = v,
        "max_bidi" => q.max_bidi = v,
        "max_uni" => q.max_uni = v,
        "max_idle_ms" => q.max_idle_ms = v,
        "max_ack_delay_ms" => q.max_ack_delay_ms = v,
        "ack_delay_exp" => q.ack_delay_exp = v,
        "max_recv_udp" => q.max_recv_udp = v,
        "max_send_udp" => q.max_send_udp = v,
        "max_conn_window" => q.max_conn_window = v,
        "max_stream_window" => q.max_stream_window = v,
        "active_cid_limit" => q.active_cid_limit = v,
        "cid_len" => q.cid_len = v.min(20),
        "pmtud" => q.pmtud = v,
        "pacing" => q.pacing = v,
        "grease" => q.grease = v,
        "verify" => q.verify = v,
        _ => return false,
    }
    true
}

impl Cfg {
    pub fn parse(args: &[String]) -> Result<Self, String> {
        let mut c = Cfg::default();
        for a in args {
            let (k, v) = a.split_once('=').ok_or_else(|| format!("expected key=value: {a}"))?;
            let n = || v.parse::<u64>().map_err(|_| format!("bad integer for {k}: {v}"));
            if let Some(k2) = k.strip_prefix("s.") {
                if !lim(&mut c.s2n, k2, n()?) {
                    return Err(format!("unknown key {k}"));
                }
                continue;
            }
            if k == "q.cc" {
                c.q.cc = v.to_string();
                continue;
            }
            if let Some(k2) = k.strip_prefix("q.") {
                if !qlim(&mut c.q, k2, n()?) {
                    return Err(format!("unknown key {k}"));
                }
                continue;
            }
            match k {
                "seed" => c.seed = n()?,
                "role" => {
                    if v != "s2n-server" && v != "s2n-client" {
                        return Err(format!("role must be s2n-server|s2n-client: {v}"));
                    }
                    c.role = v.to_string()
                }
                "certdir" => c.certdir = v.to_string(),
                "delay_ms" => c.delay_ms = n()?,
                "jitter_ms" => c.jitter_ms = n()?,
                "drop_pm" => c.drop_pm = n()?,
                "dup_pm" => c.dup_pm = n()?,
                "corrupt_pm" => c.corrupt_pm = n()?,
                "inject_pm" => c.inject_pm = n()?,
                "replay_pm" => c.replay_pm = n()?,
                "net_mtu" => c.net_mtu = n()? as usize,
                "faults_until_ms" => c.faults_until_ms = n()?,
                "bh" => {
                    for part in v.split(',').filter(|p| !p.is_empty()) {
                        let f: Vec<&str> = part.split(':').collect();
                        if f.len() != 3 {
                            return Err(format!("bad blackhole {part}"));
                        }
                        let p = |s: &str| s.parse::<u64>().map_err(|_| format!("bad blackhole {part}"));
                        c.blackholes.push((p(f[0])?, p(f[1])?, p(f[2])? as u8));
                    }
                }
                "cc" => c.cc = v.to_string(),
                "max_mtu" => c.max_mtu = n()? as u16,
                "bidi" => c.bidi = n()?,
                "uni" => c.uni = n()?,
                "suni" => c.suni = n()?,
                "size" => c.size = n()?,
                "chunk" => c.chunk = n()?.max(1),
                "read_delay_ms" => c.read_delay_ms = n()?,
                "deadline_ms" => c.deadline_ms = n()?,
                "payloads" => c.payloads = n()? != 0,
                "events" => c.events = n()? != 0,
                _ => return Err(format!("unknown key {k}")),
            }
        }
        if c.max_mtu != 0 && c.max_mtu < 1228 {
            return Err(format!("max_mtu must be 0 (default) or >= 1228 (s2n-quic's minimum MTU incl. IP/UDP headers): {}", c.max_mtu));
        }
        Ok(c)
    }

    pub fn echo(&self) -> String {
        format!("{self:?}").replace('\n', " ")
    }

    pub fn s2n_is_server(&self) -> bool {
        self.role == "s2n-server"
    }
}

/// splitmix64: the one PRNG / keyed function used everywhere in the harness
pub fn mix(mut z: u64) -> u64 {
    z = z.wrapping_add(0x9e3779b97f4a7c15);
    z = (z ^ (z >> 30)).wrapping_mul(0xbf58476d1ce4e5b9);
    z = (z ^ (z >> 27)).wrapping_mul(0x94d049bb133111eb);
    z ^ (z >> 31)
}

pub struct Rng(pub u64);

impl Rng {
    pub fn next(&mut self) -> u64 {
        self.0 = self.0.wrapping_add(0x9e3779b97f4a7c15);
        mix(self.0)
    }
    pub fn below(&mut self, n: u64) -> u64 {
        if n == 0 {
            0
        } else {
            self.next() % n
        }
    }
    pub fn pm(&mut self, rate_pm: u64) -> bool {
        rate_pm > 0 && self.below(1000) < rate_pm
    }
}

/// keyed, position-dependent payload byte (period 2^64, not 256): byte `i` of the stream with key `k`
pub fn payload_byte(key: u64, i: u64) -> u8 {
    let w = mix(key ^ (i >> 3).wrapping_mul(0xd6e8feb86659fd93));
    (w >> ((i & 7) * 8)) as u8
}

pub fn payload(key: u64, off: u64, len: usize) -> Vec<u8> {
    (0..len as u64).map(|j| payload_byte(key, off + j)).collect()
}

/// the payload key of a stream: both endpoints derive it from the scenario seed and the stream id;
/// server-initiated data uses a different key space
pub fn stream_key(seed: u64, stream_id: u64, from_server: bool) -> u64 {
    mix(seed.wrapping_mul(0x100000001b3) ^ stream_id.wrapping_mul(0x9e3779b97f4a7c15) ^ if from_server { 0x5555 } else { 0 })
}

/// the size of the i-th stream of a kind varies around cfg.size (deterministic; same function as vh-e2e's app.rs)
pub fn stream_size(cfg: &Cfg, i: u64, salt: u64) -> u64 {
    if cfg.size == 0 {
        return 0;
    }
    let mut r = Rng(mix(cfg.seed ^ salt ^ (i << 20)));
    match r.below(4) {
        0 => cfg.size,
        1 => r.below(cfg.size + 1),
        2 => cfg.size / 2 + r.below(cfg.size / 2 + 1),
        _ => (cfg.size + r.below(cfg.size / 4 + 1)).max(1),
    }
}
