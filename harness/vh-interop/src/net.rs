//! Adversarial `Network` for the repo's deterministic IO provider: every decision (drop, duplicate,
//! reorder, corrupt, truncate, MTU-drop, inject garbage, replay old datagrams, blackhole) is drawn
//! from one PRNG seeded by the scenario. Every datagram and what happened to it is traced:
//!   wire <t_us> <src> <dst> <len> <action> <deliver_at_us|-> <first bytes hex>
use crate::{
    cfg::{Cfg, Rng},
    trace,
};
use s2n_quic::provider::io::testing::{
    self as io,
    network::{Buffers, Network, Packet},
};
use std::time::Duration;

pub struct Adversary {
    cfg: Cfg,
    rng: Rng,
    client_addr: Option<String>,
    seen: Vec<Packet>,
    serial: u64,
}

impl Adversary {
    pub fn new(cfg: &Cfg) -> Self {
        Self {
            cfg: cfg.clone(),
            rng: Rng(crate::cfg::mix(cfg.seed ^ 0xadad_adad)),
            client_addr: None,
            seen: vec![],
            serial: 0,
        }
    }

    fn deliver(&self, buffers: &Buffers, mut packet: Packet, now_us: u64, at_us: u64) {
        packet.switch();
        let buffers = buffers.clone();
        io::spawn(async move {
            if at_us > now_us {
                io::time::delay(Duration::from_micros(at_us - now_us)).await;
            }
            buffers.rx(*packet.path.local_address, |queue| {
                queue.enqueue(packet);
            });
        });
    }
}

fn head(p: &[u8]) -> String {
    trace::hex(&p[..p.len().min(48)])
}

impl Network for Adversary {
    fn execute(&mut self, buffers: &Buffers) -> usize {
        let now = trace::now();
        let now_ms = now / 1000;
        let faults = self.cfg.faults_until_ms == 0 || now_ms < self.cfg.faults_until_ms;
        let mut pending = vec![];
        buffers.drain_pending_transmissions(|packet| {
            pending.push(packet);
            Ok(())
        });
        // the simulator drains host queues in HashMap order (random per process); restore determinism:
        // group by sender (FIFO within a sender), order of senders drawn from the scenario PRNG
        pending.sort_by_key(|p: &Packet| format!("{}", p.path.local_address.0));
        if pending.len() > 1 && self.rng.below(2) == 1 {
            let first = format!("{}", pending[0].path.local_address.0);
            let k = pending.iter().position(|p| format!("{}", p.path.local_address.0) != first).unwrap_or(pending.len());
            pending.rotate_left(k);
        }
        let mut count = 0;
        for packet in pending {
            self.serial += 1;
            let src = format!("{}", packet.path.local_address.0);
            let dst = format!("{}", packet.path.remote_address.0);
            if self.client_addr.is_none() {
                self.client_addr = Some(src.clone());
            }
            let c2s = self.client_addr.as_deref() == Some(src.as_str());
            let len = packet.payload.len();
            let hd = head(&packet.payload);
            let log = |action: &str, at: Option<u64>| {
                trace::line(format!(
                    "wire {now} {src} {dst} {len} {action} {} {hd}",
                    at.map(|a| a.to_string()).unwrap_or_else(|| "-".into())
                ));
            };
            // blackholes apply even after the fault prefix ended only if they say so explicitly
            let bh = self.cfg.blackholes.iter().any(|(s, e, d)| {
                now_ms >= *s && now_ms < *e && (*d == 0 || (*d == 1 && c2s) || (*d == 2 && !c2s))
            });
            if bh {
                log("blackhole", None);
                continue;
            }
            if len > self.cfg.net_mtu {
                log("mtu-drop", None);
                continue;
            }
            if self.seen.len() < 64 {
                self.seen.push(packet.clone());
            } else {
                let k = self.rng.below(64) as usize;
                self.seen[k] = packet.clone();
            }
            let base = now + self.cfg.delay_ms * 1000;
            if !faults {
                log("deliver", Some(base));
                self.deliver(buffers, packet, now, base);
                count += 1;
                continue;
            }
            if self.rng.pm(self.cfg.drop_pm) {
                log("drop", None);
                continue;
            }
            let jitter = |rng: &mut Rng, cfg: &Cfg| {
                if cfg.jitter_ms == 0 {
                    0
                } else {
                    rng.below(cfg.jitter_ms + 1) * 1000
                }
            };
            if self.rng.pm(self.cfg.dup_pm) {
                let at = base + jitter(&mut self.rng, &self.cfg);
                log("dup", Some(at));
                self.deliver(buffers, packet.clone(), now, at);
                count += 1;
            }
            let mut packet = packet;
            let mut action = "deliver";
            if !packet.payload.is_empty() && self.rng.pm(self.cfg.corrupt_pm) {
                match self.rng.below(3) {
                    0 => {
                        // flip 1..3 bits
                        for _ in 0..=self.rng.below(3) {
                            let i = self.rng.below(packet.payload.len() as u64) as usize;
                            packet.payload[i] ^= 1 << self.rng.below(8);
                        }
                        action = "corrupt-flip";
                    }
                    1 => {
                        let n = self.rng.below(packet.payload.len() as u64) as usize;
                        packet.payload.truncate(n.max(1));
                        action = "corrupt-truncate";
                    }
                    _ => {
                        // splice: tail of another datagram
                        if let Some(o) = self.seen.get(self.rng.below(self.seen.len() as u64) as usize) {
                            let cut = self.rng.below(packet.payload.len() as u64) as usize;
                            let ocut = self.rng.below(o.payload.len().max(1) as u64) as usize;
                            packet.payload.truncate(cut.max(1));
                            packet.payload.extend_from_slice(&o.payload[ocut.min(o.payload.len())..]);
                            packet.payload.truncate(self.cfg.net_mtu.min(65000));
                        }
                        action = "corrupt-splice";
                    }
                }
            }
            let at = base + jitter(&mut self.rng, &self.cfg);
            trace::line(format!(
                "wire {now} {src} {dst} {} {action} {at} {}",
                packet.payload.len(),
                head(&packet.payload)
            ));
            self.deliver(buffers, packet, now, at);
            count += 1;
        }
        // injections happen only while datagrams flow (keeps the executor's stall logic intact)
        if faults && count > 0 && !self.seen.is_empty() {
            if self.rng.pm(self.cfg.replay_pm) {
                let k = self.rng.below(self.seen.len() as u64) as usize;
                let p = self.seen[k].clone();
                let at = now + self.cfg.delay_ms * 1000 + self.rng.below(200_000);
                trace::line(format!(
                    "wire {now} {} {} {} replay {at} {}",
                    p.path.local_address.0,
                    p.path.remote_address.0,
                    p.payload.len(),
                    head(&p.payload)
                ));
                self.deliver(buffers, p, now, at);
                count += 1;
            }
            if self.rng.pm(self.cfg.inject_pm) {
                let k = self.rng.below(self.seen.len() as u64) as usize;
                let mut p = self.seen[k].clone();
                // forged datagram: same addresses, attacker-chosen bytes keeping the first byte / CID
                // prefix of a genuine datagram so that it is routed to the connection
                let keep = (self.rng.below(24) as usize).min(p.payload.len());
                let newlen = 20 + self.rng.below(1200) as usize;
                let mut bytes: Vec<u8> = p.payload[..keep].to_vec();
                while bytes.len() < newlen {
                    bytes.push(self.rng.next() as u8);
                }
                p.payload = bytes;
                let at = now + self.cfg.delay_ms * 1000;
                trace::line(format!(
                    "wire {now} {} {} {} inject {at} {}",
                    p.path.local_address.0,
                    p.path.remote_address.0,
                    p.payload.len(),
                    head(&p.payload)
                ));
                self.deliver(buffers, p, now, at);
                count += 1;
            }
        }
        count
    }
}
