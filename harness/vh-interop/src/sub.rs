//! event subscriber: selected events are traced with their Debug rendering:
//!   ev <t_us> <c|s> <conn id> <event name> <debug text>
use crate::trace;
use s2n_quic::provider::event::{self, events, ConnectionInfo, ConnectionMeta, Event, Meta};

pub struct Sub {
    pub enabled: bool,
}

const WANTED: &[&str] = &[
    "transport:packet_sent",
    "transport:packet_received",
    "transport:packet_skipped",
    "recovery:packet_lost",
    "recovery:metrics_updated",
    "recovery:congestion",
    "recovery:ack_range_received",
    "recovery:ack_range_sent",
    "transport:packet_dropped",
    "transport:duplicate_packet",
    "security:key_update",
    "security:key_space_discarded",
    "connectivity:connection_started",
    "connectivity:connection_closed",
    "transport:transport_parameters_received",
    "transport:datagram_dropped",
    "connectivity:handshake_status_updated",
    "connectivity:active_path_updated",
    "connectivity:path_created",
    "connectivity:mtu_updated",
    "recovery:slow_start_exited",
    "transport:connection_id_updated",
    "transport:rx_ack_range_dropped",
    "transport:endpoint_datagram_dropped",
    "transport:endpoint_packet_sent",
    "transport:endpoint_packet_received",
    "transport:version_information",
    "connectivity:ecn_state_changed",
    "connectivity:connection_migration_denied",
    "recovery:pto_timer_updated",
];

fn ep(meta: &dyn core::fmt::Debug) -> &'static str {
    let s = format!("{meta:?}");
    if s.contains("Client") {
        "c"
    } else {
        "s"
    }
}

impl event::Subscriber for Sub {
    type ConnectionContext = ();

    fn create_connection_context(&mut self, _meta: &ConnectionMeta, _info: &ConnectionInfo) -> Self::ConnectionContext {}

    fn on_connection_event<E: Event>(&mut self, _ctx: &mut Self::ConnectionContext, meta: &ConnectionMeta, event: &E) {
        if !self.enabled || !WANTED.contains(&E::NAME) {
            return;
        }
        let t = trace::now();
        let txt = format!("{event:?}").replace('\n', " ");
        trace::line(format!("ev {t} {} {} {} {txt}", ep(&meta.endpoint_type), meta.id, E::NAME));
    }

    fn on_event<M: Meta, E: Event>(&mut self, meta: &M, event: &E) {
        // endpoint-level events only (connection events are reported above)
        if !self.enabled || !E::NAME.contains("endpoint") {
            return;
        }
        if !WANTED.contains(&E::NAME) {
            return;
        }
        let t = trace::now();
        let txt = format!("{event:?}").replace('\n', " ");
        trace::line(format!("ev {t} {} - {} {txt}", ep(meta.endpoint_type()), E::NAME));
    }
}

#[allow(dead_code)]
fn _unused(_: events::PacketSent) {}
