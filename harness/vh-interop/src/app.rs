//! the s2n-quic side: a real `s2n_quic::Server` or `s2n_quic::Client` on the simulated IO provider
//! (workload and trace lines are those of harness/vh-e2e/src/app.rs; the other side is quiche, see peer.rs).
//! Trace lines (virtual time in µs, endpoint c|s = the role s2n-quic plays):
//!   app <t> <ep> open <sid> <kind>
//!   app <t> <ep> write <sid> <off> <len>          (send() resolved Ok)
//!   app <t> <ep> finish <sid> <total>            (close() resolved Ok: FIN acknowledged)
//!   app <t> <ep> read <sid> <off> <len> ok|BAD <first mismatch offset>
//!   app <t> <ep> eof <sid> <total>
//!   app <t> <ep> err <sid|-> <where> <debug of the error>
//!   app <t> <ep> connected <conn id> / accepted <conn id> / conn-closed / done / app-close
use crate::{
    cfg::{self, stream_size, Cfg, Limits, Rng},
    icpt::Icpt,
    peer,
    sub::Sub,
    trace,
};
use bytes::Bytes;
use s2n_quic::{
    client::Connect,
    provider::{
        congestion_controller::{Bbr, Cubic},
        io::testing::{self as io, primary, spawn, Handle, Result},
        limits,
    },
    stream::{PeerStream, ReceiveStream, SendStream},
    Client, Server,
};
use s2n_quic_core::crypto::tls::testing::certificates;
use std::sync::atomic::{AtomicBool, AtomicU64, Ordering};
use std::time::Duration;

/// harness-level completion flags shared with the quiche driver (both endpoints live in one process)
pub static S2N_EOFS: AtomicU64 = AtomicU64::new(0);
pub static S2N_FINS: AtomicU64 = AtomicU64::new(0);
pub static S2N_CLIENT_FINISHED: AtomicBool = AtomicBool::new(false);

fn log(ep: &str, s: String) {
    trace::line(format!("app {} {ep} {s}", trace::now()));
}

fn dbg<E: core::fmt::Debug>(e: &E) -> String {
    format!("{e:?}").replace('\n', " ").chars().take(300).collect()
}

fn mk_limits(l: &Limits) -> limits::Limits {
    let mut v = limits::Limits::new();
    macro_rules! set {
        ($field:ident, $setter:ident) => {
            if l.$field > 0 {
                v = v.$setter(l.$field).expect(stringify!($setter));
            }
        };
    }
    set!(data_window, with_data_window);
    set!(bidi_local, with_bidirectional_local_data_window);
    set!(bidi_remote, with_bidirectional_remote_data_window);
    set!(uni, with_unidirectional_data_window);
    set!(max_bidi_remote, with_max_open_remote_bidirectional_streams);
    set!(max_uni_remote, with_max_open_remote_unidirectional_streams);
    set!(max_bidi_local, with_max_open_local_bidirectional_streams);
    set!(max_uni_local, with_max_open_local_unidirectional_streams);
    if l.max_idle_ms > 0 {
        v = v.with_max_idle_timeout(Duration::from_millis(l.max_idle_ms)).expect("idle");
    }
    if l.max_ack_delay_ms > 0 {
        v = v.with_max_ack_delay(Duration::from_millis(l.max_ack_delay_ms)).expect("ack delay");
    }
    if l.send_buffer > 0 {
        v = v.with_max_send_buffer_size(l.send_buffer as u32).expect("send buffer");
    }
    v
}

pub struct Random(Rng);

impl s2n_quic::provider::random::Provider for Random {
    type Generator = Self;
    type Error = core::convert::Infallible;
    fn start(self) -> core::result::Result<Self::Generator, Self::Error> {
        Ok(self)
    }
}

impl s2n_quic::provider::random::Generator for Random {
    fn public_random_fill(&mut self, dest: &mut [u8]) {
        for b in dest {
            *b = self.0.next() as u8;
        }
    }
    fn private_random_fill(&mut self, dest: &mut [u8]) {
        for b in dest {
            *b = self.0.next() as u8;
        }
    }
}

macro_rules! build {
    ($builder:expr, $handle:expr, $cfg:expr, $ep:expr, $lim:expr, $tls:expr, $salt:expr) => {{
        let mut io = $handle.builder();
        if $cfg.max_mtu > 0 {
            io = io.with_max_mtu($cfg.max_mtu);
        }
        let b = $builder
            .with_io(io.build()?)?
            .with_tls($tls)?
            .with_event(Sub { enabled: $cfg.events })?
            .with_random(Random(Rng(cfg::mix($cfg.seed ^ $salt))))?
            .with_limits(mk_limits($lim))?
            .with_packet_interceptor(Icpt::new($ep, $cfg))?;
        if $cfg.cc == "bbr" {
            b.with_congestion_controller(Bbr::default())?.start()?
        } else {
            b.with_congestion_controller(Cubic::default())?.start()?
        }
    }};
}

pub fn setup(handle: &Handle, cfg: &Cfg) -> Result<()> {
    if cfg.s2n_is_server() {
        let server: Server = build!(
            Server::builder(),
            handle,
            cfg,
            "s",
            &cfg.s2n,
            (certificates::CERT_PEM, certificates::KEY_PEM),
            0x5e
        );
        let addr = start_server(server, cfg.clone())?;
        let socket = handle.builder().build()?.socket();
        peer::start_client(socket, addr, cfg.clone())?;
    } else {
        // build the s2n-quic endpoint first: a panic in its builders must not leave a quiche task behind
        let client: Client = build!(Client::builder(), handle, cfg, "c", &cfg.s2n, certificates::CERT_PEM, 0xc1);
        let socket = handle.builder().build()?.socket();
        let addr = socket.local_addr()?;
        peer::start_server(socket, cfg.clone())?;
        start_client(client, addr, cfg.clone());
    }
    // watchdog: give up at the deadline (reported, so that "never terminates" is observable)
    let deadline = cfg.deadline_ms;
    spawn(async move {
        io::time::delay(Duration::from_millis(deadline)).await;
        if trace::now() < deadline * 1000 {
            // the executor is shutting down (all primary tasks finished): not a deadline
            return;
        }
        trace::line(format!("end {} deadline", trace::now()));
        trace::flush();
        std::process::exit(0);
    });
    Ok(())
}

/// reads a receive stream to the end, verifying every byte against the keyed payload
async fn read_all(ep: &'static str, mut recv: ReceiveStream, key: u64, cfg: Cfg) {
    let sid: u64 = recv.id().into();
    let mut off = 0u64;
    loop {
        if cfg.read_delay_ms > 0 {
            io::time::delay(Duration::from_millis(cfg.read_delay_ms)).await;
        }
        match recv.receive().await {
            Ok(Some(chunk)) => {
                let mut bad = None;
                for (j, b) in chunk.iter().enumerate() {
                    if *b != cfg::payload_byte(key, off + j as u64) {
                        bad = Some(off + j as u64);
                        break;
                    }
                }
                match bad {
                    None => log(ep, format!("read {sid} {off} {} ok", chunk.len())),
                    Some(p) => log(ep, format!("read {sid} {off} {} BAD {p}", chunk.len())),
                }
                off += chunk.len() as u64;
            }
            Ok(None) => {
                log(ep, format!("eof {sid} {off}"));
                S2N_EOFS.fetch_add(1, Ordering::Relaxed);
                return;
            }
            Err(e) => {
                log(ep, format!("err {sid} receive {}", dbg(&e)));
                return;
            }
        }
    }
}

/// writes `size` keyed bytes in chunks drawn from the scenario PRNG, then finishes
async fn write_all(ep: &'static str, mut send: SendStream, key: u64, size: u64, cfg: Cfg, salt: u64) {
    let sid: u64 = send.id().into();
    let mut rng = Rng(cfg::mix(cfg.seed ^ salt ^ sid));
    let mut off = 0u64;
    while off < size {
        let max = cfg.chunk.max(1);
        let n = (1 + rng.below(max)).min(size - off) as usize;
        let data = Bytes::from(cfg::payload(key, off, n));
        match send.send(data).await {
            Ok(()) => log(ep, format!("write {sid} {off} {n}")),
            Err(e) => {
                log(ep, format!("err {sid} send {}", dbg(&e)));
                return;
            }
        }
        off += n as u64;
    }
    match send.close().await {
        Ok(()) => {
            log(ep, format!("finish {sid} {off}"));
            S2N_FINS.fetch_add(1, Ordering::Relaxed);
        }
        Err(e) => log(ep, format!("err {sid} close {}", dbg(&e))),
    }
}

fn start_server(mut server: Server, cfg: Cfg) -> Result<std::net::SocketAddr> {
    let addr = server.local_addr()?;
    spawn(async move {
        while let Some(mut connection) = server.accept().await {
            log("s", format!("accepted {}", connection.id()));
            let cfg = cfg.clone();
            // server-initiated unidirectional streams carrying keyed data
            let handle = connection.handle();
            for i in 0..cfg.suni {
                let mut h = handle.clone();
                let cfg = cfg.clone();
                spawn(async move {
                    match h.open_send_stream().await {
                        Ok(send) => {
                            let sid: u64 = send.id().into();
                            log("s", format!("open {sid} uni"));
                            let key = cfg::stream_key(cfg.seed, sid, true);
                            let size = stream_size(&cfg, i, 0x53);
                            write_all("s", send, key, size, cfg, 0x77).await;
                        }
                        Err(e) => log("s", format!("err - open_send_stream {}", dbg(&e))),
                    }
                });
            }
            spawn(async move {
                loop {
                    match connection.accept().await {
                        Ok(Some(stream)) => {
                            let cfg = cfg.clone();
                            match stream {
                                PeerStream::Receive(recv) => {
                                    let sid: u64 = recv.id().into();
                                    log("s", format!("open {sid} peer-uni"));
                                    let key = cfg::stream_key(cfg.seed, sid, false);
                                    spawn(read_all("s", recv, key, cfg));
                                }
                                PeerStream::Bidirectional(stream) => {
                                    let sid: u64 = stream.id().into();
                                    log("s", format!("open {sid} peer-bidi"));
                                    let (recv, send) = stream.split();
                                    // the server verifies the client's bytes and answers with its own
                                    // keyed stream of the same length class
                                    let key_in = cfg::stream_key(cfg.seed, sid, false);
                                    let key_out = cfg::stream_key(cfg.seed, sid, true);
                                    let size = stream_size(&cfg, sid, 0x5b);
                                    spawn(read_all("s", recv, key_in, cfg.clone()));
                                    spawn(write_all("s", send, key_out, size, cfg, 0x78));
                                }
                            }
                        }
                        Ok(None) => {
                            log("s", "conn-closed".to_string());
                            break;
                        }
                        Err(e) => {
                            log("s", format!("err - accept {}", dbg(&e)));
                            break;
                        }
                    }
                }
            });
        }
    });
    Ok(addr)
}

fn start_client(client: Client, addr: std::net::SocketAddr, cfg: Cfg) {
    primary::spawn(async move {
        let connect = Connect::new(addr).with_server_name("localhost");
        let mut connection = match client.connect(connect).await {
            Ok(c) => c,
            Err(e) => {
                log("c", format!("err - connect {}", dbg(&e)));
                log("c", "done".to_string());
                S2N_CLIENT_FINISHED.store(true, Ordering::Relaxed);
                return;
            }
        };
        log("c", format!("connected {}", connection.id()));
        let mut tasks = vec![];
        let handle = connection.handle();
        for i in 0..cfg.bidi {
            let mut h = handle.clone();
            let cfg = cfg.clone();
            tasks.push(primary::spawn(async move {
                match h.open_bidirectional_stream().await {
                    Ok(stream) => {
                        let sid: u64 = stream.id().into();
                        log("c", format!("open {sid} bidi"));
                        let (recv, send) = stream.split();
                        let key_out = cfg::stream_key(cfg.seed, sid, false);
                        let key_in = cfg::stream_key(cfg.seed, sid, true);
                        let size = stream_size(&cfg, i, 0xb1);
                        let r = primary::spawn(read_all("c", recv, key_in, cfg.clone()));
                        write_all("c", send, key_out, size, cfg, 0x79).await;
                        let _ = r.await;
                    }
                    Err(e) => log("c", format!("err - open_bidirectional_stream {}", dbg(&e))),
                }
            }));
        }
        for i in 0..cfg.uni {
            let mut h = handle.clone();
            let cfg = cfg.clone();
            tasks.push(primary::spawn(async move {
                match h.open_send_stream().await {
                    Ok(send) => {
                        let sid: u64 = send.id().into();
                        log("c", format!("open {sid} uni"));
                        let key = cfg::stream_key(cfg.seed, sid, false);
                        let size = stream_size(&cfg, i, 0xa1);
                        write_all("c", send, key, size, cfg, 0x7a).await;
                    }
                    Err(e) => log("c", format!("err - open_send_stream {}", dbg(&e))),
                }
            }));
        }
        // server-initiated streams
        let cfg2 = cfg.clone();
        let expect_suni = cfg.suni;
        if expect_suni > 0 {
            tasks.push(primary::spawn(async move {
                let mut got = 0;
                let mut readers = vec![];
                while got < expect_suni {
                    match connection.accept_receive_stream().await {
                        Ok(Some(recv)) => {
                            got += 1;
                            let sid: u64 = recv.id().into();
                            log("c", format!("open {sid} peer-uni"));
                            let key = cfg::stream_key(cfg2.seed, sid, true);
                            readers.push(primary::spawn(read_all("c", recv, key, cfg2.clone())));
                        }
                        Ok(None) => break,
                        Err(e) => {
                            log("c", format!("err - accept_receive_stream {}", dbg(&e)));
                            break;
                        }
                    }
                }
                for r in readers {
                    let _ = r.await;
                }
            }));
        }
        for t in tasks {
            let _ = t.await;
        }
        log("c", "done".to_string());
        // every s2n stream is finished (FIN acknowledged) and every quiche stream was read to EOF:
        // let quiche's application drain what it has, then close with application code 0
        io::time::delay(Duration::from_millis(2 * cfg.delay_ms + 2 * cfg.jitter_ms + 20)).await;
        log("c", "app-close".to_string());
        handle.close(0u32.into());
        S2N_CLIENT_FINISHED.store(true, Ordering::Relaxed);
        // linger so that the CONNECTION_CLOSE reaches quiche and is observed there
        io::time::delay(Duration::from_millis(3 * cfg.delay_ms + 3 * cfg.jitter_ms + 50)).await;
    });
}
