// Replay of `Quic.Proofs.C02.open_waiter_lost_wakeup_counterexample` on the REAL `stream::Controller`
// (`LocalInitiated::poll_open_stream` / `wake_unblocked`).  Not part of /repo: append this module to
// quic/s2n-quic-transport/src/stream/controller.rs of a scratch copy and run
//   cargo test -p s2n-quic-transport --offline verif_open_waiter_lost_wakeup -- --nocapture
// The test PASSES when the defect is present (it asserts the lost wake-up).
#[cfg(test)]
mod verif_open_waiter {
    use super::*;
    use futures_test::task::new_count_waker;

    #[test]
    fn verif_open_waiter_lost_wakeup() {
        let mut peer = InitialFlowControlLimits::default();
        peer.max_open_remote_bidirectional_streams = VarInt::from_u8(1); // peer limit 1
        let local = InitialFlowControlLimits::default();
        let mut c = Controller::new(
            endpoint::Type::Client,
            peer,
            local,
            stream::Limits::default(),
            core::time::Duration::from_millis(100),
        );
        let ty = StreamType::Bidirectional;
        let max = |n: u8| MaxStreams { stream_type: ty, maximum_streams: VarInt::from_u8(n) };

        // three tasks with their own connection handles (= their own open tokens)
        let (w0, _n0) = new_count_waker();
        let (wa, na) = new_count_waker();
        let (wb, nb) = new_count_waker();
        let mut t0 = connection::OpenToken::new();
        let mut ta = connection::OpenToken::new();
        let mut tb = connection::OpenToken::new();

        // 1. a stream is opened: capacity 0
        assert!(c.poll_open_local_stream(ty, &mut t0, &Context::from_waker(&w0)).is_ready());
        // 2./3. A and B park
        assert!(c.poll_open_local_stream(ty, &mut ta, &Context::from_waker(&wa)).is_pending());
        assert!(c.poll_open_local_stream(ty, &mut tb, &Context::from_waker(&wb)).is_pending());
        // 4. MAX_STREAMS 2: capacity 1, A is woken
        c.on_max_streams(&max(2));
        assert_eq!((na.get(), nb.get()), (1, 0));
        // 5. B polls before A runs (unrelated wake-up of its task): Ready, B opens the stream
        assert!(c.poll_open_local_stream(ty, &mut tb, &Context::from_waker(&wb)).is_ready());
        // 6. A runs: no capacity, parks again
        assert!(c.poll_open_local_stream(ty, &mut ta, &Context::from_waker(&wa)).is_pending());
        // 7. MAX_STREAMS 3: capacity 1 again
        c.on_max_streams(&max(3));
        assert_eq!(c.available_local_initiated_stream_capacity(ty), VarInt::from_u8(1));
        // the wake-up went to B's stale slot; A (parked, capacity available) was NOT woken
        println!("wake counts after MAX_STREAMS 3: A={} B={}", na.get(), nb.get());
        assert_eq!((na.get(), nb.get()), (1, 1), "A got no second wake-up although a stream can be opened");
        // ... and a poll by A would succeed right now
        assert!(c.poll_open_local_stream(ty, &mut ta, &Context::from_waker(&wa)).is_ready());
    }
}
