// Replay of the Lean counterexample `low_watermark_beyond_final_size_parks_forever_counterexample`
// (lean/QuicProofs/Props/C02RxWake.lean) on the real ReceiveStream.  Not part of any registered check: the request is
// only issuable through the crate-internal request API.  To run it: append this test to
// quic/s2n-quic-transport/src/stream/receive_stream/tests.rs in a scratch worktree and run
//   cargo test -p s2n-quic-transport --offline read_low_watermark_after_fin_observation
#[test]
fn read_low_watermark_after_fin_observation() {
    let mut test_env = setup_receive_only_test_env();

    // 5 bytes and the FIN arrive: everything the peer will ever send is buffered
    let mut events = StreamEvents::new();
    assert_eq!(
        Ok(()),
        test_env.stream.on_data(
            &stream_data(test_env.stream.stream_id, VarInt::from_u8(0), &[0u8; 5][..], true),
            &mut events
        )
    );

    // a request with a low watermark above what is left of the stream
    let res = test_env.poll_request(
        ops::Request::default()
            .receive(&mut [Bytes::new()])
            .with_low_watermark(10),
    );
    // model: the reader parks (waiter stored) although nothing more can arrive
    println!("OBSERVATION poll_request -> {res:?}; wake_counter = {:?}", test_env.wake_counter);
    assert_eq!(res, Poll::Pending, "model counterexample reproduced: the reader is parked after the FIN");
}
