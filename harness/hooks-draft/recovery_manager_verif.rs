// DRAFT of the in-crate hook for C09 (integrator: turn into `#[cfg(all(test, aws_s2n_quic_verif))]` code).
//
// Appended to quic/s2n-quic-transport/src/recovery/manager/tests.rs of a SCRATCH copy of /repo it drives the real
// `recovery::Manager` (mock `Context`, single path, handshake confirmed) with the `recovery-manager` line protocol
// (tools/gen/recovery_manager.py, Lean driver component `recovery-manager`):
//
//   VERIF_OPS=ops.txt VERIF_OUT=impl.txt RUSTFLAGS="--cfg s2n_internal_dev" CARGO_TARGET_DIR=<outside the repo> \
//     cargo test -p s2n-quic-transport --offline --lib verif_recovery_manager
//   lean/.lake/build/bin/driver recovery-manager < ops.txt > model.txt ;  diff impl.txt model.txt
//
// Result of the one-off validation done while building the model (wk-recovery, 4 seeds, 33,597 ops, 2,325 ACKs with
// newly acknowledged packets, 1,382 operations declaring losses): 0 differences; the python oracle
// (gen.recovery_manager.oracle) on the real Manager's outputs reports only `loss:time-threshold-early-within-granularity`.
//
// NOTE: the crate's mock congestion controller (s2n-quic-core recovery::congestion_controller::testing::mock) does not
// subtract acknowledged bytes in `on_ack` and uses saturating subtraction elsewhere.  For the validation its `on_ack`
// was changed (scratch copy only) to `assert!(self.bytes_in_flight >= _sent_bytes as u32); self.bytes_in_flight -=
// _sent_bytes as u32;` and asserts were put in front of the two saturating subtractions; a hook in /repo should use a
// `Context` over a real controller (CUBIC) or its own counting controller instead.

// ---------------------------------------------------------------------------------------------
// VERIF (scratch copy only): drive the real Manager with the `recovery-manager` line protocol of
// /verif (tools/gen/recovery_manager.py); single path (id 0), mock context (handshake confirmed).
#[test]
fn verif_recovery_manager() {
    use std::fmt::Write as _;
    let Ok(ops_path) = std::env::var("VERIF_OPS") else { return };
    let out_path = std::env::var("VERIF_OUT").expect("VERIF_OUT");
    let ops = std::fs::read_to_string(ops_path).unwrap();
    let mut out = String::new();

    fn ts(us: u64) -> Timestamp {
        time::now() + Duration::from_micros(us - 1)
    }
    fn us(t: Timestamp) -> u64 {
        (t - time::now()).as_micros() as u64 + 1
    }
    fn fresh(space: PacketNumberSpace) -> (ServerManager, path::Manager<ServerConfig>) {
        let mut pm = helper_generate_path_manager(Duration::from_millis(0));
        pm.active_path_mut().on_handshake_packet();
        pm.active_path_mut().on_peer_validated();
        (ServerManager::new(space), pm)
    }
    fn tracked(m: &ServerManager) -> Vec<u64> {
        m.sent_packets.iter().map(|(pn, _)| pn.as_u64()).collect()
    }
    fn list(v: &[u64]) -> String {
        if v.is_empty() { "-".into() } else { v.iter().map(|x| x.to_string()).collect::<Vec<_>>().join(",") }
    }

    let mut space = PacketNumberSpace::Initial;
    let (mut manager, mut pm) = fresh(space);
    let random = &mut random::testing::Generator::default();
    let mut publisher = Publisher::no_snapshot();
    let mut dropped = false;

    for line in ops.lines() {
        let t: Vec<&str> = line.split_ascii_whitespace().collect();
        if t.is_empty() { out.push_str("bad-op\n"); continue; }
        let n = |s: &str| s.parse::<u64>().unwrap();
        let before = tracked(&manager);
        let mut lost: Vec<u64> = vec![];
        let mut discarded: Vec<u64> = vec![];
        match t[0] {
            "reset" => {
                space = PacketNumberSpace::Initial;
                let f = fresh(space); manager = f.0; pm = f.1; dropped = false;
                out.push_str("ok reset\n");
                continue;
            }
            "init" => {
                space = match t[1] { "0" => PacketNumberSpace::Initial, "1" => PacketNumberSpace::Handshake, _ => PacketNumberSpace::ApplicationData };
                let f = fresh(space); manager = f.0; pm = f.1; dropped = false;
            }
            "confirmed" => {}
            "mad" => {
                pm.active_path_mut().rtt_estimator.on_max_ack_delay(Duration::from_millis(n(t[2])).try_into().unwrap());
            }
            "send" => {
                let mut context = MockContext::new(&mut pm);
                let outcome = transmission::Outcome {
                    ack_elicitation: if t[4] == "1" { AckElicitation::Eliciting } else { AckElicitation::NonEliciting },
                    is_congestion_controlled: t[3] == "1",
                    bytes_sent: n(t[2]) as usize,
                    bytes_progressed: 0,
                };
                let mode = if t[7] == "1" { transmission::Mode::MtuProbing } else { transmission::Mode::Normal };
                manager.on_packet_sent(
                    space.new_packet_number(VarInt::new(n(t[1])).unwrap()), outcome, ts(n(t[5])),
                    ExplicitCongestionNotification::default(), mode, None, &mut context, &mut publisher);
            }
            "burst" => {
                manager.on_transmit_burst_complete(pm.active_path(), ts(n(t[1])), true, random);
            }
            "ack" => {
                let mut ranges = ack::Ranges::new(1000);
                let mut largest = 0;
                for r in t[1].split(',') {
                    let (a, b) = r.split_once('-').unwrap();
                    for pn in n(a)..=n(b) {
                        assert!(ranges.insert_packet_number(space.new_packet_number(VarInt::new(pn).unwrap())).is_ok());
                    }
                    largest = largest.max(n(b));
                }
                let frame = frame::Ack { ack_delay: VarInt::new(n(t[2]) / 1000).unwrap(), ack_ranges: (&ranges), ecn_counts: None };
                let mut context = MockContext::new(&mut pm);
                let r = manager.on_ack_frame(ts(n(t[3])), frame, space.new_packet_number(VarInt::new(largest).unwrap()), random, &mut context, &mut publisher);
                assert!(r.is_ok());
                lost = context.lost_packets.iter().map(|p| p.as_u64()).collect();
            }
            "timeout" => {
                let mut context = MockContext::new(&mut pm);
                manager.on_timeout(ts(n(t[1])), random, u32::MAX, &mut context, &mut publisher);
                lost = context.lost_packets.iter().map(|p| p.as_u64()).collect();
            }
            "discard" => {
                let id = pm.active_path_id();
                manager.on_packet_number_space_discarded(pm.active_path_mut(), id, &mut publisher);
                discarded = before.clone();
                // the space (and its manager) is dropped afterwards
                dropped = true;
            }
            _ => { out.push_str("bad-op\n"); continue; }
        }
        lost.sort();
        let after = if dropped { vec![] } else { tracked(&manager) };
        let acked: Vec<u64> = before.iter().copied().filter(|p| !after.contains(p) && !lost.contains(p) && !discarded.contains(p)).collect();
        let path = pm.active_path();
        let rtt = &path.rtt_estimator;
        let opt = |t: Option<Timestamp>| t.map(|t| us(t).to_string()).unwrap_or_else(|| "none".into());
        writeln!(out, "ok acked={} lost={} discarded={} bif={},0,0,0 la={} losstimer={} pto={} tx={} backoff={} srtt={} thr={},374625000,374625000,374625000 tracked={} uf=0 panic=0",
            list(&acked), list(&lost), list(&discarded), path.congestion_controller.bytes_in_flight,
            manager.largest_acked_packet.map(|p| p.as_u64().to_string()).unwrap_or_else(|| "none".into()),
            opt(manager.loss_timer.next_expiration()), opt(manager.pto.next_expiration()), manager.pto.transmissions(),
            path.pto_backoff, rtt.smoothed_rtt().as_nanos(), rtt.loss_time_threshold().as_nanos(), after.len()).unwrap();
    }
    std::fs::write(out_path, out).unwrap();
}
