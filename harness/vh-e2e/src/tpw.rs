//! TLS provider wrapper that rewrites the transport-parameter block an endpoint DECLARES, right where s2n-quic
//! hands the encoded block to the TLS library (`new_server_session` / `new_client_session`): the rewritten bytes
//! are what the TLS stack puts into ClientHello / EncryptedExtensions, so both sides see the same bytes, the TLS
//! transcript stays consistent and the handshake still authenticates.
//!
//! Two independent rewrites:
//! * `limit` (C13 scenarios): the `active_connection_id_limit` parameter. s2n-quic overwrites the value configured
//!   through `Limits::with_max_active_connection_ids` with the constant `ACTIVE_CONNECTION_ID_LIMIT = 3`
//!   (endpoint/initial.rs, endpoint/mod.rs), so two s2n-quic endpoints can only be shown other peer limits by
//!   changing the encoded block. `limit == 0`: untouched.
//! * `muts` (C14 scenarios, scenario parameter `tp_mut=<ep>:<mutation>[,<ep>:<mutation>…]`, ep = c|s = the
//!   endpoint whose DECLARED block is rewritten): connection-ID authentication parameters (RFC 9000 §7.3) and the
//!   server-only parameters. `<mutation>` is `none` (the block goes through the rewriting path byte for byte) or
//!   `<param>.<op>[.<arg>]` with
//!     param: odcid (0x00) | srt (0x02) | pa (0x0d) | acl (0x0e) | iscid (0x0f) | rscid (0x10)
//!     op:    drop | same | flip0 | flipmid | fliplast | trunc | ext | empty | dup | set.<hex> | rand<N> |
//!            copy.<param> | wf
//!   `same` removes the parameter and puts the same value back (control); `flip*` XOR one value byte with 0x01;
//!   `trunc` / `ext` shorten / lengthen the value by one byte; `set` / `rand<N>` / `copy` / `wf` replace the value
//!   in place, or ADD the parameter at the end of the block when it is absent (`wf` = a well-formed
//!   preferred_address / 16-byte token / 8-byte id); `dup` appends a second copy. An op that needs a present
//!   parameter is a no-op on a block without it. Every session creation with mutations is traced:
//!     app <t> <ep> tpmut <spec> <applied 0|1> <old block hex> <new block hex>
//! With `limit == 0` and no mutation for the endpoint the block is passed through untouched (the default: nothing
//! changes for other scenario families).
use s2n_codec::{Encoder, EncoderValue};
use s2n_quic::provider::tls;
use s2n_quic_core::{application::ServerName, crypto::tls::ConnectionInfo, crypto::tls::Endpoint};

#[derive(Clone, Debug, PartialEq)]
pub enum Op {
    Drop,
    Same,
    Flip(u8),
    Trunc,
    Ext,
    Empty,
    Dup,
    Set(Vec<u8>),
    Rand(usize),
    Copy(u64),
    Wf,
}

#[derive(Clone, Debug, PartialEq)]
pub struct Mutation {
    pub spec: String,
    /// None = `none` (rewrite nothing)
    pub what: Option<(u64, Op)>,
}

fn param_id(s: &str) -> Option<u64> {
    Some(match s {
        "odcid" => 0x00,
        "srt" => 0x02,
        "pa" => 0x0d,
        "acl" => 0x0e,
        "iscid" => 0x0f,
        "rscid" => 0x10,
        _ => return None,
    })
}

fn unhex(s: &str) -> Option<Vec<u8>> {
    if s == "-" {
        return Some(vec![]);
    }
    if s.len() % 2 != 0 {
        return None;
    }
    (0..s.len() / 2).map(|i| u8::from_str_radix(s.get(2 * i..2 * i + 2)?, 16).ok()).collect()
}

/// parses the `tp_mut` scenario parameter; returns the mutations of endpoint `ep`
pub fn parse(spec: &str, ep: &str) -> Result<Vec<Mutation>, String> {
    let mut out = vec![];
    for part in spec.split(',').filter(|p| !p.is_empty()) {
        let (e, m) = part.split_once(':').ok_or_else(|| format!("bad tp_mut {part}"))?;
        if e != "c" && e != "s" {
            return Err(format!("bad tp_mut endpoint {part}"));
        }
        let bad = || format!("bad tp_mut mutation {part}");
        let what = if m == "none" {
            None
        } else {
            let f: Vec<&str> = m.split('.').collect();
            if f.len() < 2 {
                return Err(bad());
            }
            let id = param_id(f[0]).ok_or_else(bad)?;
            let op = match (f[1], f.get(2)) {
                ("drop", None) => Op::Drop,
                ("same", None) => Op::Same,
                ("flip0", None) => Op::Flip(0),
                ("flipmid", None) => Op::Flip(1),
                ("fliplast", None) => Op::Flip(2),
                ("trunc", None) => Op::Trunc,
                ("ext", None) => Op::Ext,
                ("empty", None) => Op::Empty,
                ("dup", None) => Op::Dup,
                ("wf", None) => Op::Wf,
                ("set", Some(h)) => Op::Set(unhex(h).ok_or_else(bad)?),
                ("copy", Some(q)) => Op::Copy(param_id(q).ok_or_else(bad)?),
                (r, None) if r.starts_with("rand") => Op::Rand(r[4..].parse::<usize>().map_err(|_| bad())?),
                _ => return Err(bad()),
            };
            Some((id, op))
        };
        if e == ep {
            out.push(Mutation { spec: m.to_string(), what });
        }
    }
    Ok(out)
}

pub struct TpTls<P> {
    pub inner: P,
    pub limit: u64,
    pub ep: &'static str,
    pub muts: Vec<Mutation>,
    pub seed: u64,
}

pub struct TpEndpoint<E> {
    inner: E,
    limit: u64,
    ep: &'static str,
    muts: Vec<Mutation>,
    seed: u64,
    sessions: u64,
}

struct Raw(Vec<u8>);

impl EncoderValue for Raw {
    fn encode<E: Encoder>(&self, encoder: &mut E) {
        encoder.write_slice(&self.0);
    }
}

fn varint(b: &[u8], i: usize) -> Option<(u64, usize)> {
    let first = *b.get(i)?;
    let w = 1usize << (first >> 6);
    if i + w > b.len() {
        return None;
    }
    let mut v = (first & 0x3f) as u64;
    for x in &b[i + 1..i + w] {
        v = (v << 8) | *x as u64;
    }
    Some((v, i + w))
}

fn put_varint(v: u64, out: &mut Vec<u8>) {
    if v < 64 {
        out.push(v as u8);
    } else if v < 16384 {
        out.extend_from_slice(&((v as u16) | 0x4000).to_be_bytes());
    } else if v < (1 << 30) {
        out.extend_from_slice(&((v as u32) | 0x8000_0000).to_be_bytes());
    } else {
        out.extend_from_slice(&(v | 0xc000_0000_0000_0000).to_be_bytes());
    }
}

/// replaces (or adds) parameter 0x0e in an encoded transport parameter block (RFC 9000 §18)
pub fn rewrite(block: &[u8], limit: u64) -> Vec<u8> {
    if limit == 0 {
        return block.to_vec();
    }
    let mut out = Vec::with_capacity(block.len() + 4);
    let mut i = 0;
    while i < block.len() {
        let Some((id, j)) = varint(block, i) else { return block.to_vec() };
        let Some((len, k)) = varint(block, j) else { return block.to_vec() };
        let end = k + len as usize;
        if end > block.len() {
            return block.to_vec();
        }
        if id != 0x0e {
            out.extend_from_slice(&block[i..end]);
        }
        i = end;
    }
    let mut val = vec![];
    put_varint(limit, &mut val);
    put_varint(0x0e, &mut out);
    put_varint(val.len() as u64, &mut out);
    out.extend_from_slice(&val);
    out
}

/// block -> [(id, value)] (None when the block is not a well-formed parameter sequence)
fn items(block: &[u8]) -> Option<Vec<(u64, Vec<u8>)>> {
    let mut out = vec![];
    let mut i = 0;
    while i < block.len() {
        let (id, j) = varint(block, i)?;
        let (len, k) = varint(block, j)?;
        let end = k.checked_add(len as usize)?;
        if end > block.len() {
            return None;
        }
        out.push((id, block[k..end].to_vec()));
        i = end;
    }
    Some(out)
}

fn unitems(its: &[(u64, Vec<u8>)]) -> Vec<u8> {
    let mut out = vec![];
    for (id, v) in its {
        put_varint(*id, &mut out);
        put_varint(v.len() as u64, &mut out);
        out.extend_from_slice(v);
    }
    out
}

fn rand_bytes(seed: u64, salt: u64, n: usize) -> Vec<u8> {
    let mut r = crate::cfg::Rng(crate::cfg::mix(seed ^ 0x7a_d0_0d ^ salt.wrapping_mul(0x9e37_79b9)));
    (0..n).map(|_| r.next() as u8).collect()
}

fn well_formed(id: u64, seed: u64) -> Vec<u8> {
    match id {
        0x0d => {
            // IPv4 address+port, IPv6 address+port, connection id (length-prefixed, 8 bytes), stateless reset token
            let mut v = vec![192, 0, 2, 7, 0x11, 0x51];
            v.extend_from_slice(&[0x20, 0x01, 0x0d, 0xb8, 0, 0, 0, 0, 0, 0, 0, 0, 0, 0, 0, 7, 0x11, 0x51]);
            v.push(8);
            v.extend_from_slice(&rand_bytes(seed, 0xd1, 8));
            v.extend_from_slice(&rand_bytes(seed, 0xd2, 16));
            v
        }
        0x02 => rand_bytes(seed, 0x02, 16),
        0x0e => vec![4],
        _ => rand_bytes(seed, id, 8),
    }
}

/// applies one mutation to the item list; returns whether anything was (re)written
fn apply(its: &mut Vec<(u64, Vec<u8>)>, m: &Mutation, seed: u64) -> bool {
    let Some((id, op)) = &m.what else { return false };
    let pos = its.iter().position(|(i, _)| i == id);
    let replace = |its: &mut Vec<(u64, Vec<u8>)>, v: Vec<u8>| match pos {
        Some(p) => its[p].1 = v,
        None => its.push((*id, v)),
    };
    match op {
        Op::Drop => match pos {
            Some(p) => {
                its.remove(p);
                true
            }
            None => false,
        },
        Op::Same => match pos {
            Some(p) => {
                let it = its.remove(p);
                its.insert(p, (it.0, it.1.clone()));
                true
            }
            None => false,
        },
        Op::Flip(w) => match pos {
            Some(p) if !its[p].1.is_empty() => {
                let n = its[p].1.len();
                let k = match w {
                    0 => 0,
                    1 => n / 2,
                    _ => n - 1,
                };
                its[p].1[k] ^= 0x01;
                true
            }
            _ => false,
        },
        Op::Trunc => match pos {
            Some(p) if !its[p].1.is_empty() => {
                its[p].1.pop();
                true
            }
            _ => false,
        },
        Op::Ext => match pos {
            Some(p) => {
                its[p].1.push(0xee);
                true
            }
            None => false,
        },
        Op::Empty => match pos {
            Some(p) => {
                its[p].1.clear();
                true
            }
            None => false,
        },
        Op::Dup => match pos {
            Some(p) => {
                let it = its[p].clone();
                its.push(it);
                true
            }
            None => false,
        },
        Op::Set(v) => {
            replace(its, v.clone());
            true
        }
        Op::Rand(n) => {
            replace(its, rand_bytes(seed, *id, *n));
            true
        }
        Op::Copy(q) => match its.iter().find(|(i, _)| i == q).map(|(_, v)| v.clone()) {
            Some(v) => {
                replace(its, v);
                true
            }
            None => false,
        },
        Op::Wf => {
            replace(its, well_formed(*id, seed));
            true
        }
    }
}

/// applies the mutations to an encoded block; a block that does not parse is left alone
pub fn mutate(block: &[u8], muts: &[Mutation], seed: u64) -> (Vec<u8>, bool) {
    let Some(mut its) = items(block) else { return (block.to_vec(), false) };
    let mut applied = false;
    for m in muts {
        applied |= apply(&mut its, m, seed);
    }
    (unitems(&its), applied)
}

impl<E> TpEndpoint<E> {
    fn passthrough(&self) -> bool {
        self.limit == 0 && self.muts.is_empty()
    }

    fn rewritten(&mut self, block: Vec<u8>) -> Raw {
        let limited = rewrite(&block, self.limit);
        if self.muts.is_empty() {
            return Raw(limited);
        }
        // a server endpoint creates one session per connection attempt: every one is rewritten (same mutation)
        let (out, applied) = mutate(&limited, &self.muts, self.seed ^ self.sessions.wrapping_mul(0x51_7c_c1));
        self.sessions += 1;
        let spec = self.muts.iter().map(|m| m.spec.as_str()).collect::<Vec<_>>().join("+");
        crate::trace::line(format!(
            "app {} {} tpmut {} {} {} {}",
            crate::trace::now(),
            self.ep,
            spec,
            applied as u8,
            crate::trace::hex(&limited),
            crate::trace::hex(&out)
        ));
        Raw(out)
    }
}

impl<E: Endpoint> Endpoint for TpEndpoint<E> {
    type Session = E::Session;

    fn new_server_session<Params: EncoderValue>(&mut self, transport_parameters: &Params, connection_info: ConnectionInfo) -> Self::Session {
        if self.passthrough() {
            return self.inner.new_server_session(transport_parameters, connection_info);
        }
        let raw = self.rewritten(transport_parameters.encode_to_vec());
        self.inner.new_server_session(&raw, connection_info)
    }

    fn new_client_session<Params: EncoderValue>(&mut self, transport_parameters: &Params, server_name: ServerName) -> Self::Session {
        if self.passthrough() {
            return self.inner.new_client_session(transport_parameters, server_name);
        }
        let raw = self.rewritten(transport_parameters.encode_to_vec());
        self.inner.new_client_session(&raw, server_name)
    }

    fn max_tag_length(&self) -> usize {
        self.inner.max_tag_length()
    }
}

impl<P: tls::Provider> tls::Provider for TpTls<P> {
    type Server = TpEndpoint<P::Server>;
    type Client = TpEndpoint<P::Client>;
    type Error = P::Error;

    fn start_server(self) -> Result<Self::Server, Self::Error> {
        Ok(TpEndpoint { inner: self.inner.start_server()?, limit: self.limit, ep: self.ep, muts: self.muts, seed: self.seed, sessions: 0 })
    }

    fn start_client(self) -> Result<Self::Client, Self::Error> {
        Ok(TpEndpoint { inner: self.inner.start_client()?, limit: self.limit, ep: self.ep, muts: self.muts, seed: self.seed, sessions: 0 })
    }
}
