//! TLS provider wrapper that rewrites the `active_connection_id_limit` transport parameter an endpoint
//! DECLARES (C13 scenarios). s2n-quic overwrites the value configured through
//! `Limits::with_max_active_connection_ids` with the constant `ACTIVE_CONNECTION_ID_LIMIT = 3`
//! (endpoint/initial.rs, endpoint/mod.rs), so two s2n-quic endpoints can only be shown other peer limits by
//! changing the encoded parameter block that is handed to the TLS library. With `limit == 0` the block is
//! passed through byte-for-byte (the default: nothing changes for other scenario families).
use s2n_codec::{Encoder, EncoderValue};
use s2n_quic::provider::tls;
use s2n_quic_core::{application::ServerName, crypto::tls::ConnectionInfo, crypto::tls::Endpoint};

pub struct TpTls<P> {
    pub inner: P,
    pub limit: u64,
}

pub struct TpEndpoint<E> {
    inner: E,
    limit: u64,
}

struct Raw(Vec<u8>);

impl EncoderValue for Raw {
    fn encode<E: Encoder>(&self, encoder: &mut E) {
        encoder.write_slice(&self.0);
    }
}

fn varint(b: &[u8], i: usize) -> Option<(u64, usize)> {
    let first = *b.get(i)?;
    let w = 1usize << (first >> 6);
    if i + w > b.len() {
        return None;
    }
    let mut v = (first & 0x3f) as u64;
    for x in &b[i + 1..i + w] {
        v = (v << 8) | *x as u64;
    }
    Some((v, i + w))
}

fn put_varint(v: u64, out: &mut Vec<u8>) {
    if v < 64 {
        out.push(v as u8);
    } else if v < 16384 {
        out.extend_from_slice(&((v as u16) | 0x4000).to_be_bytes());
    } else if v < (1 << 30) {
        out.extend_from_slice(&((v as u32) | 0x8000_0000).to_be_bytes());
    } else {
        out.extend_from_slice(&(v | 0xc000_0000_0000_0000).to_be_bytes());
    }
}

/// replaces (or adds) parameter 0x0e in an encoded transport parameter block (RFC 9000 §18)
pub fn rewrite(block: &[u8], limit: u64) -> Vec<u8> {
    if limit == 0 {
        return block.to_vec();
    }
    let mut out = Vec::with_capacity(block.len() + 4);
    let mut i = 0;
    while i < block.len() {
        let Some((id, j)) = varint(block, i) else { return block.to_vec() };
        let Some((len, k)) = varint(block, j) else { return block.to_vec() };
        let end = k + len as usize;
        if end > block.len() {
            return block.to_vec();
        }
        if id != 0x0e {
            out.extend_from_slice(&block[i..end]);
        }
        i = end;
    }
    let mut val = vec![];
    put_varint(limit, &mut val);
    put_varint(0x0e, &mut out);
    put_varint(val.len() as u64, &mut out);
    out.extend_from_slice(&val);
    out
}

impl<E: Endpoint> Endpoint for TpEndpoint<E> {
    type Session = E::Session;

    fn new_server_session<Params: EncoderValue>(&mut self, transport_parameters: &Params, connection_info: ConnectionInfo) -> Self::Session {
        if self.limit == 0 {
            return self.inner.new_server_session(transport_parameters, connection_info);
        }
        let raw = Raw(rewrite(&transport_parameters.encode_to_vec(), self.limit));
        self.inner.new_server_session(&raw, connection_info)
    }

    fn new_client_session<Params: EncoderValue>(&mut self, transport_parameters: &Params, server_name: ServerName) -> Self::Session {
        if self.limit == 0 {
            return self.inner.new_client_session(transport_parameters, server_name);
        }
        let raw = Raw(rewrite(&transport_parameters.encode_to_vec(), self.limit));
        self.inner.new_client_session(&raw, server_name)
    }

    fn max_tag_length(&self) -> usize {
        self.inner.max_tag_length()
    }
}

impl<P: tls::Provider> tls::Provider for TpTls<P> {
    type Server = TpEndpoint<P::Server>;
    type Client = TpEndpoint<P::Client>;
    type Error = P::Error;

    fn start_server(self) -> Result<Self::Server, Self::Error> {
        Ok(TpEndpoint { inner: self.inner.start_server()?, limit: self.limit })
    }

    fn start_client(self) -> Result<Self::Client, Self::Error> {
        Ok(TpEndpoint { inner: self.inner.start_client()?, limit: self.limit })
    }
}
