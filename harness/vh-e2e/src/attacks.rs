//! C04 attack catalogue: the offending frame sequences an adversarial peer writes into one of its own
//! packets. Everything is a pure function of the scenario parameters (no randomness).
//!
//! Roles: `cfg.attacker` (c|s) is the adversarial endpoint, the other one is the victim. All limits used
//! below are the VICTIM's configured limits; an attack that needs a limit which the scenario leaves at its
//! default (0) is not injected (`None`).
//!
//! Bytes: frames (or the part of them) that break a rule carry the bit-wise complement of the keyed payload
//! (`evil`), so that they can never verify at the application; frames that are legal by themselves (needed to
//! set the stage inside the same packet) carry no data or the correct keyed bytes (`good`).
//!
//! Names: `<class>-<shape>`; `ok-*` are control cases that stay exactly inside the limits and must NOT be
//! answered with a connection error.
use crate::cfg::{self, Cfg, Limits};

pub struct B<'a> {
    pub f: Vec<u8>,
    cfg: &'a Cfg,
}

pub fn varint(v: u64, out: &mut Vec<u8>) {
    if v < 64 {
        out.push(v as u8);
    } else if v < 16384 {
        out.extend_from_slice(&((v as u16) | 0x4000).to_be_bytes());
    } else if v < (1 << 30) {
        out.extend_from_slice(&((v as u32) | 0x8000_0000).to_be_bytes());
    } else {
        out.extend_from_slice(&(v | 0xc000_0000_0000_0000).to_be_bytes());
    }
}

impl<'a> B<'a> {
    fn vi(&mut self, v: u64) {
        varint(v, &mut self.f);
    }
    fn good(&self, sid: u64, off: u64, n: u64) -> Vec<u8> {
        let key = cfg::stream_key(self.cfg.seed, sid, self.cfg.attacker == "s");
        cfg::payload(key, off, n as usize)
    }
    fn evil(&self, sid: u64, off: u64, n: u64) -> Vec<u8> {
        self.good(sid, off, n).into_iter().map(|b| !b).collect()
    }
    /// STREAM with OFF and LEN bits
    fn stream(&mut self, sid: u64, off: u64, data: &[u8], fin: bool) {
        self.f.push(0x0e | fin as u8);
        self.vi(sid);
        self.vi(off);
        self.vi(data.len() as u64);
        self.f.extend_from_slice(data);
    }
    fn stream_evil(&mut self, sid: u64, off: u64, n: u64, fin: bool) {
        let d = self.evil(sid, off, n);
        self.stream(sid, off, &d, fin);
    }
    fn stream_good(&mut self, sid: u64, off: u64, n: u64, fin: bool) {
        let d = self.good(sid, off, n);
        self.stream(sid, off, &d, fin);
    }
    fn reset(&mut self, sid: u64, final_size: u64) {
        self.f.push(0x04);
        self.vi(sid);
        self.vi(13);
        self.vi(final_size);
    }
    fn stop_sending(&mut self, sid: u64) {
        self.f.push(0x05);
        self.vi(sid);
        self.vi(13);
    }
    fn max_data(&mut self, v: u64) {
        self.f.push(0x10);
        self.vi(v);
    }
    fn max_stream_data(&mut self, sid: u64, v: u64) {
        self.f.push(0x11);
        self.vi(sid);
        self.vi(v);
    }
    fn max_streams(&mut self, bidi: bool, v: u64) {
        self.f.push(if bidi { 0x12 } else { 0x13 });
        self.vi(v);
    }
    fn data_blocked(&mut self, v: u64) {
        self.f.push(0x14);
        self.vi(v);
    }
    fn stream_data_blocked(&mut self, sid: u64, v: u64) {
        self.f.push(0x15);
        self.vi(sid);
        self.vi(v);
    }
    fn streams_blocked(&mut self, bidi: bool, v: u64) {
        self.f.push(if bidi { 0x16 } else { 0x17 });
        self.vi(v);
    }
    fn new_connection_id(&mut self, seq: u64, retire_prior_to: u64, len_byte: u8, cid: &[u8]) {
        self.f.push(0x18);
        self.vi(seq);
        self.vi(retire_prior_to);
        self.f.push(len_byte);
        self.f.extend_from_slice(cid);
        // stateless reset token derived from the sequence number (distinct per frame)
        for i in 0..16u8 {
            self.f.push(0xa0 ^ i ^ (seq as u8).wrapping_mul(17));
        }
    }
    fn retire_connection_id(&mut self, seq: u64) {
        self.f.push(0x19);
        self.vi(seq);
    }
    fn new_token(&mut self) {
        self.f.push(0x07);
        self.vi(4);
        self.f.extend_from_slice(b"EVIL");
    }
    /// one well-formed sample of the frame type `t` (RFC 9000 Table 3 row), used for the per-space attacks
    fn sample(&mut self, t: &str, sid: u64) -> bool {
        match t {
            "ping" => self.f.push(0x01),
            "reset-stream" => self.reset(sid, 0),
            "stop-sending" => self.stop_sending(sid),
            "new-token" => self.new_token(),
            "stream" => self.stream_evil(sid, 0, 4, false),
            "max-data" => self.max_data(1 << 20),
            "max-stream-data" => self.max_stream_data(sid, 1 << 20),
            "max-streams" => self.max_streams(true, 200),
            "max-streams-uni" => self.max_streams(false, 200),
            "data-blocked" => self.data_blocked(1000),
            "stream-data-blocked" => self.stream_data_blocked(sid, 1000),
            "streams-blocked" => self.streams_blocked(true, 10),
            "streams-blocked-uni" => self.streams_blocked(false, 10),
            "new-connection-id" => self.new_connection_id(1, 0, 8, &[0x77; 8]),
            "retire-connection-id" => self.retire_connection_id(0),
            "path-challenge" => {
                self.f.push(0x1a);
                self.f.extend_from_slice(&[1, 2, 3, 4, 5, 6, 7, 8]);
            }
            "path-response" => {
                self.f.push(0x1b);
                self.f.extend_from_slice(&[1, 2, 3, 4, 5, 6, 7, 8]);
            }
            "app-close" => {
                // CONNECTION_CLOSE of type 0x1d (application) — only 0x1c may appear in Initial/Handshake
                self.f.push(0x1d);
                self.vi(7);
                self.vi(0);
            }
            "handshake-done" => self.f.push(0x1e),
            "datagram" => {
                self.f.push(0x31);
                self.vi(4);
                self.f.extend_from_slice(b"EVIL");
            }
            _ => return false,
        }
        true
    }
}

/// the victim's limits and the stream ids of interest, from the scenario parameters only
struct Env {
    /// victim's receive window for streams the attacker initiates (bidirectional)
    w_br: u64,
    /// victim's receive window for bidirectional streams the victim initiates
    w_bl: u64,
    w_u: u64,
    d: u64,
    n_b: u64,
    n_u: u64,
    /// attacker / victim initiator bits
    a: u64,
    v: u64,
    /// number of streams the attacker's / victim's honest application opens
    a_bidi: u64,
    a_uni: u64,
    v_bidi: u64,
    v_uni: u64,
}

impl Env {
    fn new(cfg: &Cfg) -> Self {
        let (vict, a): (&Limits, u64) = if cfg.attacker == "s" { (&cfg.client, 1) } else { (&cfg.server, 0) };
        let (a_bidi, a_uni, v_bidi, v_uni) = if a == 0 { (cfg.bidi, cfg.uni, 0, cfg.suni) } else { (0, cfg.suni, cfg.bidi, cfg.uni) };
        Env {
            w_br: vict.bidi_remote,
            w_bl: vict.bidi_local,
            w_u: vict.uni,
            d: vict.data_window,
            n_b: vict.max_bidi_remote,
            n_u: vict.max_uni_remote,
            a,
            v: 1 - a,
            a_bidi,
            a_uni,
            v_bidi,
            v_uni,
        }
    }
    /// n-th bidirectional / unidirectional stream id initiated by the attacker / the victim
    fn ab(&self, n: u64) -> u64 {
        4 * n + self.a
    }
    fn au(&self, n: u64) -> u64 {
        4 * n + 2 + self.a
    }
    fn vb(&self, n: u64) -> u64 {
        4 * n + self.v
    }
    fn vu(&self, n: u64) -> u64 {
        4 * n + 2 + self.v
    }
    /// a fresh attacker-initiated stream the honest application never uses
    fn fb(&self) -> u64 {
        self.ab(self.a_bidi)
    }
    fn fu(&self) -> u64 {
        self.au(self.a_uni)
    }
}

macro_rules! need {
    ($($x:expr),*) => { if $($x == 0)||* { return None; } };
}

pub fn frames(name: &str, cfg: &Cfg) -> Option<Vec<u8>> {
    let e = Env::new(cfg);
    let mut b = B { f: vec![], cfg };
    let fb = e.fb();
    let fu = e.fu();
    // frames not permitted in a packet-number space: `sp-<frame type>` (any space; the oracle knows which
    // combinations are violations)
    if let Some(t) = name.strip_prefix("sp-") {
        if !b.sample(t, e.ab(0)) {
            return None;
        }
        return Some(b.f);
    }
    match name {
        // ---- stream-level flow control (RFC 9000 4.1, 19.10) -------------------------------------
        "sd-plus1" => {
            need!(e.w_br);
            b.stream_evil(fb, e.w_br, 1, false);
        }
        "sd-far" => {
            need!(e.w_br);
            b.stream_evil(fb, e.w_br + 100_000, 4, false);
        }
        "sd-span" => {
            need!(e.w_br);
            b.stream_evil(fb, e.w_br - 1, 2, false);
        }
        "sd-fin-offset" => {
            need!(e.w_br);
            b.stream(fb, e.w_br + 1, &[], true);
        }
        "sd-uni-plus1" => {
            need!(e.w_u);
            b.stream_evil(fu, e.w_u, 1, false);
        }
        "sd-reset-final" => {
            need!(e.w_br);
            b.reset(fb, e.w_br + 1);
        }
        "sd-existing-far" => {
            // a stream the honest application really uses: its credit is at most (bytes read + window)
            let sid = if e.a_bidi > 0 { e.ab(0) } else if e.a_uni > 0 { e.au(0) } else { return None };
            b.stream_evil(sid, 1 << 40, 4, false);
        }
        "sd-existing-reset-far" => {
            // RESET_STREAM on a stream the honest application really uses, final size beyond every limit ever
            // advertised (the victim may have asked to STOP_SENDING on it meanwhile: 3.2 "Recv" / stopping)
            let sid = if e.a_bidi > 0 { e.ab(0) } else if e.a_uni > 0 { e.au(0) } else { return None };
            b.reset(sid, 1 << 40);
        }
        "sd-local-bidi-plus1" => {
            // the victim's own first bidirectional stream (receive window = its bidi_local window); only
            // meaningful once the victim opened it, otherwise this is a stream-state violation
            need!(e.w_bl, e.v_bidi);
            b.stream_evil(e.vb(0), (1 << 40) + e.w_bl, 1, false);
        }
        "ok-sd-edge" => {
            need!(e.w_br);
            b.stream_good(fb, e.w_br - 1, 1, false);
        }
        "ok-sd-fin-edge" => {
            need!(e.w_br);
            b.stream(fb, e.w_br, &[], true);
        }
        // ---- connection-level flow control (4.1, 19.9) ------------------------------------------
        "cd-spread" | "cd-spread-fin" | "cd-spread-reset" => {
            need!(e.w_br, e.d, e.n_b);
            let k = e.d / e.w_br + 2;
            if k > 200 || e.a_bidi + k > e.n_b {
                return None;
            }
            for i in 0..k {
                let sid = e.ab(e.a_bidi + i);
                match name {
                    "cd-spread" => b.stream_evil(sid, e.w_br - 1, 1, false),
                    "cd-spread-fin" => b.stream(sid, e.w_br, &[], true),
                    _ => b.reset(sid, e.w_br),
                }
            }
        }
        "cd-spread-uni" => {
            need!(e.w_u, e.d, e.n_u);
            let k = e.d / e.w_u + 2;
            if k > 200 || e.a_uni + k > e.n_u {
                return None;
            }
            for i in 0..k {
                b.stream_evil(e.au(e.a_uni + i), e.w_u - 1, 1, false);
            }
        }
        "cd-one-stream" => {
            // a single stream whose own window is larger than the connection window
            need!(e.w_br, e.d);
            if e.d >= e.w_br {
                return None;
            }
            b.stream_evil(fb, e.d, 1, false);
        }
        // ---- stream limits (4.6, 19.11) -------------------------------------------------------------
        "sl-bidi-plus1" => {
            need!(e.n_b);
            b.stream_evil(e.ab(e.n_b), 0, 1, false);
        }
        "sl-uni-plus1" => {
            need!(e.n_u);
            b.stream_evil(e.au(e.n_u), 0, 1, false);
        }
        "sl-bidi-far" => {
            need!(e.n_b);
            b.stream_evil(e.ab(e.n_b + 100_000), 0, 4, false);
        }
        "sl-uni-far" => {
            need!(e.n_u);
            b.stream_evil(e.au(e.n_u + 100_000), 0, 4, false);
        }
        "sl-max-id" => {
            need!(e.n_b);
            b.stream_evil(e.ab((1 << 60) - 1), 0, 1, false);
        }
        "sl-reset" => {
            need!(e.n_b);
            b.reset(e.ab(e.n_b + 3), 0);
        }
        "sl-stream-data-blocked" => {
            need!(e.n_u);
            b.stream_data_blocked(e.au(e.n_u + 1), 5);
        }
        "sl-max-stream-data" => {
            need!(e.n_b);
            b.max_stream_data(e.ab(e.n_b + 2), 1000);
        }
        "sl-stop-sending" => {
            need!(e.n_b);
            b.stop_sending(e.ab(e.n_b));
        }
        "ok-sl-edge" => {
            need!(e.n_b);
            if e.n_b > 64 {
                return None;
            }
            b.stream_good(e.ab(e.n_b - 1), 0, 1, false);
        }
        // ---- final size (4.5) -----------------------------------------------------------------------
        "fs-two-fins" | "fs-fin-then-beyond" | "fs-fin-then-at" | "fs-fin-shrinks" | "fs-reset-differs" | "fs-reset-lower"
        | "fs-fin-below-received" | "fs-reset-below-received" | "fs-reset-then-fin" | "ok-fs-same" => {
            need!(e.w_br);
            if e.w_br < 8 {
                return None;
            }
            let p = (e.w_br / 2).min(40);
            match name {
                "fs-two-fins" => {
                    b.stream(fb, p, &[], true);
                    b.stream(fb, p + 1, &[], true);
                }
                "fs-fin-then-beyond" => {
                    b.stream(fb, p, &[], true);
                    b.stream_evil(fb, p + 1, 2, false);
                }
                "fs-fin-then-at" => {
                    b.stream(fb, p, &[], true);
                    b.stream_evil(fb, p, 1, false);
                }
                "fs-fin-shrinks" => {
                    b.stream(fb, p, &[], true);
                    b.stream(fb, p - 1, &[], true);
                }
                "fs-reset-differs" => {
                    b.stream(fb, p, &[], true);
                    b.reset(fb, p + 1);
                }
                "fs-reset-lower" => {
                    b.stream(fb, p, &[], true);
                    b.reset(fb, p - 1);
                }
                "fs-fin-below-received" => {
                    b.stream_good(fb, 0, p, false);
                    b.stream(fb, p - 1, &[], true);
                }
                "fs-reset-below-received" => {
                    b.stream_good(fb, 0, p, false);
                    b.reset(fb, p - 1);
                }
                "fs-reset-then-fin" => {
                    // RESET_STREAM fixes the final size; a later FIN with another size changes it
                    b.reset(fb, p);
                    b.stream(fb, p + 1, &[], true);
                }
                _ => {
                    b.stream(fb, p, &[], true);
                    b.stream(fb, p, &[], true);
                    b.reset(fb, p);
                }
            }
        }
        // ---- frames for streams the peer may not address (19.4, 19.5, 19.8, 19.10, 19.13) ------------
        "ss-stream-local-unopened-bidi" => b.stream_evil(e.vb(e.v_bidi), 0, 4, false),
        "ss-stream-local-unopened-far" => b.stream_evil(e.vb(e.v_bidi + 1000), 0, 4, false),
        "ss-stream-local-unopened-uni" => b.stream_evil(e.vu(e.v_uni), 0, 4, false),
        "ss-stream-send-only" => {
            // the victim's own unidirectional stream (send-only for the victim), opened by its application
            need!(e.v_uni);
            b.stream_evil(e.vu(0), 0, 4, false);
        }
        "ss-reset-send-only" => {
            need!(e.v_uni);
            b.reset(e.vu(0), 0);
        }
        "ss-reset-local-unopened-uni" => b.reset(e.vu(e.v_uni), 0),
        "ss-reset-local-unopened-bidi" => b.reset(e.vb(e.v_bidi), 0),
        "ss-stream-data-blocked-send-only" => {
            need!(e.v_uni);
            b.stream_data_blocked(e.vu(0), 0);
        }
        "ss-stream-data-blocked-local-unopened" => b.stream_data_blocked(e.vu(e.v_uni), 0),
        "ss-max-stream-data-recv-only" => b.max_stream_data(fu, 1000),
        "ss-max-stream-data-recv-only-open" => {
            need!(e.a_uni);
            b.max_stream_data(e.au(0), 1000);
        }
        "ss-max-stream-data-local-unopened" => b.max_stream_data(e.vb(e.v_bidi), 1000),
        "ss-stop-sending-recv-only" => b.stop_sending(fu),
        "ss-stop-sending-recv-only-open" => {
            need!(e.a_uni);
            b.stop_sending(e.au(0));
        }
        "ss-stop-sending-local-unopened" => b.stop_sending(e.vb(e.v_bidi)),
        // ---- frames only one role may send (19.7, 19.20) ----------------------------------------------
        "role-handshake-done" => b.f.push(0x1e),
        "role-new-token" => b.new_token(),
        // ---- malformed limit values / encodings (4.6, 12.4, 19.8, 19.11, 19.14, 19.15, 19.16) -----------
        "ms-bidi-2p60-plus1" => b.max_streams(true, (1 << 60) + 1),
        "ms-uni-2p60-plus1" => b.max_streams(false, (1 << 60) + 1),
        "ms-bidi-max-varint" => b.max_streams(true, (1 << 62) - 1),
        "ok-ms-2p60" => b.max_streams(true, 1 << 60),
        "sb-bidi-2p60-plus1" => b.streams_blocked(true, (1 << 60) + 1),
        "sb-uni-max-varint" => b.streams_blocked(false, (1 << 62) - 1),
        "ok-sb-2p60" => b.streams_blocked(false, 1 << 60),
        "ncid-len0" => b.new_connection_id(1, 0, 0, &[]),
        "ncid-len21" => b.new_connection_id(1, 0, 21, &[0x66; 21]),
        "ncid-len255" => b.new_connection_id(1, 0, 255, &[0x66; 255]),
        "ncid-retire-gt-seq" => b.new_connection_id(2, 5, 8, &[0x55; 8]),
        "ncid-retire-gt-seq-by1" => b.new_connection_id(1, 2, 8, &[0x55; 8]),
        "ncid-limit" => {
            // more active connection ids than any active_connection_id_limit s2n-quic declares
            for s in 20..32u64 {
                b.new_connection_id(s, 0, 8, &[0x40 + s as u8; 8]);
            }
        }
        "rcid-unissued" => b.retire_connection_id(1000),
        "rcid-unissued-u32" => b.retire_connection_id((1 << 32) + 5),
        "rcid-current" => b.retire_connection_id(0),
        "unknown-frame-3f" => b.f.push(0x3f),
        "unknown-frame-21" => b.f.push(0x21),
        "stream-offset-overflow" => b.stream_evil(fb, (1 << 62) - 1, 1, false),
        _ => return None,
    }
    Some(b.f)
}
