//! Adversarial `Network` for the repo's deterministic IO provider: every decision (drop, duplicate,
//! reorder, corrupt, truncate, MTU-drop, inject garbage, replay old datagrams, blackhole) is drawn
//! from one PRNG seeded by the scenario. Every datagram and what happened to it is traced:
//!   wire <t_us> <src> <dst> <len> <action> <deliver_at_us|-> <first bytes hex>
use crate::{
    cfg::{Cfg, Rng},
    trace,
};
use s2n_quic::provider::io::testing::{
    self as io,
    network::{Buffers, Network, Packet},
};
use std::time::Duration;

pub struct Adversary {
    cfg: Cfg,
    rng: Rng,
    client_addr: Option<String>,
    /// the server's address (destination of the first datagram); the client may rebind, the server never does
    server_addr: Option<String>,
    seen: Vec<Packet>,
    serial: u64,
    /// injections of datagrams that belong to no connection (`inject_kind`)
    stray_count: u64,
    stray_last_at: u64,
    spoof_count: u64,
}

/// address of the off-path attacker that sends datagrams belonging to no connection; replies to it are
/// recorded (`to-attacker`) and go nowhere
pub const ATTACKER: ([u8; 4], u16) = ([10, 66, 66, 66], 6666);
const STRAY_SIZES: [usize; 14] = [1200, 43, 1199, 42, 1201, 44, 41, 100, 600, 20, 40, 58, 1350, 1472];
const TINY_SIZES: [usize; 6] = [43, 42, 44, 41, 20, 40];

/// source address used for spoofed copies of genuine client datagrams (`spoof_pm`); replies to it are recorded
/// (`to-spoofed`) and go nowhere
pub const SPOOFER: ([u8; 4], u16) = ([1, 0, 77, 77], 7777);

fn spoofer_addr() -> s2n_quic_core::inet::SocketAddress {
    std::net::SocketAddr::from(SPOOFER).into()
}

/// k-th spoofed source address (1.0.77.(77 + k), k = 0 is `SPOOFER`). The addresses are in the same (global) unicast scope
/// as the client's: the default migration validator denies a change of IP scope before a path is even created
fn spoofer_addr_k(k: u64) -> s2n_quic_core::inet::SocketAddress {
    std::net::SocketAddr::from(([1, 0, 77, 77u8.wrapping_add(k as u8)], SPOOFER.1)).into()
}

fn is_spoofer(a: &s2n_quic_core::inet::SocketAddress) -> bool {
    let s = format!("{a}");
    s.starts_with("1.0.77.")
}

fn attacker_addr() -> s2n_quic_core::inet::SocketAddress {
    std::net::SocketAddr::from(ATTACKER).into()
}

impl Adversary {
    pub fn new(cfg: &Cfg) -> Self {
        Self {
            cfg: cfg.clone(),
            rng: Rng(crate::cfg::mix(cfg.seed ^ 0xadad_adad)),
            client_addr: None,
            server_addr: None,
            seen: vec![],
            serial: 0,
            stray_count: 0,
            stray_last_at: u64::MAX,
            spoof_count: 0,
        }
    }

    fn deliver(&self, buffers: &Buffers, mut packet: Packet, now_us: u64, at_us: u64) {
        packet.switch();
        let buffers = buffers.clone();
        io::spawn(async move {
            if at_us > now_us {
                io::time::delay(Duration::from_micros(at_us - now_us)).await;
            }
            buffers.rx(*packet.path.local_address, |queue| {
                queue.enqueue(packet);
            });
        });
    }
}

fn head_n(p: &[u8], n: usize) -> String {
    trace::hex(&p[..p.len().min(n)])
}

/// a datagram of exactly `size` bytes (as far as the format allows) that belongs to no connection
fn stray(kind: &str, size: usize, rng: &mut Rng) -> Vec<u8> {
    let mut b: Vec<u8> = Vec::with_capacity(size.max(8));
    match kind {
        "unknown-version-long" => {
            // Initial-type long header of a version the server does not support (not 0 = Version Negotiation)
            b.push(0xc0 | (rng.next() as u8 & 0x0f));
            b.extend_from_slice(&[0x1a, 0x2a, 0x3a, 0x4a]);
            let cid = if size >= 30 { 8 } else { 2 };
            b.push(cid as u8);
            for _ in 0..cid {
                b.push(rng.next() as u8);
            }
            b.push(cid as u8);
            for _ in 0..cid {
                b.push(rng.next() as u8);
            }
            b.push(0); // token length
            let rest = size.saturating_sub(b.len() + 2);
            b.push(0x40 | ((rest >> 8) as u8 & 0x3f));
            b.push(rest as u8);
            while b.len() < size {
                b.push(rng.next() as u8);
            }
        }
        "vn-packet" => {
            // a Version Negotiation packet (version 0): must never be answered with Version Negotiation.
            // The bytes after the connection ids (the "supported versions") are laid out like the rest of an
            // Initial packet (token length 0, 2-byte length), so that an endpoint which failed to recognise
            // version 0 would see a well-formed Initial of an unsupported version.
            b.push(0xc0 | (rng.next() as u8 & 0x0f));
            b.extend_from_slice(&[0, 0, 0, 0]);
            let cid = if size >= 30 { 8 } else { 1 };
            b.push(cid as u8);
            for _ in 0..cid {
                b.push(rng.next() as u8);
            }
            b.push(cid as u8);
            for _ in 0..cid {
                b.push(rng.next() as u8);
            }
            let hdr = b.len();
            // at least one 4-byte version; total list length a multiple of 4
            let list = (size.saturating_sub(hdr).max(4) / 4) * 4;
            let rest = list - 3;
            b.push(0);
            b.push(0x40 | ((rest >> 8) as u8 & 0x3f));
            b.push(rest as u8);
            while b.len() < hdr + list {
                b.push(rng.next() as u8);
            }
        }
        _ => {
            // "unknown-cid-short" / "tiny": short header, fixed bit, random connection id and payload
            b.push(0x40 | (rng.next() as u8 & 0x3f));
            while b.len() < size {
                b.push(rng.next() as u8);
            }
        }
    }
    b
}

impl Network for Adversary {
    fn execute(&mut self, buffers: &Buffers) -> usize {
        let now = trace::now();
        let now_ms = now / 1000;
        let faults = self.cfg.faults_until_ms == 0 || now_ms < self.cfg.faults_until_ms;
        let mut pending = vec![];
        buffers.drain_pending_transmissions(|packet| {
            pending.push(packet);
            Ok(())
        });
        // the simulator drains host queues in HashMap order (random per process); restore determinism:
        // group by sender (FIFO within a sender), order of senders drawn from the scenario PRNG
        pending.sort_by_key(|p: &Packet| format!("{}", p.path.local_address.0));
        if pending.len() > 1 && self.rng.below(2) == 1 {
            let first = format!("{}", pending[0].path.local_address.0);
            let k = pending.iter().position(|p| format!("{}", p.path.local_address.0) != first).unwrap_or(pending.len());
            pending.rotate_left(k);
        }
        let mut count = 0;
        for packet in pending {
            self.serial += 1;
            let src = format!("{}", packet.path.local_address.0);
            let dst = format!("{}", packet.path.remote_address.0);
            if self.client_addr.is_none() {
                self.client_addr = Some(src.clone());
            }
            if self.server_addr.is_none() {
                self.server_addr = Some(dst.clone());
            }
            let c2s = self.client_addr.as_deref() == Some(src.as_str()) || self.server_addr.as_deref() == Some(dst.as_str());
            let len = packet.payload.len();
            let wire_head = self.cfg.wire_head;
            let head = |p: &[u8]| head_n(p, wire_head);
            let hd = head(&packet.payload);
            if packet.path.remote_address.0 == attacker_addr() {
                // reply to a datagram that belongs to no connection: recorded, delivered nowhere
                trace::line(format!("wire {now} {src} {dst} {len} to-attacker - {hd}"));
                continue;
            }
            if is_spoofer(&packet.path.remote_address.0) {
                // datagram for the spoofed source address of a replayed client datagram: recorded, delivered nowhere
                trace::line(format!("wire {now} {src} {dst} {len} to-spoofed - {hd}"));
                continue;
            }
            let log = |action: &str, at: Option<u64>| {
                trace::line(format!(
                    "wire {now} {src} {dst} {len} {action} {} {hd}",
                    at.map(|a| a.to_string()).unwrap_or_else(|| "-".into())
                ));
            };
            // blackholes apply even after the fault prefix ended only if they say so explicitly
            let bh = self.cfg.blackholes.iter().any(|(s, e, d)| {
                now_ms >= *s && now_ms < *e && (*d == 0 || (*d == 1 && c2s) || (*d == 2 && !c2s))
            });
            if bh {
                log("blackhole", None);
                continue;
            }
            if len > self.cfg.net_mtu {
                log("mtu-drop", None);
                continue;
            }
            if self.seen.len() < 64 {
                self.seen.push(packet.clone());
            } else {
                let k = self.rng.below(64) as usize;
                self.seen[k] = packet.clone();
            }
            let base = now + self.cfg.delay_ms * 1000;
            if !faults {
                log("deliver", Some(base));
                self.deliver(buffers, packet, now, base);
                count += 1;
                continue;
            }
            if self.rng.pm(self.cfg.drop_pm) {
                log("drop", None);
                continue;
            }
            if !c2s && len < self.cfg.drop_small_s2c && now_ms > 150 {
                // selectively starve the client of acknowledgements (ACK-only packets are small)
                log("drop-small", None);
                continue;
            }
            let jitter = |rng: &mut Rng, cfg: &Cfg| {
                if cfg.jitter_ms == 0 {
                    0
                } else {
                    rng.below(cfg.jitter_ms + 1) * 1000
                }
            };
            if self.rng.pm(self.cfg.dup_pm) {
                let at = base + jitter(&mut self.rng, &self.cfg);
                log("dup", Some(at));
                self.deliver(buffers, packet.clone(), now, at);
                count += 1;
            }
            let mut packet = packet;
            let mut action = "deliver";
            if !packet.payload.is_empty() && self.rng.pm(self.cfg.corrupt_pm) {
                match self.rng.below(3) {
                    0 => {
                        // flip 1..3 bits
                        for _ in 0..=self.rng.below(3) {
                            let i = self.rng.below(packet.payload.len() as u64) as usize;
                            packet.payload[i] ^= 1 << self.rng.below(8);
                        }
                        action = "corrupt-flip";
                    }
                    1 => {
                        let n = self.rng.below(packet.payload.len() as u64) as usize;
                        packet.payload.truncate(n.max(1));
                        action = "corrupt-truncate";
                    }
                    _ => {
                        // splice: tail of another datagram
                        if let Some(o) = self.seen.get(self.rng.below(self.seen.len() as u64) as usize) {
                            let cut = self.rng.below(packet.payload.len() as u64) as usize;
                            let ocut = self.rng.below(o.payload.len().max(1) as u64) as usize;
                            packet.payload.truncate(cut.max(1));
                            packet.payload.extend_from_slice(&o.payload[ocut.min(o.payload.len())..]);
                            packet.payload.truncate(self.cfg.net_mtu.min(65000));
                        }
                        action = "corrupt-splice";
                    }
                }
            }
            let at = base + jitter(&mut self.rng, &self.cfg);
            if action == "deliver" {
                trace::line(format!("wire {now} {src} {dst} {} {action} {at} {}", packet.payload.len(), head(&packet.payload)));
            } else {
                // altered in flight: the length the sender put on the wire is appended as an extra token
                trace::line(format!(
                    "wire {now} {src} {dst} {} {action} {at} {} o{len}",
                    packet.payload.len(),
                    head(&packet.payload)
                ));
            }
            self.deliver(buffers, packet, now, at);
            count += 1;
        }
        let wire_head = self.cfg.wire_head;
        let head = |p: &[u8]| head_n(p, wire_head);
        // datagrams that belong to no connection, from a third address to the server (only when asked for)
        if !self.cfg.inject_kind.is_empty() && count > 0 && self.rng.pm(self.cfg.inject_kind_pm) {
            let client = self.client_addr.clone();
            let c2s = self.seen.iter().find(|p| Some(format!("{}", p.path.local_address.0)) == client).cloned();
            for k in 0..self.cfg.inject_burst.max(1) {
                // every stray gets its own delivery instant so that the server's reply can be attributed to it
                let at = now + self.cfg.delay_ms * 1000 + k;
                let Some(mut p) = c2s.clone() else { break };
                if self.stray_last_at != u64::MAX && at <= self.stray_last_at {
                    continue;
                }
                const KINDS: [&str; 4] = ["unknown-cid-short", "unknown-version-long", "vn-packet", "tiny"];
                let kind = if self.cfg.inject_kind == "mix" {
                    KINDS[(self.stray_count % 4) as usize].to_string()
                } else {
                    self.cfg.inject_kind.clone()
                };
                let round = if self.cfg.inject_kind == "mix" { self.stray_count / 4 } else { self.stray_count };
                let size = if self.cfg.inject_size != 0 {
                    self.cfg.inject_size
                } else if kind == "tiny" {
                    TINY_SIZES[(round % TINY_SIZES.len() as u64) as usize]
                } else {
                    STRAY_SIZES[(round % STRAY_SIZES.len() as u64) as usize]
                };
                self.stray_count += 1;
                self.stray_last_at = at;
                p.payload = stray(&kind, size, &mut self.rng);
                p.path.local_address = attacker_addr().into();
                trace::line(format!(
                    "wire {now} {} {} {} stray:{kind} {at} {}",
                    p.path.local_address.0,
                    p.path.remote_address.0,
                    p.payload.len(),
                    head(&p.payload)
                ));
                self.deliver(buffers, p, now, at);
                count += 1;
            }
        }
        // a genuine client datagram re-sent from a third source address (independent of the fault prefix)
        if count > 0 && self.cfg.spoof_pm > 0 && self.rng.pm(self.cfg.spoof_pm) {
            let client = self.client_addr.clone();
            let max = self.cfg.spoof_max_len;
            let cands: Vec<usize> = (0..self.seen.len())
                .filter(|&k| {
                    let p = &self.seen[k];
                    Some(format!("{}", p.path.local_address.0)) == client && (max == 0 || p.payload.len() <= max)
                })
                .collect();
            if !cands.is_empty() {
                let k = cands[self.rng.below(cands.len() as u64) as usize];
                let mut p = self.seen[k].clone();
                let n_addrs = self.cfg.spoof_addrs.max(1);
                let which = self.spoof_count % n_addrs;
                self.spoof_count += 1;
                p.path.local_address = spoofer_addr_k(which).into();
                if self.cfg.spoof_garbage {
                    for i in 21..p.payload.len() {
                        p.payload[i] = self.rng.next() as u8;
                    }
                }
                let at = now + self.cfg.delay_ms * 1000;
                trace::line(format!(
                    "wire {now} {} {} {} spoof {at} {}",
                    p.path.local_address.0,
                    p.path.remote_address.0,
                    p.payload.len(),
                    head(&p.payload)
                ));
                self.deliver(buffers, p, now, at);
                count += 1;
            }
        }
        // injections happen only while datagrams flow (keeps the executor's stall logic intact)
        if faults && count > 0 && !self.seen.is_empty() {
            if self.rng.pm(self.cfg.replay_pm) {
                let k = self.rng.below(self.seen.len() as u64) as usize;
                let p = self.seen[k].clone();
                let at = now + self.cfg.delay_ms * 1000 + self.rng.below(200_000);
                trace::line(format!(
                    "wire {now} {} {} {} replay {at} {}",
                    p.path.local_address.0,
                    p.path.remote_address.0,
                    p.payload.len(),
                    head(&p.payload)
                ));
                self.deliver(buffers, p, now, at);
                count += 1;
            }
            if self.rng.pm(self.cfg.inject_pm) {
                let k = self.rng.below(self.seen.len() as u64) as usize;
                let mut p = self.seen[k].clone();
                // forged datagram: same addresses, attacker-chosen bytes keeping the first byte / CID
                // prefix of a genuine datagram so that it is routed to the connection
                let keep = (self.rng.below(24) as usize).min(p.payload.len());
                let newlen = 20 + self.rng.below(1200) as usize;
                let mut bytes: Vec<u8> = p.payload[..keep].to_vec();
                while bytes.len() < newlen {
                    bytes.push(self.rng.next() as u8);
                }
                p.payload = bytes;
                let at = now + self.cfg.delay_ms * 1000;
                trace::line(format!(
                    "wire {now} {} {} {} inject {at} {}",
                    p.path.local_address.0,
                    p.path.remote_address.0,
                    p.payload.len(),
                    head(&p.payload)
                ));
                self.deliver(buffers, p, now, at);
                count += 1;
            }
        }
        count
    }
}
