//! event subscriber: selected events are traced with their Debug rendering:
//!   ev <t_us> <c|s> <conn id> <event name> <debug text>
use crate::trace;
use s2n_quic::provider::event::{self, events, ConnectionInfo, ConnectionMeta, Event, Meta};

pub struct Sub {
    pub enabled: bool,
    /// trace endpoint-level datagram drops (their event NAME is `transport:datagram_dropped`, which the
    /// generic endpoint filter below does not select)
    pub endpoint_drops: bool,
    /// trace label of this endpoint ("" = `c` / `s` from the endpoint type; the second client is `d`)
    pub label: &'static str,
}

const WANTED: &[&str] = &[
    "transport:packet_sent",
    "transport:packet_received",
    "transport:packet_skipped",
    "recovery:packet_lost",
    "recovery:metrics_updated",
    "recovery:congestion",
    "recovery:ack_range_received",
    "recovery:ack_range_sent",
    "transport:packet_dropped",
    "transport:duplicate_packet",
    "security:key_update",
    "security:key_space_discarded",
    "connectivity:connection_started",
    "connectivity:connection_closed",
    "transport:transport_parameters_received",
    "transport:datagram_dropped",
    "connectivity:handshake_status_updated",
    "connectivity:active_path_updated",
    "connectivity:path_created",
    "connectivity:mtu_updated",
    "recovery:slow_start_exited",
    "transport:connection_id_updated",
    "transport:rx_ack_range_dropped",
    "transport:endpoint_datagram_dropped",
    "transport:endpoint_packet_sent",
    "transport:endpoint_packet_received",
    "transport:version_information",
    "connectivity:ecn_state_changed",
    "connectivity:connection_migration_denied",
    "recovery:pto_timer_updated",
    // (the two names above that never matched: the events live in other groups)
    "transport:path_created",
    "connectivity:connection_id_updated",
    "connectivity:path_challenge_updated",
];

fn ep(label: &'static str, meta: &dyn core::fmt::Debug) -> &'static str {
    if !label.is_empty() {
        return label;
    }
    let s = format!("{meta:?}");
    if s.contains("Client") {
        "c"
    } else {
        "s"
    }
}

impl event::Subscriber for Sub {
    type ConnectionContext = ();

    fn create_connection_context(&mut self, _meta: &ConnectionMeta, _info: &ConnectionInfo) -> Self::ConnectionContext {}

    fn on_connection_event<E: Event>(&mut self, _ctx: &mut Self::ConnectionContext, meta: &ConnectionMeta, event: &E) {
        if !self.enabled || !WANTED.contains(&E::NAME) {
            return;
        }
        let t = trace::now();
        let txt = format!("{event:?}").replace('\n', " ");
        trace::line(format!("ev {t} {} {} {} {txt}", ep(self.label, &meta.endpoint_type), meta.id, E::NAME));
    }

    fn on_endpoint_datagram_dropped(&mut self, meta: &events::EndpointMeta, event: &events::EndpointDatagramDropped) {
        if !self.enabled || !self.endpoint_drops {
            return;
        }
        let t = trace::now();
        let txt = format!("{event:?}").replace('\n', " ");
        trace::line(format!("ev {t} {} - transport:endpoint_datagram_dropped {txt}", ep(self.label, &meta.endpoint_type)));
    }

    fn on_event<M: Meta, E: Event>(&mut self, meta: &M, event: &E) {
        // endpoint-level events only (connection events are reported above)
        if !self.enabled || !E::NAME.contains("endpoint") {
            return;
        }
        if !WANTED.contains(&E::NAME) {
            return;
        }
        let t = trace::now();
        let txt = format!("{event:?}").replace('\n', " ");
        trace::line(format!("ev {t} {} - {} {txt}", ep(self.label, meta.endpoint_type()), E::NAME));
    }
}

#[allow(dead_code)]
fn _unused(_: events::PacketSent) {}
