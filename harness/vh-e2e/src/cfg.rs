//! scenario parameters (`key=value` tokens). Integers only (no floats): rates are per-mille.
#[derive(Clone, Debug)]
pub struct Limits {
    pub data_window: u64,
    pub bidi_local: u64,
    pub bidi_remote: u64,
    pub uni: u64,
    pub max_bidi_remote: u64,
    pub max_uni_remote: u64,
    pub max_bidi_local: u64,
    pub max_uni_local: u64,
    pub max_idle_ms: u64,
    pub max_ack_delay_ms: u64,
    pub send_buffer: u64,
    /// active_connection_id_limit transport parameter this endpoint declares (0 = library default)
    pub active_cid_limit: u64,
    /// per-endpoint overrides of the connection-id provider (0 = inherit the global setting);
    /// rotate_handshake_cid: 1 = off, 2 = on
    pub cid_lifetime_ms: u64,
    /// lifetime of every second connection id this endpoint generates (0 = all ids get `cid_lifetime_ms`)
    pub cid_lifetime_alt_ms: u64,
    pub cid_len: u64,
    pub rotate_handshake_cid: u64,
}

impl Default for Limits {
    fn default() -> Self {
        Self {
            data_window: 0,
            bidi_local: 0,
            bidi_remote: 0,
            uni: 0,
            max_bidi_remote: 0,
            max_uni_remote: 0,
            max_bidi_local: 0,
            max_uni_local: 0,
            max_idle_ms: 0,
            max_ack_delay_ms: 0,
            send_buffer: 0,
            active_cid_limit: 0,
            cid_lifetime_ms: 0,
            cid_lifetime_alt_ms: 0,
            cid_len: 0,
            rotate_handshake_cid: 0,
        }
    }
}

#[derive(Clone, Debug)]
pub struct Cfg {
    pub seed: u64,
    // network
    pub delay_ms: u64,
    pub jitter_ms: u64,
    pub drop_pm: u64,
    pub dup_pm: u64,
    pub corrupt_pm: u64,
    pub inject_pm: u64,
    pub replay_pm: u64,
    pub net_mtu: usize,
    /// drop server->client datagrams SMALLER than this many bytes (ACK-only packets) while faults are on
    pub drop_small_s2c: usize,
    /// fault prefix: after this virtual time (ms) the network becomes perfect (0 = faults forever)
    pub faults_until_ms: u64,
    /// blackholes: (start_ms, end_ms, dir) dir: 0 both, 1 client->server, 2 server->client
    pub blackholes: Vec<(u64, u64, u8)>,
    // endpoints
    pub client: Limits,
    pub server: Limits,
    pub cc: String,
    pub max_mtu: u16,
    // workload
    pub bidi: u64,
    pub uni: u64,
    pub suni: u64,
    pub size: u64,
    pub chunk: u64,
    pub read_delay_ms: u64,
    /// reset the k-th client stream after writing this many bytes (0 = never)
    pub reset_stream: i64,
    pub reset_after: u64,
    /// writer API: 0 send(Bytes), 1 send_vectored, 2 tokio write, 3 tokio write_vectored, 4 futures write, 9 per-stream mix
    pub wapi: u64,
    /// reader API: 0 receive(), 1 receive_vectored, 2 tokio read with a small buffer, 3 futures read, 9 per-stream mix
    pub rapi: u64,
    pub rbuf: u64,
    /// finish without waiting, then reset after this delay (0 = off)
    pub reset_after_finish_ms: u64,
    /// the server answers every token-less Initial with a Retry (address validation)
    pub retry: bool,
    pub reset_delay_ms: u64,
    /// server sends STOP_SENDING on the k-th accepted receive side after reading that many bytes
    pub stop_stream: i64,
    pub stop_after: u64,
    /// application close by the client at this virtual time (0 = never)
    pub close_at_ms: u64,
    /// rebind the client's address at these virtual times (ms); empty = never
    pub rebind_at_ms: Vec<u64>,
    /// 0: a rebind changes the port only; 1: changes the IP address; 2: alternates port / IP (always a fresh address);
    /// 3: the client toggles between its first address A and ONE other address B (port change): A, B, A, B, ..
    /// (the peer sees migrations back to a path it already knows); 4: like 3 with an IP change
    pub rebind_ip: u64,
    /// a SECOND client (its own endpoint and address, trace label `d`) connects to the same server at this virtual
    /// time (0 = no second client)
    pub conn2_at_ms: u64,
    /// the original Destination Connection ID the second client puts on its first Initial (hex, 8 bytes;
    /// empty = the library's random choice)
    pub conn2_dcid: Vec<u8>,
    /// bytes the second client writes on its one bidirectional stream
    pub conn2_size: u64,
    /// custom deterministic connection-id provider (used when any of the three is set):
    /// lifetime of every generated id (0 = none), id length (0 = 16), rotation of the handshake id (-1 = default)
    pub cid_lifetime_ms: u64,
    pub cid_len: u64,
    pub rotate_handshake_cid: i64,
    /// the client keeps the connection open until this virtual time (ms), writing one small
    /// stream every `tick_ms` (0 = no hold phase)
    pub hold_ms: u64,
    /// after the workload the client enables keep-alive, stays silent this long, then sends one more stream (0 = off)
    pub quiet_ms: u64,
    pub tick_ms: u64,
    /// also trace datagrams the ENDPOINT could not route to a connection
    /// (`ev <t> <ep> - transport:endpoint_datagram_dropped …`; off by default)
    pub endpoint_drops: bool,
    /// watchdog: scenario is abandoned at this virtual time
    pub deadline_ms: u64,
    /// adversarial-peer attack name (client rewrites its own cleartext payloads) and trigger
    pub attack: String,
    pub attack_at: u64,
    /// packet-number space whose (attack_at+1)-th packet is rewritten: app (default) | initial | handshake
    pub attack_space: String,
    /// which endpoint plays the adversarial peer: c (default; the victim is the server) | s
    pub attacker: String,
    /// record cleartext payloads (hex) in the trace
    pub payloads: bool,
    pub events: bool,
    /// datagrams that belong to no connection, sent from a third (attacker) address to the server:
    /// `unknown-cid-short` | `unknown-version-long` | `vn-packet` | `tiny` | `mix` ("" = none)
    pub inject_kind: String,
    /// per-mille rate of such injections per network round with traffic
    pub inject_kind_pm: u64,
    /// size of the injected datagram (0 = cycle through the boundary sizes)
    pub inject_size: usize,
    /// strays per network round (each delivered one microsecond after the previous one)
    pub inject_burst: u64,
    /// per-mille rate (per network round with traffic) of re-sending a genuine client datagram to the server from a
    /// THIRD source address (off-path attacker spoofing / replaying from elsewhere; never validated)
    pub spoof_pm: u64,
    /// only datagrams of at most this many bytes are used for spoofing (0 = any)
    pub spoof_max_len: usize,
    /// number of distinct spoofed source addresses (1.0.77.77 .. , rotating; 0/1 = one address)
    pub spoof_addrs: u64,
    /// the spoofed copy keeps only the first 21 bytes (flags + destination connection id) of the genuine datagram, the
    /// rest is random: it is routed to the connection but cannot be authenticated
    pub spoof_garbage: bool,
    /// application close by the SERVER at this virtual time (0 = never)
    pub sclose_at_ms: u64,
    /// how many leading bytes of each datagram are recorded in `wire` lines
    pub wire_head: usize,
    /// enable stateless resets on the server (keyed token generator); off = s2n-quic default
    pub sreset: bool,
    /// rewrite the transport-parameter block an endpoint DECLARES: `<ep>:<mutation>[,<ep>:<mutation>…]`
    /// (see tpw.rs for the mutation grammar; "" = nothing is rewritten)
    pub tp_mut: String,
}

impl Default for Cfg {
    fn default() -> Self {
        Self {
            seed: 1,
            delay_ms: 25,
            jitter_ms: 0,
            drop_pm: 0,
            dup_pm: 0,
            corrupt_pm: 0,
            inject_pm: 0,
            replay_pm: 0,
            net_mtu: 65535,
            drop_small_s2c: 0,
            faults_until_ms: 0,
            blackholes: vec![],
            client: Limits::default(),
            server: Limits::default(),
            cc: "cubic".into(),
            max_mtu: 0,
            bidi: 1,
            uni: 0,
            suni: 0,
            size: 10_000,
            chunk: 1000,
            read_delay_ms: 0,
            reset_stream: -1,
            reset_after: 0,
            wapi: 0,
            rapi: 0,
            rbuf: 700,
            reset_after_finish_ms: 0,
            retry: false,
            reset_delay_ms: 0,
            stop_stream: -1,
            stop_after: 0,
            close_at_ms: 0,
            rebind_at_ms: vec![],
            rebind_ip: 0,
            conn2_at_ms: 0,
            conn2_dcid: vec![],
            conn2_size: 2000,
            cid_lifetime_ms: 0,
            cid_len: 0,
            rotate_handshake_cid: -1,
            hold_ms: 0,
            quiet_ms: 0,
            tick_ms: 1000,
            endpoint_drops: false,
            deadline_ms: 600_000,
            attack: String::new(),
            attack_at: 0,
            attack_space: "app".into(),
            attacker: "c".into(),
            payloads: true,
            events: true,
            inject_kind: String::new(),
            inject_kind_pm: 0,
            inject_size: 0,
            inject_burst: 1,
            spoof_pm: 0,
            spoof_max_len: 0,
            spoof_addrs: 0,
            spoof_garbage: false,
            sclose_at_ms: 0,
            wire_head: 48,
            sreset: false,
            tp_mut: String::new(),
        }
    }
}

fn lim(l: &mut Limits, k: &str, v: u64) -> bool {
    match k {
        "data_window" => l.data_window = v,
        "bidi_local" => l.bidi_local = v,
        "bidi_remote" => l.bidi_remote = v,
        "uni" => l.uni = v,
        "max_bidi_remote" => l.max_bidi_remote = v,
        "max_uni_remote" => l.max_uni_remote = v,
        "max_bidi_local" => l.max_bidi_local = v,
        "max_uni_local" => l.max_uni_local = v,
        "max_idle_ms" => l.max_idle_ms = v,
        "max_ack_delay_ms" => l.max_ack_delay_ms = v,
        "send_buffer" => l.send_buffer = v,
        "active_cid_limit" => l.active_cid_limit = v,
        "cid_lifetime_ms" => l.cid_lifetime_ms = v,
        "cid_lifetime_alt_ms" => l.cid_lifetime_alt_ms = v,
        "cid_len" => l.cid_len = v,
        "rotate_handshake_cid" => l.rotate_handshake_cid = v,
        _ => return false,
    }
    true
}

impl Cfg {
    pub fn parse(args: &[String]) -> Result<Self, String> {
        let mut c = Cfg::default();
        for a in args {
            let (k, v) = a.split_once('=').ok_or_else(|| format!("expected key=value: {a}"))?;
            let n = || v.parse::<u64>().map_err(|_| format!("bad integer for {k}: {v}"));
            if let Some(k2) = k.strip_prefix("c.") {
                if !lim(&mut c.client, k2, n()?) {
                    return Err(format!("unknown key {k}"));
                }
                continue;
            }
            if let Some(k2) = k.strip_prefix("s.") {
                if !lim(&mut c.server, k2, n()?) {
                    return Err(format!("unknown key {k}"));
                }
                continue;
            }
            match k {
                "seed" => c.seed = n()?,
                "delay_ms" => c.delay_ms = n()?,
                "jitter_ms" => c.jitter_ms = n()?,
                "drop_pm" => c.drop_pm = n()?,
                "dup_pm" => c.dup_pm = n()?,
                "corrupt_pm" => c.corrupt_pm = n()?,
                "inject_pm" => c.inject_pm = n()?,
                "replay_pm" => c.replay_pm = n()?,
                "net_mtu" => c.net_mtu = n()? as usize,
                "drop_small_s2c" => c.drop_small_s2c = n()? as usize,
                "faults_until_ms" => c.faults_until_ms = n()?,
                "bh" => {
                    for part in v.split(',').filter(|p| !p.is_empty()) {
                        let f: Vec<&str> = part.split(':').collect();
                        if f.len() != 3 {
                            return Err(format!("bad blackhole {part}"));
                        }
                        let p = |s: &str| s.parse::<u64>().map_err(|_| format!("bad blackhole {part}"));
                        c.blackholes.push((p(f[0])?, p(f[1])?, p(f[2])? as u8));
                    }
                }
                "cc" => c.cc = v.to_string(),
                "max_mtu" => c.max_mtu = n()? as u16,
                "bidi" => c.bidi = n()?,
                "uni" => c.uni = n()?,
                "suni" => c.suni = n()?,
                "size" => c.size = n()?,
                "chunk" => c.chunk = n()?.max(1),
                "read_delay_ms" => c.read_delay_ms = n()?,
                "reset_stream" => c.reset_stream = n()? as i64,
                "reset_after" => c.reset_after = n()?,
                "wapi" => c.wapi = n()?,
                "rapi" => c.rapi = n()?,
                "rbuf" => c.rbuf = n()?.max(1),
                "reset_after_finish_ms" => c.reset_after_finish_ms = n()?,
                "retry" => c.retry = n()? != 0,
                "reset_delay_ms" => c.reset_delay_ms = n()?,
                "stop_stream" => c.stop_stream = n()? as i64,
                "stop_after" => c.stop_after = n()?,
                "close_at_ms" => c.close_at_ms = n()?,
                "rebind_at_ms" => {
                    for part in v.split(',').filter(|p| !p.is_empty()) {
                        let t = part.parse::<u64>().map_err(|_| format!("bad rebind time {part}"))?;
                        if t > 0 {
                            c.rebind_at_ms.push(t);
                        }
                    }
                    c.rebind_at_ms.sort();
                }
                "rebind_ip" => c.rebind_ip = n()?,
                "conn2_at_ms" => c.conn2_at_ms = n()?,
                "conn2_size" => c.conn2_size = n()?,
                "conn2_dcid" => {
                    if v.len() % 2 != 0 || !v.bytes().all(|b| b.is_ascii_hexdigit()) {
                        return Err(format!("bad hex for {k}: {v}"));
                    }
                    c.conn2_dcid = (0..v.len() / 2).map(|i| u8::from_str_radix(&v[2 * i..2 * i + 2], 16).unwrap()).collect();
                }
                "cid_lifetime_ms" => c.cid_lifetime_ms = n()?,
                "cid_len" => c.cid_len = n()?,
                "rotate_handshake_cid" => c.rotate_handshake_cid = n()? as i64,
                "hold_ms" => c.hold_ms = n()?,
                "quiet_ms" => c.quiet_ms = n()?,
                "tick_ms" => c.tick_ms = n()?.max(1),
                "endpoint_drops" => c.endpoint_drops = n()? != 0,
                "deadline_ms" => c.deadline_ms = n()?,
                "attack" => c.attack = v.to_string(),
                "attack_at" => c.attack_at = n()?,
                "attack_space" => match v {
                    "app" | "initial" | "handshake" => c.attack_space = v.to_string(),
                    _ => return Err(format!("bad attack_space {v}")),
                },
                "attacker" => match v {
                    "c" | "s" => c.attacker = v.to_string(),
                    _ => return Err(format!("bad attacker {v}")),
                },
                "payloads" => c.payloads = n()? != 0,
                "events" => c.events = n()? != 0,
                "inject_kind" => c.inject_kind = v.to_string(),
                "inject_kind_pm" => c.inject_kind_pm = n()?,
                "inject_size" => c.inject_size = n()? as usize,
                "inject_burst" => c.inject_burst = n()?,
                "spoof_pm" => c.spoof_pm = n()?,
                "spoof_max_len" => c.spoof_max_len = n()? as usize,
                "spoof_addrs" => c.spoof_addrs = n()?,
                "spoof_garbage" => c.spoof_garbage = n()? != 0,
                "sclose_at_ms" => c.sclose_at_ms = n()?,
                "wire_head" => c.wire_head = n()? as usize,
                "sreset" => c.sreset = n()? != 0,
                "tp_mut" => {
                    crate::tpw::parse(v, "c")?;
                    c.tp_mut = v.to_string();
                }
                _ => return Err(format!("unknown key {k}")),
            }
        }
        Ok(c)
    }

    /// the connection-id provider settings of one endpoint: None = keep the library default provider
    pub fn cid_format(&self, l: &Limits) -> Option<(usize, Option<u64>, bool)> {
        let lifetime = if l.cid_lifetime_ms > 0 { l.cid_lifetime_ms } else { self.cid_lifetime_ms };
        let len = if l.cid_len > 0 { l.cid_len } else { self.cid_len };
        let rotate = match l.rotate_handshake_cid {
            1 => Some(false),
            2 => Some(true),
            _ => match self.rotate_handshake_cid {
                0 => Some(false),
                1 => Some(true),
                _ => None,
            },
        };
        if lifetime == 0 && len == 0 && rotate.is_none() {
            return None;
        }
        Some((
            if len == 0 { 16 } else { len as usize },
            if lifetime == 0 { None } else { Some(lifetime) },
            rotate.unwrap_or(true),
        ))
    }

    pub fn echo(&self) -> String {
        format!("{self:?}").replace('\n', " ")
    }
}

/// splitmix64: the one PRNG / keyed function used everywhere in the harness
pub fn mix(mut z: u64) -> u64 {
    z = z.wrapping_add(0x9e3779b97f4a7c15);
    z = (z ^ (z >> 30)).wrapping_mul(0xbf58476d1ce4e5b9);
    z = (z ^ (z >> 27)).wrapping_mul(0x94d049bb133111eb);
    z ^ (z >> 31)
}

pub struct Rng(pub u64);

impl Rng {
    pub fn next(&mut self) -> u64 {
        self.0 = self.0.wrapping_add(0x9e3779b97f4a7c15);
        mix(self.0)
    }
    pub fn below(&mut self, n: u64) -> u64 {
        if n == 0 {
            0
        } else {
            self.next() % n
        }
    }
    pub fn pm(&mut self, rate_pm: u64) -> bool {
        rate_pm > 0 && self.below(1000) < rate_pm
    }
}

/// keyed, position-dependent payload byte (period 2^64, not 256): byte `i` of the stream with key `k`
pub fn payload_byte(key: u64, i: u64) -> u8 {
    let w = mix(key ^ (i >> 3).wrapping_mul(0xd6e8feb86659fd93));
    (w >> ((i & 7) * 8)) as u8
}

pub fn payload(key: u64, off: u64, len: usize) -> Vec<u8> {
    (0..len as u64).map(|j| payload_byte(key, off + j)).collect()
}

/// the payload key of a stream: both endpoints derive it from the scenario seed and the stream id;
/// server-initiated data uses a different key space
pub fn stream_key(seed: u64, stream_id: u64, from_server: bool) -> u64 {
    mix(seed.wrapping_mul(0x100000001b3) ^ stream_id.wrapping_mul(0x9e3779b97f4a7c15) ^ if from_server { 0x5555 } else { 0 })
}
