//! vh-e2e: runs ONE deterministic end-to-end scenario (real s2n-quic client + server on the repo's
//! simulated IO provider, adversarial network, small limits, keyed payloads) and prints a trace
//! (one event per line) on stdout. See /verif/DESIGN.md §2.2 (tie T) for the line format.
//!
//! usage: vh-e2e key=value ...      (all parameters have defaults; see `Cfg`)
mod app;
mod attacks;
mod cfg;
mod icpt;
mod net;
mod sub;
mod tpw;
mod trace;

use cfg::Cfg;
use s2n_quic::provider::io::testing as io;
use std::panic::{catch_unwind, AssertUnwindSafe};

fn main() {
    let args: Vec<String> = std::env::args().skip(1).collect();
    let cfg = match Cfg::parse(&args) {
        Ok(c) => c,
        Err(e) => {
            eprintln!("bad scenario: {e}");
            std::process::exit(2);
        }
    };
    trace::line(format!("cfg {}", cfg.echo()));
    std::panic::set_hook(Box::new(|info| {
        let msg = info.to_string().replace('\n', " ");
        trace::line(format!("panic-hook {}", msg.chars().take(300).collect::<String>()));
    }));
    let network = net::Adversary::new(&cfg);
    let c2 = cfg.clone();
    let r = catch_unwind(AssertUnwindSafe(|| {
        io::test_seed(network, cfg.seed, move |handle| app::setup(handle, &c2))
    }));
    match r {
        Ok(Ok(d)) => trace::line(format!("end {} ok", d.as_micros())),
        Ok(Err(e)) => trace::line(format!("end 0 setup-error {}", e.to_string().replace('\n', " "))),
        Err(e) => {
            let msg = if let Some(s) = e.downcast_ref::<String>() {
                s.clone()
            } else if let Some(s) = e.downcast_ref::<&str>() {
                s.to_string()
            } else {
                "?".into()
            };
            trace::line(format!("end {} panic {}", trace::last_time(), msg.replace('\n', " ").chars().take(300).collect::<String>()));
        }
    }
    trace::flush();
    // some tasks may still hold resources; exit hard, the trace is complete
    std::process::exit(0);
}
