//! application workload: real `s2n_quic::{Client, Server}` on the simulated IO provider.
//! Trace lines (virtual time in µs, endpoint c|s):
//!   app <t> <ep> open <sid> <kind>
//!   app <t> <ep> write <sid> <off> <len>          (send() resolved Ok)
//!   app <t> <ep> finish <sid> <total>            (finish()/close resolved Ok)
//!   app <t> <ep> read <sid> <off> <len> ok|BAD <first mismatch offset>
//!   app <t> <ep> eof <sid> <total>
//!   app <t> <ep> reset <sid> / stop <sid>
//!   app <t> <ep> err <sid|-> <where> <debug of the error>
//!   app <t> <ep> connected <conn id> / accepted
//!   app <t> c done
use crate::{
    cfg::{self, Cfg, Limits, Rng},
    icpt::Icpt,
    sub::Sub,
    trace,
};
use bytes::Bytes;
use s2n_quic::{
    client::Connect,
    provider::{
        congestion_controller::{Bbr, Cubic},
        io::testing::{self as io, primary, spawn, Handle, Result},
        limits,
    },
    stream::{PeerStream, ReceiveStream, SendStream},
    Client, Server,
};
use s2n_quic_core::crypto::tls::testing::certificates;
use std::time::Duration;

fn log(ep: &str, s: String) {
    trace::line(format!("app {} {ep} {s}", trace::now()));
}

fn dbg<E: core::fmt::Debug>(e: &E) -> String {
    format!("{e:?}").replace('\n', " ").chars().take(300).collect()
}

fn mk_limits(l: &Limits) -> limits::Limits {
    let mut v = limits::Limits::new();
    macro_rules! set {
        ($field:ident, $setter:ident) => {
            if l.$field > 0 {
                v = v.$setter(l.$field).expect(stringify!($setter));
            }
        };
    }
    set!(data_window, with_data_window);
    set!(bidi_local, with_bidirectional_local_data_window);
    set!(bidi_remote, with_bidirectional_remote_data_window);
    set!(uni, with_unidirectional_data_window);
    set!(max_bidi_remote, with_max_open_remote_bidirectional_streams);
    set!(max_uni_remote, with_max_open_remote_unidirectional_streams);
    set!(max_bidi_local, with_max_open_local_bidirectional_streams);
    set!(max_uni_local, with_max_open_local_unidirectional_streams);
    if l.max_idle_ms > 0 {
        v = v.with_max_idle_timeout(Duration::from_millis(l.max_idle_ms)).expect("idle");
    }
    if l.max_ack_delay_ms > 0 {
        v = v.with_max_ack_delay(Duration::from_millis(l.max_ack_delay_ms)).expect("ack delay");
    }
    if l.send_buffer > 0 {
        v = v.with_max_send_buffer_size(l.send_buffer as u32).expect("send buffer");
    }
    set!(active_cid_limit, with_max_active_connection_ids);
    v
}

/// deterministic connection-id provider (C13 scenarios): ids are drawn from the scenario PRNG, have the
/// configured length / lifetime and the configured handshake-id rotation setting
pub struct CidFormat {
    rng: Rng,
    len: usize,
    lifetime: Option<Duration>,
    /// lifetime of every second generated id (`cid_lifetime_alt_ms`; ids then expire out of sequence-number order)
    lifetime_alt: Option<Duration>,
    generated: u64,
    rotate: bool,
}

impl CidFormat {
    fn new(seed: u64, (len, lifetime_ms, rotate): (usize, Option<u64>, bool)) -> Self {
        Self {
            rng: Rng(cfg::mix(seed ^ 0xc1d0_c1d0)),
            len: len.clamp(4, 20),
            lifetime: lifetime_ms.map(Duration::from_millis),
            lifetime_alt: None,
            generated: 0,
            rotate,
        }
    }
    fn with_alt(mut self, alt_ms: u64) -> Self {
        if alt_ms > 0 && self.lifetime.is_some() {
            self.lifetime_alt = Some(Duration::from_millis(alt_ms));
        }
        self
    }
}

impl s2n_quic::provider::connection_id::Generator for CidFormat {
    fn generate(&mut self, _info: &s2n_quic::provider::connection_id::ConnectionInfo) -> s2n_quic::provider::connection_id::LocalId {
        let mut id = [0u8; 20];
        for b in id.iter_mut() {
            *b = self.rng.next() as u8;
        }
        self.generated += 1;
        s2n_quic::provider::connection_id::LocalId::try_from_bytes(&id[..self.len]).expect("length checked")
    }
    fn lifetime(&self) -> Option<Duration> {
        // the registry asks for the lifetime right after generating an id
        match self.lifetime_alt {
            Some(alt) if self.generated % 2 == 0 => Some(alt),
            _ => self.lifetime,
        }
    }
    fn rotate_handshake_connection_id(&self) -> bool {
        self.rotate
    }
}

impl s2n_quic::provider::connection_id::Validator for CidFormat {
    fn validate(&self, _info: &s2n_quic::provider::connection_id::ConnectionInfo, buffer: &[u8]) -> Option<usize> {
        if buffer.len() >= self.len {
            Some(self.len)
        } else {
            None
        }
    }
}

/// deterministic random provider. `script`: the bytes handed out by the first `public_random_fill` of exactly that
/// length — on a client endpoint this is the original Destination Connection ID of its first Initial
/// (endpoint/mod.rs: `public_random_fill(&mut [0u8; InitialId::MIN_LEN])`), i.e. the client's own choice.
pub struct Random(Rng, Option<Vec<u8>>);

impl s2n_quic::provider::random::Provider for Random {
    type Generator = Self;
    type Error = core::convert::Infallible;
    fn start(self) -> core::result::Result<Self::Generator, Self::Error> {
        Ok(self)
    }
}

impl s2n_quic::provider::random::Generator for Random {
    fn public_random_fill(&mut self, dest: &mut [u8]) {
        if self.1.as_ref().map(|v| v.len() == dest.len()).unwrap_or(false) {
            dest.copy_from_slice(&self.1.take().unwrap());
            return;
        }
        for b in dest {
            *b = self.0.next() as u8;
        }
    }
    fn private_random_fill(&mut self, dest: &mut [u8]) {
        for b in dest {
            *b = self.0.next() as u8;
        }
    }
}

/// endpoint limiter: optionally demands address validation (Retry) for every token-less Initial
pub struct RetryLimiter(pub bool);

impl s2n_quic::provider::endpoint_limits::Limiter for RetryLimiter {
    fn on_connection_attempt(
        &mut self,
        _info: &s2n_quic::provider::endpoint_limits::ConnectionAttempt,
    ) -> s2n_quic::provider::endpoint_limits::Outcome {
        if self.0 {
            s2n_quic::provider::endpoint_limits::Outcome::retry()
        } else {
            s2n_quic::provider::endpoint_limits::Outcome::allow()
        }
    }
}

macro_rules! finish {
    ($b:expr, $cfg:expr) => {{
        let b = $b;
        if $cfg.cc == "bbr" {
            b.with_congestion_controller(Bbr::default())?.start()?
        } else {
            b.with_congestion_controller(Cubic::default())?.start()?
        }
    }};
}

/// deterministic, keyed stateless reset tokens (same token for the same connection id)
#[derive(Debug)]
pub struct SResetTokens(pub u64);

impl s2n_quic::provider::stateless_reset_token::Generator for SResetTokens {
    const ENABLED: bool = true;

    fn generate(&mut self, local_connection_id: &[u8]) -> s2n_quic_core::stateless_reset::Token {
        let mut h = self.0;
        for b in local_connection_id {
            h = cfg::mix(h ^ *b as u64);
        }
        let mut t = [0u8; 16];
        t[..8].copy_from_slice(&cfg::mix(h).to_le_bytes());
        t[8..].copy_from_slice(&cfg::mix(h ^ 0xabcd).to_le_bytes());
        t.into()
    }
}

impl s2n_quic::provider::stateless_reset_token::Provider for SResetTokens {
    type Generator = Self;
    type Error = core::convert::Infallible;

    fn start(self) -> std::result::Result<Self::Generator, Self::Error> {
        Ok(self)
    }
}

macro_rules! build {
    ($builder:expr, $io:expr, $cfg:expr, $ep:expr, $lim:expr, $tls:expr, $salt:expr) => {
        build!($builder, $io, $cfg, $ep, $lim, $tls, $salt, "", None)
    };
    ($builder:expr, $io:expr, $cfg:expr, $ep:expr, $lim:expr, $tls:expr, $salt:expr, $label:expr, $script:expr) => {{
        let mut io = $io;
        if $cfg.max_mtu > 0 {
            io = io.with_max_mtu($cfg.max_mtu);
        }
        let b = $builder
            .with_io(io.build()?)?
            .with_tls(crate::tpw::TpTls {
                inner: $tls,
                limit: $lim.active_cid_limit,
                ep: $ep,
                muts: crate::tpw::parse(&$cfg.tp_mut, $ep).unwrap_or_default(),
                seed: $cfg.seed,
            })?
            .with_event(Sub { enabled: $cfg.events, endpoint_drops: $cfg.endpoint_drops, label: $label })?
            .with_random(Random(Rng(cfg::mix($cfg.seed ^ $salt)), $script))?
            .with_limits(mk_limits($lim))?
            .with_packet_interceptor(Icpt::new($ep, $cfg))?;
        // same settings as the library's default connection-id provider (16 random bytes, no lifetime,
        // handshake-id rotation on) unless a C13 parameter says otherwise; bytes come from the scenario PRNG
        let f = $cfg.cid_format($lim).unwrap_or((16, None, true));
        let b = b.with_connection_id(CidFormat::new($cfg.seed ^ $salt, f).with_alt($lim.cid_lifetime_alt_ms))?;
        if $cfg.sreset && $ep == "s" {
            // stateless resets are off by default in s2n-quic; a keyed generator turns them on (scenario parameter)
            let b = b.with_stateless_reset_token(SResetTokens(cfg::mix($cfg.seed ^ 0x5e5e)))?;
            finish!(b, $cfg)
        } else {
            finish!(b, $cfg)
        }
    }};
}

/// client address rebinding schedule (NAT rebinding / migration as seen by the server): at each listed
/// virtual time the client's socket moves to a fresh port (or IP address)
fn rebinder(cfg: &Cfg) -> impl FnOnce(io::Socket) + 'static {
    let times = cfg.rebind_at_ms.clone();
    let mode = cfg.rebind_ip;
    move |socket: io::Socket| {
        spawn(async move {
            let mut home: Option<std::net::SocketAddr> = None;
            for (k, at) in times.iter().enumerate() {
                let now_ms = trace::now() / 1000;
                if *at > now_ms {
                    io::time::delay(Duration::from_millis(*at - now_ms)).await;
                }
                let Ok(old) = socket.local_addr() else { return };
                let mut new = old;
                let change_ip = mode == 1 || mode == 4 || (mode == 2 && k % 2 == 1);
                let home_addr = *home.get_or_insert(old);
                if (mode == 3 || mode == 4) && k % 2 == 1 {
                    // back to the first address: the server already has a path for it
                    new = home_addr;
                } else if change_ip {
                    if let std::net::IpAddr::V4(ip) = old.ip() {
                        let v = u32::from_be_bytes(ip.octets()).wrapping_add(1);
                        new.set_ip(std::net::Ipv4Addr::from(v).into());
                    }
                } else {
                    new.set_port(old.port().wrapping_add(1).max(1024));
                }
                socket.rebind(new);
                log("c", format!("rebind {old} {new}"));
            }
        });
    }
}

pub fn setup(handle: &Handle, cfg: &Cfg) -> Result<()> {
    let server: Server = build!(
        Server::builder().with_endpoint_limits(RetryLimiter(cfg.retry))?,
        handle.builder(),
        cfg,
        "s",
        &cfg.server,
        s2n_quic::provider::tls::default::Server::builder().with_certificate(certificates::CERT_PEM, certificates::KEY_PEM)?.build()?,
        0x5e
    );
    let client_io = if cfg.rebind_at_ms.is_empty() { handle.builder() } else { handle.builder().on_socket(rebinder(cfg)) };
    let client: Client = build!(
        Client::builder(),
        client_io,
        cfg,
        "c",
        &cfg.client,
        s2n_quic::provider::tls::default::Client::builder().with_certificate(certificates::CERT_PEM)?.build()?,
        0xc1
    );
    let addr = start_server(server, cfg.clone())?;
    start_client(client, addr, cfg.clone());
    if cfg.conn2_at_ms > 0 {
        // a second, independent client endpoint (own address); its first Initial carries the chosen DCID
        let script = if cfg.conn2_dcid.is_empty() { None } else { Some(cfg.conn2_dcid.clone()) };
        let client2: Client = build!(
            Client::builder(),
            handle.builder(),
            cfg,
            "d",
            &cfg.client,
            s2n_quic::provider::tls::default::Client::builder().with_certificate(certificates::CERT_PEM)?.build()?,
            0xd2,
            "d",
            script
        );
        start_client2(client2, addr, cfg.clone());
    }
    // watchdog: give up at the deadline (reported, so that "never terminates" is observable)
    let deadline = cfg.deadline_ms;
    spawn(async move {
        io::time::delay(Duration::from_millis(deadline)).await;
        if trace::now() < deadline * 1000 {
            // the executor is shutting down (all primary tasks finished): not a deadline
            return;
        }
        trace::line(format!("end {} deadline", trace::now()));
        trace::flush();
        std::process::exit(0);
    });
    Ok(())
}

fn check_chunk(ep: &'static str, sid: u64, key: u64, off: u64, chunk: &[u8]) {
    let mut bad = None;
    for (j, b) in chunk.iter().enumerate() {
        if *b != cfg::payload_byte(key, off + j as u64) {
            bad = Some(off + j as u64);
            break;
        }
    }
    match bad {
        None => log(ep, format!("read {sid} {off} {} ok", chunk.len())),
        Some(p) => log(ep, format!("read {sid} {off} {} BAD {p}", chunk.len())),
    }
}

/// reads a receive stream to the end, verifying every byte against the keyed payload.
/// The read API is a scenario parameter (`rapi`): receive(), receive_vectored, tokio / futures AsyncRead
/// with a small buffer.
async fn read_all(ep: &'static str, mut recv: ReceiveStream, key: u64, cfg: Cfg, stop_after: Option<u64>) {
    let sid: u64 = recv.id().into();
    let mut off = 0u64;
    let api = if cfg.rapi == 9 { cfg::mix(cfg.seed ^ sid ^ 0x7a91) % 4 } else { cfg.rapi };
    if stop_after == Some(0) {
        let _ = recv.stop_sending(7u32.into());
        log(ep, format!("stop {sid}"));
        return;
    }
    let mut buf = vec![0u8; cfg.rbuf as usize];
    loop {
        if cfg.read_delay_ms > 0 {
            io::time::delay(Duration::from_millis(cfg.read_delay_ms)).await;
        }
        // each arm yields: Ok(Some(bytes read this round)) | Ok(None) = clean end | Err
        let round: core::result::Result<Option<u64>, String> = match api {
            1 => {
                let mut chunks = [Bytes::new(), Bytes::new(), Bytes::new()];
                match recv.receive_vectored(&mut chunks).await {
                    Ok((count, is_open)) => {
                        let mut n = 0u64;
                        for c in &chunks[..count] {
                            check_chunk(ep, sid, key, off + n, c);
                            n += c.len() as u64;
                        }
                        if !is_open && count == 0 {
                            Ok(None)
                        } else {
                            if !is_open {
                                // data and the end were reported together
                                off += n;
                                log(ep, format!("eof {sid} {off}"));
                                return;
                            }
                            Ok(Some(n))
                        }
                    }
                    Err(e) => Err(dbg(&e)),
                }
            }
            2 => {
                use tokio::io::AsyncReadExt;
                match recv.read(&mut buf).await {
                    Ok(0) => Ok(None),
                    Ok(n) => {
                        check_chunk(ep, sid, key, off, &buf[..n]);
                        Ok(Some(n as u64))
                    }
                    Err(e) => Err(dbg(&e)),
                }
            }
            3 => {
                use futures::io::AsyncReadExt;
                match recv.read(&mut buf).await {
                    Ok(0) => Ok(None),
                    Ok(n) => {
                        check_chunk(ep, sid, key, off, &buf[..n]);
                        Ok(Some(n as u64))
                    }
                    Err(e) => Err(dbg(&e)),
                }
            }
            _ => match recv.receive().await {
                Ok(Some(chunk)) => {
                    check_chunk(ep, sid, key, off, &chunk);
                    Ok(Some(chunk.len() as u64))
                }
                Ok(None) => Ok(None),
                Err(e) => Err(dbg(&e)),
            },
        };
        match round {
            Ok(Some(n)) => {
                off += n;
                if let Some(limit) = stop_after {
                    if off >= limit {
                        let _ = recv.stop_sending(7u32.into());
                        log(ep, format!("stop {sid}"));
                        return;
                    }
                }
            }
            Ok(None) => {
                log(ep, format!("eof {sid} {off}"));
                return;
            }
            Err(e) => {
                log(ep, format!("err {sid} receive {e}"));
                return;
            }
        }
    }
}

/// writes `size` keyed bytes in chunks drawn from the scenario PRNG, then finishes.
/// The write API is a scenario parameter (`wapi`): send(Bytes), send_vectored, tokio write /
/// write_vectored, futures write — `write` is logged with what the API reported as accepted.
async fn write_all(ep: &'static str, mut send: SendStream, key: u64, size: u64, cfg: Cfg, reset_after: Option<u64>, salt: u64) {
    let sid: u64 = send.id().into();
    let mut rng = Rng(cfg::mix(cfg.seed ^ salt ^ sid));
    let api = if cfg.wapi == 9 { cfg::mix(cfg.seed ^ sid ^ 0x3c55) % 5 } else { cfg.wapi };
    let mut off = 0u64;
    while off < size {
        let max = cfg.chunk.max(1);
        let n = (1 + rng.below(max)).min(size - off) as usize;
        let data = cfg::payload(key, off, n);
        // the offer is logged BEFORE the call: parts of it may reach the wire before the call resolves
        log(ep, format!("wbegin {sid} {off} {n}"));
        // number of bytes the API reported as accepted
        let accepted: core::result::Result<usize, String> = match api {
            1 => {
                let cut1 = n / 3;
                let cut2 = 2 * n / 3;
                let mut chunks = [Bytes::copy_from_slice(&data[..cut1]), Bytes::copy_from_slice(&data[cut1..cut2]), Bytes::copy_from_slice(&data[cut2..])];
                send.send_vectored(&mut chunks).await.map(|_| n).map_err(|e| dbg(&e))
            }
            2 => {
                use tokio::io::AsyncWriteExt;
                send.write(&data).await.map_err(|e| dbg(&e))
            }
            3 => {
                use tokio::io::AsyncWriteExt;
                let cut1 = n / 3;
                let cut2 = 2 * n / 3;
                let slices = [std::io::IoSlice::new(&data[..cut1]), std::io::IoSlice::new(&data[cut1..cut2]), std::io::IoSlice::new(&data[cut2..])];
                send.write_vectored(&slices).await.map_err(|e| dbg(&e))
            }
            4 => {
                use futures::io::AsyncWriteExt;
                send.write(&data).await.map_err(|e| dbg(&e))
            }
            _ => send.send(Bytes::from(data)).await.map(|_| n).map_err(|e| dbg(&e)),
        };
        let n = match accepted {
            Ok(0) if n > 0 => {
                log(ep, format!("err {sid} send wrote-zero"));
                return;
            }
            Ok(k) => {
                log(ep, format!("write {sid} {off} {k}"));
                k
            }
            Err(e) => {
                log(ep, format!("err {sid} send {e}"));
                return;
            }
        };
        off += n as u64;
        if let Some(r) = reset_after {
            if off >= r {
                if cfg.reset_delay_ms > 0 {
                    io::time::delay(Duration::from_millis(cfg.reset_delay_ms)).await;
                }
                let _ = send.reset(9u32.into());
                log(ep, format!("reset {sid}"));
                return;
            }
        }
    }
    if cfg.reset_after_finish_ms > 0 && reset_after.is_some() {
        // finish without waiting for the acknowledgement, then reset a little later
        match send.finish() {
            Ok(()) => log(ep, format!("finish {sid} {off}")),
            Err(e) => {
                log(ep, format!("err {sid} finish {}", dbg(&e)));
                return;
            }
        }
        io::time::delay(Duration::from_millis(cfg.reset_after_finish_ms)).await;
        let _ = send.reset(9u32.into());
        log(ep, format!("reset {sid}"));
        return;
    }
    match send.close().await {
        Ok(()) => log(ep, format!("finish {sid} {off}")),
        Err(e) => log(ep, format!("err {sid} close {}", dbg(&e))),
    }
}

/// the size of the i-th stream of a kind varies around cfg.size (deterministic)
fn stream_size(cfg: &Cfg, i: u64, salt: u64) -> u64 {
    if cfg.size == 0 {
        return 0;
    }
    let mut r = Rng(cfg::mix(cfg.seed ^ salt ^ (i << 20)));
    match r.below(4) {
        0 => cfg.size,
        1 => r.below(cfg.size + 1),
        2 => cfg.size / 2 + r.below(cfg.size / 2 + 1),
        _ => (cfg.size + r.below(cfg.size / 4 + 1)).max(1),
    }
}

fn start_server(mut server: Server, cfg: Cfg) -> Result<std::net::SocketAddr> {
    let addr = server.local_addr()?;
    spawn(async move {
        while let Some(mut connection) = server.accept().await {
            log("s", format!("accepted {}", connection.id()));
            let cfg = cfg.clone();
            // server-initiated unidirectional streams carrying keyed data
            let handle = connection.handle();
            if cfg.sclose_at_ms > 0 {
                let h = handle.clone();
                let at = cfg.sclose_at_ms;
                spawn(async move {
                    let now = trace::now() / 1000;
                    if at > now {
                        io::time::delay(Duration::from_millis(at - now)).await;
                    }
                    log("s", "app-close".to_string());
                    h.close(43u32.into());
                });
            }
            for i in 0..cfg.suni {
                let mut h = handle.clone();
                let cfg = cfg.clone();
                spawn(async move {
                    match h.open_send_stream().await {
                        Ok(send) => {
                            let sid: u64 = send.id().into();
                            log("s", format!("open {sid} uni"));
                            let key = cfg::stream_key(cfg.seed, sid, true);
                            let size = stream_size(&cfg, i, 0x53);
                            write_all("s", send, key, size, cfg, None, 0x77).await;
                        }
                        Err(e) => log("s", format!("err - open_send_stream {}", dbg(&e))),
                    }
                });
            }
            spawn(async move {
                let mut accepted = 0i64;
                loop {
                    match connection.accept().await {
                        Ok(Some(stream)) => {
                            let idx = accepted;
                            accepted += 1;
                            let cfg = cfg.clone();
                            let stop = if idx == cfg.stop_stream { Some(cfg.stop_after) } else { None };
                            match stream {
                                PeerStream::Receive(recv) => {
                                    let sid: u64 = recv.id().into();
                                    log("s", format!("open {sid} peer-uni"));
                                    let key = cfg::stream_key(cfg.seed, sid, false);
                                    spawn(read_all("s", recv, key, cfg, stop));
                                }
                                PeerStream::Bidirectional(stream) => {
                                    let sid: u64 = stream.id().into();
                                    log("s", format!("open {sid} peer-bidi"));
                                    let (recv, send) = stream.split();
                                    // the server verifies the client's bytes and answers with its own
                                    // keyed stream of the same length class
                                    let key_in = cfg::stream_key(cfg.seed, sid, false);
                                    let key_out = cfg::stream_key(cfg.seed, sid, true);
                                    let size = stream_size(&cfg, sid, 0x5b);
                                    spawn(read_all("s", recv, key_in, cfg.clone(), stop));
                                    spawn(write_all("s", send, key_out, size, cfg, None, 0x78));
                                }
                            }
                        }
                        Ok(None) => {
                            log("s", "conn-closed".to_string());
                            break;
                        }
                        Err(e) => {
                            log("s", format!("err - accept {}", dbg(&e)));
                            break;
                        }
                    }
                }
            });
        }
    });
    Ok(addr)
}

/// the second client: connects at `conn2_at_ms`, moves `conn2_size` bytes over one bidirectional stream.
/// Not a primary task: the scenario ends with the first client.
fn start_client2(client: Client, addr: std::net::SocketAddr, cfg: Cfg) {
    spawn(async move {
        io::time::delay(Duration::from_millis(cfg.conn2_at_ms)).await;
        if let Ok(a) = client.local_addr() {
            log("d", format!("bound {a}"));
        }
        let connect = Connect::new(addr).with_server_name("localhost");
        let mut connection = match client.connect(connect).await {
            Ok(c) => c,
            Err(e) => {
                log("d", format!("err - connect {}", dbg(&e)));
                return;
            }
        };
        log("d", format!("connected {}", connection.id()));
        match connection.open_bidirectional_stream().await {
            Ok(stream) => {
                let sid: u64 = stream.id().into();
                log("d", format!("open {sid} bidi"));
                let (recv, send) = stream.split();
                let key_out = cfg::stream_key(cfg.seed, sid, false);
                let key_in = cfg::stream_key(cfg.seed, sid, true);
                let size = cfg.conn2_size;
                let r = spawn(read_all("d", recv, key_in, cfg.clone(), None));
                write_all("d", send, key_out, size, cfg.clone(), None, 0x7c).await;
                let _ = r.await;
            }
            Err(e) => log("d", format!("err - open_bidirectional_stream {}", dbg(&e))),
        }
        log("d", "done".to_string());
        // keep the connection (and its server-side state) alive until the scenario ends
        io::time::delay(Duration::from_millis(cfg.deadline_ms)).await;
        drop(connection);
    });
}

fn start_client(client: Client, addr: std::net::SocketAddr, cfg: Cfg) {
    primary::spawn(async move {
        let connect = Connect::new(addr).with_server_name("localhost");
        let mut connection = match client.connect(connect).await {
            Ok(c) => c,
            Err(e) => {
                log("c", format!("err - connect {}", dbg(&e)));
                log("c", "done".to_string());
                return;
            }
        };
        log("c", format!("connected {}", connection.id()));
        let mut tasks = vec![];
        let handle = connection.handle();
        for i in 0..cfg.bidi {
            let mut h = handle.clone();
            let cfg = cfg.clone();
            tasks.push(primary::spawn(async move {
                match h.open_bidirectional_stream().await {
                    Ok(stream) => {
                        let sid: u64 = stream.id().into();
                        log("c", format!("open {sid} bidi"));
                        let (recv, send) = stream.split();
                        let key_out = cfg::stream_key(cfg.seed, sid, false);
                        let key_in = cfg::stream_key(cfg.seed, sid, true);
                        let size = stream_size(&cfg, i, 0xb1);
                        let reset = if i as i64 == cfg.reset_stream { Some(cfg.reset_after) } else { None };
                        let r = primary::spawn(read_all("c", recv, key_in, cfg.clone(), None));
                        write_all("c", send, key_out, size, cfg, reset, 0x79).await;
                        let _ = r.await;
                    }
                    Err(e) => log("c", format!("err - open_bidirectional_stream {}", dbg(&e))),
                }
            }));
        }
        for i in 0..cfg.uni {
            let mut h = handle.clone();
            let cfg = cfg.clone();
            tasks.push(primary::spawn(async move {
                match h.open_send_stream().await {
                    Ok(send) => {
                        let sid: u64 = send.id().into();
                        log("c", format!("open {sid} uni"));
                        let key = cfg::stream_key(cfg.seed, sid, false);
                        let size = stream_size(&cfg, i, 0xa1);
                        write_all("c", send, key, size, cfg, None, 0x7a).await;
                    }
                    Err(e) => log("c", format!("err - open_send_stream {}", dbg(&e))),
                }
            }));
        }
        // server-initiated streams
        let cfg2 = cfg.clone();
        let expect_suni = cfg.suni;
        if expect_suni > 0 {
            tasks.push(primary::spawn(async move {
                let mut got = 0;
                let mut readers = vec![];
                while got < expect_suni {
                    match connection.accept_receive_stream().await {
                        Ok(Some(recv)) => {
                            got += 1;
                            let sid: u64 = recv.id().into();
                            log("c", format!("open {sid} peer-uni"));
                            let key = cfg::stream_key(cfg2.seed, sid, true);
                            readers.push(primary::spawn(read_all("c", recv, key, cfg2.clone(), None)));
                        }
                        Ok(None) => break,
                        Err(e) => {
                            log("c", format!("err - accept_receive_stream {}", dbg(&e)));
                            break;
                        }
                    }
                }
                for r in readers {
                    let _ = r.await;
                }
            }));
        }
        if cfg.close_at_ms > 0 {
            let h = handle.clone();
            let at = cfg.close_at_ms;
            spawn(async move {
                io::time::delay(Duration::from_millis(at)).await;
                log("c", "app-close".to_string());
                h.close(42u32.into());
            });
        }
        for t in tasks {
            let _ = t.await;
        }
        // hold phase (C13): keep the connection alive in virtual time with one small stream per tick, so
        // that connection-id lifetimes expire and rebinding schedules play out on a live connection
        if cfg.hold_ms > 0 {
            let mut k = 0u64;
            while trace::now() / 1000 < cfg.hold_ms {
                io::time::delay(Duration::from_millis(cfg.tick_ms)).await;
                let mut h = handle.clone();
                match h.open_send_stream().await {
                    Ok(send) => {
                        let sid: u64 = send.id().into();
                        log("c", format!("open {sid} uni"));
                        let key = cfg::stream_key(cfg.seed, sid, false);
                        let size = 1 + (cfg::mix(cfg.seed ^ k) % 600);
                        write_all("c", send, key, size, cfg.clone(), None, 0x7b).await;
                    }
                    Err(e) => {
                        log("c", format!("err - open_send_stream {}", dbg(&e)));
                        break;
                    }
                }
                k += 1;
            }
        }
        // quiet phase (C02 keep-alive): the application asks for keep-alive, stays silent for `quiet_ms` (longer than
        // the idle timeout), then sends one more small stream, which must still get through
        if cfg.quiet_ms > 0 {
            let mut h = handle.clone();
            match h.keep_alive(true) {
                Ok(()) => log("c", "keep-alive on".to_string()),
                Err(e) => log("c", format!("err - keep_alive {}", dbg(&e))),
            }
            io::time::delay(Duration::from_millis(cfg.quiet_ms)).await;
            match h.open_send_stream().await {
                Ok(send) => {
                    let sid: u64 = send.id().into();
                    log("c", format!("open {sid} uni"));
                    let key = cfg::stream_key(cfg.seed, sid, false);
                    write_all("c", send, key, 777, cfg.clone(), None, 0x7c).await;
                }
                Err(e) => log("c", format!("err - open_send_stream {}", dbg(&e))),
            }
        }
        log("c", "done".to_string());
        // linger so that final ACKs / closes are exchanged and observed
        io::time::delay(Duration::from_millis(3 * cfg.delay_ms + 50)).await;
    });
}
