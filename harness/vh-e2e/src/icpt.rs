//! packet interceptor: records the cleartext payload of every packet an endpoint sends / processes
//!   txp <t_us> <c|s> <conn> <space> <pn> <hex>
//!   rxp <t_us> <c|s> <conn> <space> <pn> <hex>
//! and (attacker role) rewrites the client's own cleartext payload for adversarial-peer scenarios.
use crate::{cfg::Cfg, trace};
use s2n_codec::{DecoderBufferMut, Encoder};
use s2n_quic_core::packet::interceptor::{Interceptor, Packet};
use s2n_quic_core::event::api::Subject;
use s2n_quic_core::packet::number::PacketNumberSpace;

pub struct Icpt {
    pub ep: &'static str,
    pub cfg: Cfg,
    pub attacks_done: u64,
    pub onertt_tx: u64,
    /// packets sent so far per packet-number space (initial, handshake, app)
    pub tx_count: [u64; 3],
}

impl Icpt {
    pub fn new(ep: &'static str, cfg: &Cfg) -> Self {
        Self { ep, cfg: cfg.clone(), attacks_done: 0, onertt_tx: 0, tx_count: [0; 3] }
    }
}

fn conn(subject: &Subject) -> String {
    match subject {
        Subject::Connection { id, .. } => id.to_string(),
        _ => "-".into(),
    }
}

fn space(s: PacketNumberSpace) -> &'static str {
    match s {
        PacketNumberSpace::Initial => "initial",
        PacketNumberSpace::Handshake => "handshake",
        PacketNumberSpace::ApplicationData => "app",
    }
}

fn varint(v: u64, out: &mut Vec<u8>) {
    if v < 64 {
        out.push(v as u8);
    } else if v < 16384 {
        out.extend_from_slice(&((v as u16) | 0x4000).to_be_bytes());
    } else if v < (1 << 30) {
        out.extend_from_slice(&((v as u32) | 0x8000_0000).to_be_bytes());
    } else {
        out.extend_from_slice(&(v | 0xc000_0000_0000_0000).to_be_bytes());
    }
}

/// the offending frame(s) of an adversarial-peer scenario, as raw bytes
pub fn attack_frames(name: &str, cfg: &Cfg) -> Option<Vec<u8>> {
    // the C04 catalogue (harness/vh-e2e/src/attacks.rs) first; the names below are the original ones
    if let Some(f) = crate::attacks::frames(name, cfg) {
        return Some(f);
    }
    let mut f = vec![];
    // client-initiated bidi stream 0 exists in every scenario; the victim is the server
    let sdata = cfg.server.bidi_remote.max(1);
    match name {
        // STREAM frame (OFF|LEN) far beyond the advertised stream window
        "stream-beyond-window" => {
            f.push(0x0e);
            varint(0, &mut f);
            varint(sdata + 100_000, &mut f);
            varint(4, &mut f);
            f.extend_from_slice(b"EVIL");
        }
        // STREAM on a stream id far beyond MAX_STREAMS
        "stream-limit" => {
            f.push(0x0a);
            varint(4 * 100_000, &mut f);
            varint(4, &mut f);
            f.extend_from_slice(b"EVIL");
        }
        // data after an established final size: FIN at 1 then data at 10
        "final-size-change" => {
            f.push(0x0f);
            varint(0, &mut f);
            varint(0, &mut f);
            varint(1, &mut f);
            f.push(b'E');
            f.push(0x0e);
            varint(0, &mut f);
            varint(10, &mut f);
            varint(4, &mut f);
            f.extend_from_slice(b"EVIL");
        }
        // STREAM frame for a server-initiated bidirectional stream that was never opened
        "stream-not-opened" => {
            f.push(0x0a);
            varint(1, &mut f);
            varint(4, &mut f);
            f.extend_from_slice(b"EVIL");
        }
        // STREAM frame on a server-initiated unidirectional stream (client may not send there)
        "stream-wrong-direction" => {
            f.push(0x0a);
            varint(3, &mut f);
            varint(4, &mut f);
            f.extend_from_slice(b"EVIL");
        }
        // MAX_STREAM_DATA for a receive-only (client-initiated uni, from the server's view) stream
        "max-stream-data-wrong-direction" => {
            f.push(0x11);
            varint(3, &mut f);
            varint(1000, &mut f);
        }
        // MAX_STREAMS above 2^60
        "max-streams-too-large" => {
            f.push(0x12);
            varint((1u64 << 60) + 1, &mut f);
        }
        // RESET_STREAM whose final size is smaller than data already sent (stream 0 carries data)
        "reset-final-size-small" => {
            f.push(0x04);
            varint(0, &mut f);
            varint(0, &mut f);
            varint(0, &mut f);
            // preceded by data so that final size 0 contradicts it
            let mut g = vec![0x0e];
            varint(0, &mut g);
            varint(0, &mut g);
            varint(4, &mut g);
            g.extend_from_slice(b"DATA");
            g.extend_from_slice(&f);
            f = g;
        }
        // connection-level flow control: many streams each within its window but exceeding MAX_DATA
        "conn-beyond-window" => {
            let per = cfg.server.bidi_remote.max(1).min(1000);
            let need = cfg.server.data_window / per + 2;
            for i in 0..need.min(60) {
                f.push(0x0e);
                varint(i * 4, &mut f);
                varint(per - 1, &mut f);
                varint(1, &mut f);
                f.push(b'E');
            }
        }
        // HANDSHAKE_DONE sent by a client
        "handshake-done-from-client" => f.push(0x1e),
        // NEW_TOKEN sent by a client
        "new-token-from-client" => {
            f.push(0x07);
            varint(4, &mut f);
            f.extend_from_slice(b"EVIL");
        }
        // NEW_CONNECTION_ID with retire_prior_to > sequence number
        "ncid-retire-gt-seq" => {
            f.push(0x18);
            varint(2, &mut f);
            varint(5, &mut f);
            f.push(8);
            f.extend_from_slice(&[7; 8]);
            f.extend_from_slice(&[9; 16]);
        }
        // unknown frame type
        "unknown-frame" => f.push(0x3f),
        // RETIRE_CONNECTION_ID for a sequence number never issued
        "retire-unissued" => {
            f.push(0x19);
            varint(1000, &mut f);
        }
        _ => return None,
    }
    Some(f)
}

impl Interceptor for Icpt {
    fn intercept_rx_payload<'a>(&mut self, subject: &Subject, packet: &Packet, payload: DecoderBufferMut<'a>) -> DecoderBufferMut<'a> {
        let bytes = payload.into_less_safe_slice();
        if self.cfg.payloads {
            trace::line(format!(
                "rxp {} {} {} {} {} {}",
                trace::now(),
                self.ep,
                conn(subject),
                space(packet.number.space()),
                packet.number.as_u64(),
                trace::hex(bytes)
            ));
        }
        DecoderBufferMut::new(bytes)
    }

    fn intercept_tx_payload(&mut self, subject: &Subject, packet: &Packet, payload: &mut s2n_codec::encoder::scatter::Buffer) {
        let is_app = matches!(packet.number.space(), PacketNumberSpace::ApplicationData);
        let buf = payload.flatten();
        if is_app {
            self.onertt_tx += 1;
        }
        let sp = space(packet.number.space());
        let si = match sp {
            "initial" => 0,
            "handshake" => 1,
            _ => 2,
        };
        self.tx_count[si] += 1;
        // adversarial peer: the attacker endpoint replaces the payload of the (attack_at+1)-th packet of the
        // chosen packet-number space by the offending frames (padded with PADDING so that the packet keeps
        // its length and stays well-formed)
        if self.ep == self.cfg.attacker
            && sp == self.cfg.attack_space
            && !self.cfg.attack.is_empty()
            && self.attacks_done == 0
            && self.tx_count[si] > self.cfg.attack_at
        {
            if let Some(frames) = attack_frames(&self.cfg.attack, &self.cfg) {
                let cap = buf.capacity();
                if frames.len() + 1 <= cap {
                    self.attacks_done += 1;
                    let old = buf.len();
                    buf.set_position(0);
                    buf.write_slice(&frames);
                    // keep at least the old length so packet protection sampling still works
                    while buf.len() < old.min(cap) {
                        buf.write_slice(&[0u8]);
                    }
                    trace::line(format!(
                        "attack {} {} {} {} {} {}",
                        trace::now(),
                        self.ep,
                        conn(subject),
                        self.cfg.attack,
                        packet.number.as_u64(),
                        sp
                    ));
                }
            }
        }
        if self.cfg.payloads {
            let bytes = buf.as_mut_slice();
            trace::line(format!(
                "txp {} {} {} {} {} {}",
                trace::now(),
                self.ep,
                conn(subject),
                space(packet.number.space()),
                packet.number.as_u64(),
                trace::hex(bytes)
            ));
        }
    }
}
