//! Component `tp`: the REAL `ClientTransportParameters` / `ServerTransportParameters` codec of
//! s2n-quic-core (RFC 9000 §7.4, §18.2).
//!
//! role = who SENT the block: `client` → `ClientTransportParameters::decode` (what a server runs on
//! the peer's block), `server` → `ServerTransportParameters::decode`.
//!
//! ops:
//!   `dec <role> <hex>`            -> `ok <k=v …all 20 fields, defaults filled in>` | `err <kind>`
//!   `enc <role> <hex>`            -> decode, re-encode, decode again:
//!                                    `ok <hex> <encoding_size> <1 if second decode equals the first>` | `err <kind>`
//!   `limits <role> <hex> <ms>`    -> what the public `flow_control_limits` / `ack_settings` /
//!                                    `datagram_limits` / `connection::Limits::load_peer` (local
//!                                    max_idle_timeout = <ms>) derive from the decoded parameters
use crate::{util::*, Component};
use core::time::Duration;
use s2n_codec::{DecoderBuffer, DecoderError, Encoder, EncoderBuffer, EncoderValue};
use s2n_quic_core::{
    connection::limits::Limits,
    transport::parameters::{
        ClientTransportParameters, MigrationSupport, MtuProbingCompleteSupport, PreferredAddress,
        ServerTransportParameters,
    },
};

pub const NAMES: &[&str] = &["tp"];

pub fn make(name: &str) -> Option<Box<dyn Component>> {
    match name {
        "tp" => Some(Box::new(Tp)),
        _ => None,
    }
}

pub struct Tp;

fn err_kind(e: DecoderError) -> &'static str {
    match e {
        DecoderError::UnexpectedEof(_) => "eof",
        DecoderError::UnexpectedBytes(_) => "trailing",
        DecoderError::LengthCapacityExceeded => "cap",
        DecoderError::InvariantViolation(msg) => {
            if msg.ends_with("is not allowed in this context") {
                "disabled"
            } else if msg.starts_with("duplicate value for") {
                "duplicate"
            } else {
                "invalid"
            }
        }
    }
}

fn enc_bytes<T: EncoderValue>(v: &T) -> Vec<u8> {
    let mut buf = vec![0u8; v.encoding_size()];
    let mut e = EncoderBuffer::new(&mut buf);
    e.encode(v);
    let n = e.len();
    buf.truncate(n);
    buf
}

fn opt_hex(b: Option<&[u8]>) -> String {
    match b {
        Some(b) => hex(b),
        None => "none".into(),
    }
}

fn pa_str(pa: Option<&PreferredAddress>) -> String {
    match pa {
        None => "none".into(),
        Some(pa) => format!(
            "{}/{}/{}/{}",
            opt_hex(pa.ipv4_address.as_ref().map(|a| a.as_bytes())),
            opt_hex(pa.ipv6_address.as_ref().map(|a| a.as_bytes())),
            hex(pa.connection_id.as_bytes()),
            hex(pa.stateless_reset_token.as_ref()),
        ),
    }
}

/// the fields shared by both parameter types
macro_rules! common_fields {
    ($p:expr) => {{
        let p = $p;
        let versions: Vec<u64> = (&p.dc_supported_versions).into_iter().map(|v| *v as u64).collect();
        (
            format!(
                "max_idle_timeout={} max_udp_payload_size={} initial_max_data={} initial_max_stream_data_bidi_local={} \
                 initial_max_stream_data_bidi_remote={} initial_max_stream_data_uni={} initial_max_streams_bidi={} \
                 initial_max_streams_uni={} max_datagram_frame_size={} ack_delay_exponent={} max_ack_delay={} \
                 migration_support={} active_connection_id_limit={}",
                p.max_idle_timeout.as_u64(),
                p.max_udp_payload_size.as_u64(),
                p.initial_max_data.as_u64(),
                p.initial_max_stream_data_bidi_local.as_u64(),
                p.initial_max_stream_data_bidi_remote.as_u64(),
                p.initial_max_stream_data_uni.as_u64(),
                p.initial_max_streams_bidi.as_u64(),
                p.initial_max_streams_uni.as_u64(),
                p.max_datagram_frame_size.as_u64(),
                p.ack_delay_exponent.as_u8(),
                p.max_ack_delay.as_u64(),
                match p.migration_support {
                    MigrationSupport::Enabled => "enabled",
                    MigrationSupport::Disabled => "disabled",
                },
                p.active_connection_id_limit.as_u64(),
            ),
            format!(
                "initial_source_connection_id={}",
                opt_hex(p.initial_source_connection_id.as_ref().map(|c| c.as_bytes()))
            ),
            format!(
                "dc_supported_versions={} mtu_probing_complete_support={}",
                list(&versions),
                match p.mtu_probing_complete_support {
                    MtuProbingCompleteSupport::Enabled => "enabled",
                    MtuProbingCompleteSupport::Disabled => "disabled",
                },
            ),
        )
    }};
}

fn show_client(p: &ClientTransportParameters) -> String {
    let (a, iscid, z) = common_fields!(p);
    // the four server-only fields are `DisabledParameter`s in this type: always absent
    format!(
        "{a} original_destination_connection_id=none stateless_reset_token=none preferred_address=none {iscid} \
         retry_source_connection_id=none {z}"
    )
}

fn show_server(p: &ServerTransportParameters) -> String {
    let (a, iscid, z) = common_fields!(p);
    format!(
        "{a} original_destination_connection_id={} stateless_reset_token={} preferred_address={} {iscid} \
         retry_source_connection_id={} {z}",
        opt_hex(p.original_destination_connection_id.as_ref().map(|c| c.as_bytes())),
        opt_hex(p.stateless_reset_token.as_ref().map(|t| t.as_ref())),
        pa_str(p.preferred_address.as_ref()),
        opt_hex(p.retry_source_connection_id.as_ref().map(|c| c.as_bytes())),
    )
}

macro_rules! limits_of {
    ($p:expr, $local_idle:expr) => {{
        let p = $p;
        let fc = p.flow_control_limits();
        let sl = p.stream_limits();
        let ack = p.ack_settings();
        let dg = p.datagram_limits();
        let z = p.zero_rtt_parameters();
        let zero_rtt_consistent = z.active_connection_id_limit.as_u64() == p.active_connection_id_limit.as_u64()
            && z.initial_max_data == fc.max_data
            && z.initial_max_stream_data_bidi_local == sl.max_data_bidi_local
            && z.initial_max_stream_data_bidi_remote == sl.max_data_bidi_remote
            && z.initial_max_stream_data_uni == sl.max_data_uni
            && z.initial_max_streams_bidi == fc.max_open_remote_bidirectional_streams
            && z.initial_max_streams_uni == fc.max_open_remote_unidirectional_streams
            && z.max_datagram_frame_size.as_u64() == p.max_datagram_frame_size.as_u64()
            && fc.stream_limits == sl;
        let idle = match Limits::default().with_max_idle_timeout(Duration::from_millis($local_idle)) {
            Ok(mut l) => {
                l.load_peer(p);
                match l.max_idle_timeout() {
                    Some(d) => d.as_millis().to_string(),
                    None => "none".to_string(),
                }
            }
            Err(_) => "local-invalid".to_string(),
        };
        format!(
            "ok max_data={} max_streams_bidi={} max_streams_uni={} stream_data_bidi_local={} stream_data_bidi_remote={} \
             stream_data_uni={} max_ack_delay_us={} ack_delay_exponent={} max_datagram_payload={} \
             active_connection_id_limit={} idle_ms={} zero_rtt_consistent={}",
            fc.max_data.as_u64(),
            fc.max_open_remote_bidirectional_streams.as_u64(),
            fc.max_open_remote_unidirectional_streams.as_u64(),
            sl.max_data_bidi_local.as_u64(),
            sl.max_data_bidi_remote.as_u64(),
            sl.max_data_uni.as_u64(),
            ack.max_ack_delay.as_micros(),
            ack.ack_delay_exponent,
            dg.max_datagram_payload,
            p.active_connection_id_limit.as_u64(),
            idle,
            zero_rtt_consistent as u8,
        )
    }};
}

fn dec_client(b: &[u8]) -> Result<ClientTransportParameters, &'static str> {
    match DecoderBuffer::new(b).decode::<ClientTransportParameters>() {
        Ok((p, rest)) => {
            if rest.is_empty() {
                Ok(p)
            } else {
                Err("LEFTOVER")
            }
        }
        Err(e) => Err(err_kind(e)),
    }
}

fn dec_server(b: &[u8]) -> Result<ServerTransportParameters, &'static str> {
    match DecoderBuffer::new(b).decode::<ServerTransportParameters>() {
        Ok((p, rest)) => {
            if rest.is_empty() {
                Ok(p)
            } else {
                Err("LEFTOVER")
            }
        }
        Err(e) => Err(err_kind(e)),
    }
}

impl Component for Tp {
    fn step(&mut self, t: &[&str]) -> String {
        match t {
            ["dec", role, h] => {
                let Some(b) = unhex(h) else { return "bad-op".into() };
                match *role {
                    "client" => match dec_client(&b) {
                        Ok(p) => format!("ok {}", show_client(&p)),
                        Err(k) => format!("err {k}"),
                    },
                    "server" => match dec_server(&b) {
                        Ok(p) => format!("ok {}", show_server(&p)),
                        Err(k) => format!("err {k}"),
                    },
                    _ => "bad-op".into(),
                }
            }
            ["enc", role, h] => {
                let Some(b) = unhex(h) else { return "bad-op".into() };
                match *role {
                    "client" => match dec_client(&b) {
                        Ok(p) => {
                            let e = enc_bytes(&p);
                            let again = dec_client(&e).map(|q| q == p).unwrap_or(false);
                            format!("ok {} {} {}", hex(&e), p.encoding_size(), again as u8)
                        }
                        Err(k) => format!("err {k}"),
                    },
                    "server" => match dec_server(&b) {
                        Ok(p) => {
                            let e = enc_bytes(&p);
                            let again = dec_server(&e).map(|q| q == p).unwrap_or(false);
                            format!("ok {} {} {}", hex(&e), p.encoding_size(), again as u8)
                        }
                        Err(k) => format!("err {k}"),
                    },
                    _ => "bad-op".into(),
                }
            }
            ["limits", role, h, idle] => {
                let Some(b) = unhex(h) else { return "bad-op".into() };
                let Some(idle) = num::<u64>(idle) else { return "bad-op".into() };
                if idle >= 1u64 << 62 {
                    return "bad-op".into();
                }
                match *role {
                    "client" => match dec_client(&b) {
                        Ok(p) => limits_of!(&p, idle),
                        Err(k) => format!("err {k}"),
                    },
                    "server" => match dec_server(&b) {
                        Ok(p) => limits_of!(&p, idle),
                        Err(k) => format!("err {k}"),
                    },
                    _ => "bad-op".into(),
                }
            }
            _ => "bad-op".into(),
        }
    }
}
