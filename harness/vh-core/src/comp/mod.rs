use crate::Component;
mod varint;

pub const NAMES: &[&str] = &["varint"];

pub fn make(name: &str) -> Option<Box<dyn Component>> {
    Some(match name {
        "varint" => Box::new(varint::VarIntC),
        _ => return None,
    })
}
