//! Drives the real `s2n_quic_core::packet::stateless_reset::encode_packet` (public API).
//! op: `enc <max_tag_len> <trigger_len> <buf_len> <r>`  ->  `ok none` | `ok <len> <first byte> <token at end 0/1>`
//! `r` is what the deterministic random generator answers (little-endian u64, repeated) to every fill.
use crate::{util::*, Component};
use s2n_quic_core::{packet::stateless_reset::encode_packet, random, stateless_reset};

pub const NAMES: &[&str] = &["stateless_reset"];

pub fn make(name: &str) -> Option<Box<dyn Component>> {
    match name {
        "stateless_reset" => Some(Box::new(SReset)),
        _ => None,
    }
}

/// deterministic generator: every fill writes the little-endian bytes of `word`, repeating from index 0
pub struct FixedWord {
    pub word: u64,
    pub public_fills: usize,
    pub private_fills: usize,
}

impl random::Generator for FixedWord {
    fn public_random_fill(&mut self, dest: &mut [u8]) {
        let b = self.word.to_le_bytes();
        for (i, d) in dest.iter_mut().enumerate() {
            *d = b[i % 8];
        }
        self.public_fills += 1;
    }

    fn private_random_fill(&mut self, dest: &mut [u8]) {
        // never expected: stateless resets travel in the clear
        for d in dest.iter_mut() {
            *d = 0xee;
        }
        self.private_fills += 1;
    }
}

const TOKEN: [u8; 16] = [0xa0, 0xa1, 0xa2, 0xa3, 0xa4, 0xa5, 0xa6, 0xa7, 0xa8, 0xa9, 0xaa, 0xab, 0xac, 0xad, 0xae, 0xaf];

pub struct SReset;

impl Component for SReset {
    fn step(&mut self, t: &[&str]) -> String {
        match t {
            ["enc", tag, trig, buf, r] => {
                let (Some(tag), Some(trig), Some(buf), Some(r)) = (num::<usize>(tag), num::<usize>(trig), num::<usize>(buf), num::<u64>(r)) else {
                    return "bad-op".into();
                };
                if buf > 65536 || tag > 65536 {
                    return "bad-op".into();
                }
                let mut gen = FixedWord { word: r, public_fills: 0, private_fills: 0 };
                let mut packet_buf = vec![0u8; buf];
                let token = stateless_reset::Token::from(TOKEN);
                match encode_packet(token, tag, trig, &mut gen, &mut packet_buf) {
                    None => "ok none".into(),
                    Some(len) => {
                        if len > packet_buf.len() || len < 16 {
                            return format!("ok {len} out-of-buffer");
                        }
                        let tok = (packet_buf[len - 16..len] == TOKEN) as u8;
                        if gen.private_fills != 0 {
                            return format!("ok {len} used-private-randomness");
                        }
                        format!("ok {} {} {}", len, packet_buf[0], tok)
                    }
                }
            }
            _ => "bad-op".into(),
        }
    }
}
