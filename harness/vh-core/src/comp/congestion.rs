//! component `congestion`: the REAL `CubicCongestionController` / `BbrCongestionController` of
//! s2n-quic-core driven through the public `CongestionController` trait (testing feature: event
//! testing publisher, testing clock, testing random generator, default `RttEstimator`).
//!
//! ops (times are microseconds on the testing clock, all integers decimal):
//!   new <cubic|bbr> <mds>
//!   sent <bytes> <now_us> <app_limited 0|1|->        on_packet_sent (`-` = None: Initial/Handshake space)
//!   rtt <sample_us> <now_us>                         RttEstimator::update_rtt + on_rtt_update(now - sample, now)
//!   ack <bytes> <sent_time_us> <rtt_us> <now_us>     rtt_us > 0: update_rtt + on_rtt_update(sent_time, now) first
//!                                                    (as recovery::Manager does for the newest acked packet), then on_ack
//!   lost <bytes> <persistent 0|1> <sent_time_us> <now_us>
//!   ecn <now_us>
//!   mtu <mds>
//!   discard <bytes>
//! output after every op:
//!   ok cwnd=<u32> bif=<u32> limited=<0|1> fast_rtx=<0|1> state=<token>
//! `state` comes from the controller's `Debug` output (there is no accessor): the variant name of
//! the `state` field in snake case (cubic: slow_start | recovery | congestion_avoidance;
//! bbr: startup | drain | probe_bw | probe_rtt).
//! The component does not enforce the caller contract (never ack/lose/discard more than is in
//! flight); a panic of the real code is reported by main.rs as `panic …`.
use crate::{util::*, Component};
use core::time::Duration;
use s2n_quic_core::{
    event,
    packet::number::PacketNumberSpace,
    path, random,
    recovery::{
        bbr::BbrCongestionController, congestion_controller::PathPublisher, CongestionController,
        CubicCongestionController, RttEstimator,
    },
    time::{testing::Clock, Clock as _, Timestamp},
};

pub const NAMES: &[&str] = &["congestion"];

pub fn make(name: &str) -> Option<Box<dyn Component>> {
    match name {
        "congestion" => Some(Box::new(Congestion { ctrl: Ctrl::None })),
        _ => None,
    }
}

fn ts(us: u64) -> Timestamp {
    // the testing clock starts at its (non-zero) epoch and is never advanced here
    Clock::default().get_time() + Duration::from_micros(us)
}

/// one controller plus what the recovery manager would keep around it
struct Driver<CC: CongestionController> {
    cc: CC,
    rtt: RttEstimator,
    rng: random::testing::Generator,
    /// (time_sent_us, packet info) of every congestion-controlled packet sent so far
    sent: Vec<(u64, CC::PacketInfo)>,
    default_info: CC::PacketInfo,
    /// the previous op was a `lost`: the next `lost` continues the same loss burst
    last_was_lost: bool,
}

impl<CC: CongestionController> Driver<CC> {
    fn new(mut cc: CC) -> Self {
        // a PacketInfo for acks that name a send time nothing was sent at: taken from a clone so the
        // controller under test is not touched
        let default_info = {
            let mut probe = cc.clone();
            let mut publisher = event::testing::Publisher::no_snapshot();
            let mut publisher = PathPublisher::new(&mut publisher, path::Id::test_id());
            probe.on_packet_sent(ts(0), 0, None, &RttEstimator::default(), &mut publisher)
        };
        let _ = &mut cc;
        Self {
            cc,
            rtt: RttEstimator::default(),
            rng: random::testing::Generator(7),
            sent: Vec::new(),
            default_info,
            last_was_lost: false,
        }
    }

    /// packet info of the newest packet sent at or before `sent_us`
    fn info_for(&self, sent_us: u64) -> CC::PacketInfo {
        self.sent
            .iter()
            .rev()
            .find(|(t, _)| *t <= sent_us)
            .map(|(_, i)| *i)
            .unwrap_or(self.default_info)
    }

    fn update_rtt(&mut self, time_sent_us: u64, sample_us: u64, now_us: u64) {
        let mut publisher = event::testing::Publisher::no_snapshot();
        let mut publisher = PathPublisher::new(&mut publisher, path::Id::test_id());
        self.rtt.update_rtt(
            Duration::ZERO,
            Duration::from_micros(sample_us),
            ts(now_us),
            true,
            PacketNumberSpace::ApplicationData,
        );
        self.cc
            .on_rtt_update(ts(time_sent_us), ts(now_us), &self.rtt, &mut publisher);
    }

    fn step(&mut self, t: &[&str]) -> Option<()> {
        let mut publisher = event::testing::Publisher::no_snapshot();
        let mut publisher = PathPublisher::new(&mut publisher, path::Id::test_id());
        let new_loss_burst = !self.last_was_lost;
        self.last_was_lost = matches!(t, ["lost", ..]);
        match t {
            ["sent", bytes, now, app] => {
                let bytes = num::<usize>(bytes)?;
                let now = num::<u64>(now)?;
                let app = match *app {
                    "0" => Some(false),
                    "1" => Some(true),
                    "-" => None,
                    _ => return None,
                };
                let info = self
                    .cc
                    .on_packet_sent(ts(now), bytes, app, &self.rtt, &mut publisher);
                if bytes > 0 {
                    self.sent.push((now, info));
                }
            }
            ["rtt", sample, now] => {
                let sample = num::<u64>(sample)?;
                let now = num::<u64>(now)?;
                self.update_rtt(now.saturating_sub(sample), sample, now);
            }
            ["ack", bytes, sent_time, rtt, now] => {
                let bytes = num::<usize>(bytes)?;
                let sent_time = num::<u64>(sent_time)?;
                let rtt = num::<u64>(rtt)?;
                let now = num::<u64>(now)?;
                if rtt > 0 {
                    self.update_rtt(sent_time, rtt, now);
                }
                let info = self.info_for(sent_time);
                self.cc.on_ack(
                    ts(sent_time),
                    bytes,
                    info,
                    &self.rtt,
                    &mut self.rng,
                    ts(now),
                    &mut publisher,
                );
            }
            ["lost", bytes, persistent, sent_time, now] => {
                let bytes = num::<u32>(bytes)?;
                let persistent = match *persistent {
                    "0" => false,
                    "1" => true,
                    _ => return None,
                };
                let sent_time = num::<u64>(sent_time)?;
                let now = num::<u64>(now)?;
                let info = self.info_for(sent_time);
                self.cc.on_packet_lost(
                    bytes,
                    info,
                    persistent,
                    new_loss_burst,
                    &mut self.rng,
                    ts(now),
                    &mut publisher,
                );
            }
            ["ecn", now] => {
                let now = num::<u64>(now)?;
                self.cc.on_explicit_congestion(1, ts(now), &mut publisher);
            }
            ["mtu", mds] => {
                let mds = num::<u16>(mds)?;
                if mds == 0 {
                    return None;
                }
                self.cc.on_mtu_update(mds, &mut publisher);
            }
            ["discard", bytes] => {
                let bytes = num::<usize>(bytes)?;
                self.cc.on_packet_discarded(bytes, &mut publisher);
            }
            _ => return None,
        }
        Some(())
    }

    fn observe(&self) -> String {
        format!(
            "ok cwnd={} bif={} limited={} fast_rtx={} state={}",
            self.cc.congestion_window(),
            self.cc.bytes_in_flight(),
            self.cc.is_congestion_limited() as u8,
            self.cc.requires_fast_retransmission() as u8,
            state_token(&format!("{:?}", self.cc)),
        )
    }
}

/// variant name of the top-level `state:` field in the controller's Debug output, snake case
fn state_token(dbg: &str) -> String {
    let Some(i) = dbg.find(" state: ") else { return "unknown".into() };
    let rest = &dbg[i + 8..];
    let name: String = rest.chars().take_while(|c| c.is_ascii_alphanumeric()).collect();
    let mut out = String::new();
    for (k, c) in name.chars().enumerate() {
        if c.is_ascii_uppercase() {
            if k > 0 {
                out.push('_');
            }
            out.push(c.to_ascii_lowercase());
        } else {
            out.push(c);
        }
    }
    if out.is_empty() {
        "unknown".into()
    } else {
        out
    }
}

enum Ctrl {
    None,
    Cubic(Box<Driver<CubicCongestionController>>),
    Bbr(Box<Driver<BbrCongestionController>>),
}

pub struct Congestion {
    ctrl: Ctrl,
}

impl Component for Congestion {
    fn step(&mut self, t: &[&str]) -> String {
        if let ["new", kind, mds] = t {
            let Some(mds) = num::<u16>(mds) else { return "bad-op".into() };
            if mds == 0 {
                return "bad-op".into();
            }
            self.ctrl = match *kind {
                "cubic" => Ctrl::Cubic(Box::new(Driver::new(CubicCongestionController::new(
                    mds,
                    Default::default(),
                )))),
                "bbr" => Ctrl::Bbr(Box::new(Driver::new(BbrCongestionController::new(
                    mds,
                    Default::default(),
                )))),
                _ => return "bad-op".into(),
            };
        } else {
            let r = match &mut self.ctrl {
                Ctrl::None => None,
                Ctrl::Cubic(d) => d.step(t),
                Ctrl::Bbr(d) => d.step(t),
            };
            if r.is_none() {
                return "bad-op".into();
            }
        }
        match &self.ctrl {
            Ctrl::None => "bad-op".into(),
            Ctrl::Cubic(d) => d.observe(),
            Ctrl::Bbr(d) => d.observe(),
        }
    }
}
