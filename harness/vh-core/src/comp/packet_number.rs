use crate::{util::*, Component};
use s2n_codec::{DecoderBuffer, Encoder, EncoderBuffer, EncoderValue};
use s2n_quic_core::{
    packet::number::{PacketNumber, PacketNumberRange, PacketNumberSpace, TruncatedPacketNumber},
    varint::VarInt,
};

pub const NAMES: &[&str] = &["packet_number"];

pub fn make(name: &str) -> Option<Box<dyn Component>> {
    match name {
        "packet_number" => Some(Box::new(PacketNumberC)),
        _ => None,
    }
}

pub struct PacketNumberC;

const SPACE: PacketNumberSpace = PacketNumberSpace::ApplicationData;

fn pn(s: &str) -> Option<PacketNumber> {
    let x = num::<u128>(s)?;
    let x = u64::try_from(x).ok()?;
    let v = VarInt::new(x).ok()?;
    Some(SPACE.new_packet_number(v))
}

/// bytes written by the real `EncoderValue` impl (exact-size buffer; `encoding_size` must agree)
fn encode_truncated(t: &TruncatedPacketNumber) -> Vec<u8> {
    let size = t.encoding_size();
    let mut buf = vec![0u8; size];
    let mut e = EncoderBuffer::new(&mut buf);
    e.encode(t);
    let written = e.len();
    assert_eq!(written, size, "encoding_size disagrees with bytes written");
    assert_eq!(size, t.len().bytesize(), "bytesize disagrees with bytes written");
    assert_eq!(size * 8, t.len().bitsize(), "bitsize disagrees with bytes written");
    buf
}

fn be_value(b: &[u8]) -> u64 {
    b.iter().fold(0u64, |a, x| (a << 8) | *x as u64)
}

/// the only public way to build a `TruncatedPacketNumber` from raw parts: decode it with the
/// `PacketNumberLen` taken from the low bits of a first header byte
fn decode_truncated(first_byte: u8, bytes: &[u8]) -> Option<(TruncatedPacketNumber, usize)> {
    let len = SPACE.new_packet_number_len(first_byte);
    let (t, rest) = len.decode_truncated_packet_number(DecoderBuffer::new(bytes)).ok()?;
    assert_eq!(t.len(), len, "decoded length differs from the tag's length");
    assert_eq!(t.space(), SPACE);
    Some((t, bytes.len() - rest.len()))
}

impl Component for PacketNumberC {
    fn step(&mut self, t: &[&str]) -> String {
        match t {
            ["trunc", p, la] => {
                let (Some(p), Some(la)) = (pn(p), pn(la)) else { return "bad-op".into() };
                match p.truncate(la) {
                    Some(t) => {
                        let b = encode_truncated(&t);
                        format!("ok {} {} {} {}", t.len().bytesize(), be_value(&b), hex(&b), t.len().into_packet_tag_mask())
                    }
                    None => "err none".into(),
                }
            }
            ["expand", n, v, l] => {
                let (Some(n), Some(v), Some(l)) = (num::<usize>(n), num::<u64>(v), pn(l)) else { return "bad-op".into() };
                if !(1..=4).contains(&n) || v >= 1u64 << (8 * n) {
                    return "bad-op".into();
                }
                let bytes = &v.to_be_bytes()[8 - n..];
                // upper tag bits set: only the two low bits may matter
                let Some((t, _)) = decode_truncated(0xfc | (n as u8 - 1), bytes) else { return "err eof".into() };
                format!("ok {}", t.expand(l).as_u64())
            }
            ["rt", p, la, l] => {
                let (Some(p), Some(la), Some(l)) = (pn(p), pn(la), pn(l)) else { return "bad-op".into() };
                let Some(t) = p.truncate(la) else { return "err none".into() };
                let b = encode_truncated(&t);
                let tag = t.len().into_packet_tag_mask();
                let Some((t2, _)) = decode_truncated(tag, &b) else { return "err eof".into() };
                assert_eq!(t2, t, "wire round trip of the truncated packet number");
                format!("ok {} {} {}", t.len().bytesize(), hex(&b), t2.expand(l).as_u64())
            }
            ["dec", fb, h] => {
                let (Some(fb), Some(b)) = (num::<u64>(fb), unhex(h)) else { return "bad-op".into() };
                if fb >= 256 {
                    return "bad-op".into();
                }
                match decode_truncated(fb as u8, &b) {
                    Some((t, used)) => {
                        let e = encode_truncated(&t);
                        assert_eq!(&e[..], &b[..used], "re-encoding differs from the bytes consumed");
                        format!("ok {} {} {}", t.len().bytesize(), be_value(&e), used)
                    }
                    None => "err eof".into(),
                }
            }
            ["next", p] => {
                let Some(p) = pn(p) else { return "bad-op".into() };
                match p.next() {
                    Some(x) => format!("ok {}", x.as_u64()),
                    None => "err none".into(),
                }
            }
            ["prev", p] => {
                let Some(p) = pn(p) else { return "bad-op".into() };
                match p.prev() {
                    Some(x) => format!("ok {}", x.as_u64()),
                    None => "err none".into(),
                }
            }
            ["range", s, e, pat] => {
                let (Some(s), Some(e)) = (pn(s), pn(e)) else { return "bad-op".into() };
                if s > e || !pat.chars().all(|c| c == 'f' || c == 'b') {
                    return "bad-op".into();
                }
                let mut r = PacketNumberRange::new(s, e);
                let mut items = vec![];
                for c in pat.chars() {
                    let o = if c == 'f' { r.next() } else { r.next_back() };
                    items.push(o.map(|x| x.as_u64().to_string()).unwrap_or_else(|| "x".into()));
                }
                if items.is_empty() {
                    "ok -".into()
                } else {
                    format!("ok {}", items.join(","))
                }
            }
            _ => "bad-op".into(),
        }
    }
}
