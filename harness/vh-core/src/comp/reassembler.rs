//! `reassembler`: drives the REAL `s2n_quic_core::buffer::Reassembler` through its public API
//! (`write_at`, `write_at_fin`, `pop`, `pop_watermarked`, `skip`, `reset` and the observers).
//! Protocol: see lean/QuicModel/Drivers/Reassembler.lean.
use crate::{util::*, Component};
use s2n_quic_core::{
    buffer::{Error, Reassembler},
    varint::VarInt,
};

pub const NAMES: &[&str] = &["reassembler", "reassembler-slots"];

pub fn make(name: &str) -> Option<Box<dyn Component>> {
    match name {
        "reassembler" => Some(Box::new(ReasmC {
            buf: Reassembler::new(),
            slots: false,
        })),
        // the same object, observed including chunk boundaries and report()
        "reassembler-slots" => Some(Box::new(ReasmC {
            buf: Reassembler::new(),
            slots: true,
        })),
        _ => None,
    }
}

pub struct ReasmC {
    buf: Reassembler,
    /// `reassembler-slots`: also print chunk lengths and `report()`
    slots: bool,
}

/// test-input generator (NOT part of the code under test): byte `i` of the stream keyed `key`
fn payload_byte(key: u64, i: u64) -> u8 {
    (i.wrapping_mul(0x9E37_79B9_7F4A_7C15)
        .wrapping_add(key.wrapping_mul(0xD1B5_4A32_D192_ED03))
        >> 56) as u8
}

fn fnv(b: &[u8]) -> u64 {
    let mut h: u64 = 0xcbf2_9ce4_8422_2325;
    for x in b {
        h = (h ^ *x as u64).wrapping_mul(0x0000_0100_0000_01b3);
    }
    h
}

fn show_bytes(b: &[u8]) -> String {
    if b.len() <= 48 {
        hex(b)
    } else {
        format!(
            "{}:{}:{}:{}",
            b.len(),
            hex(&b[..8]),
            hex(&b[b.len() - 8..]),
            fnv(b)
        )
    }
}

fn watermark(t: &str) -> Option<Option<usize>> {
    if t == "inf" {
        return Some(None);
    }
    let w = num::<u64>(t)?;
    if w == u64::MAX {
        return None;
    }
    Some(Some(w as usize))
}

fn flag(t: &str) -> Option<bool> {
    match t {
        "0" => Some(false),
        "1" => Some(true),
        _ => None,
    }
}

impl ReasmC {
    fn answer(&self, status: &str, popped: &[u8]) -> String {
        self.answer_chunks(status, popped, &[])
    }

    fn answer_chunks(&self, status: &str, popped: &[u8], chunks: &[u64]) -> String {
        let b = &self.buf;
        let fin = match b.final_size() {
            Some(f) => f.to_string(),
            None => "none".to_string(),
        };
        if self.slots {
            let (bytes, nchunks) = b.report();
            return format!(
                "{} {} {} {} {} {} {} {} {} {} {}",
                status,
                show_bytes(popped),
                list(chunks),
                bytes,
                nchunks,
                b.consumed_len(),
                b.total_received_len(),
                fin,
                b.is_writing_complete() as u8,
                b.is_reading_complete() as u8,
                b.is_empty() as u8
            );
        }
        format!(
            "{} {} {} {} {} {} {} {} {}",
            status,
            show_bytes(popped),
            b.len(),
            b.consumed_len(),
            b.total_received_len(),
            fin,
            b.is_writing_complete() as u8,
            b.is_reading_complete() as u8,
            b.is_empty() as u8
        )
    }

    fn result(&self, r: Result<(), Error>) -> String {
        match r {
            Ok(()) => self.answer("ok", &[]),
            Err(Error::InvalidFin) => self.answer("err invalid-fin", &[]),
            Err(Error::OutOfRange) => self.answer("err out-of-range", &[]),
            Err(Error::ReaderError(_)) => self.answer("err reader-error", &[]),
        }
    }

    fn write(&mut self, off: VarInt, data: &[u8], fin: bool) -> String {
        let r = if fin {
            self.buf.write_at_fin(off, data)
        } else {
            self.buf.write_at(off, data)
        };
        self.result(r)
    }

    fn pop_once(&mut self, w: Option<usize>) -> Option<Vec<u8>> {
        match w {
            None => self.buf.pop().map(|c| c.to_vec()),
            Some(w) => self.buf.pop_watermarked(w).map(|c| c.to_vec()),
        }
    }
}

impl Component for ReasmC {
    fn step(&mut self, t: &[&str]) -> String {
        match t {
            ["w", off, n, key, fin] => {
                let (Some(off), Some(n), Some(key), Some(fin)) =
                    (num::<u64>(off), num::<u64>(n), num::<u64>(key), flag(fin))
                else {
                    return "bad-op".into();
                };
                let Ok(voff) = VarInt::new(off) else { return "bad-op".into() };
                if n > 16_777_216 {
                    return "bad-op".into();
                }
                let data: Vec<u8> = (0..n).map(|j| payload_byte(key, off.wrapping_add(j))).collect();
                self.write(voff, &data, fin)
            }
            ["wx", off, h, fin] => {
                let (Some(off), Some(data), Some(fin)) = (num::<u64>(off), unhex(h), flag(fin)) else {
                    return "bad-op".into();
                };
                let Ok(voff) = VarInt::new(off) else { return "bad-op".into() };
                self.write(voff, &data, fin)
            }
            ["read", w] => {
                let Some(w) = watermark(w) else { return "bad-op".into() };
                let mut got: Vec<u8> = Vec::new();
                let mut chunks: Vec<u64> = Vec::new();
                loop {
                    let c = match w {
                        None => self.pop_once(None),
                        Some(w) => self.pop_once(Some(w - got.len())),
                    };
                    let Some(c) = c else { break };
                    chunks.push(c.len() as u64);
                    got.extend_from_slice(&c);
                    if let Some(w) = w {
                        if got.len() >= w {
                            break;
                        }
                    }
                }
                self.answer_chunks("ok", &got, &chunks)
            }
            ["pop", w] if self.slots => {
                let Some(w) = watermark(w) else { return "bad-op".into() };
                let c = self.pop_once(w).unwrap_or_default();
                let chunks: Vec<u64> = if c.is_empty() { vec![] } else { vec![c.len() as u64] };
                self.answer_chunks("ok", &c, &chunks)
            }
            ["popn", w, k] if !self.slots => {
                let (Some(w), Some(_k)) = (watermark(w), num::<u64>(k)) else {
                    return "bad-op".into();
                };
                let c = self.pop_once(w).unwrap_or_default();
                self.answer("ok", &c)
            }
            ["skip", n] => {
                let Some(n) = num::<u64>(n) else { return "bad-op".into() };
                let Ok(n) = VarInt::new(n) else { return "bad-op".into() };
                let r = self.buf.skip(n);
                self.result(r)
            }
            ["clear"] => {
                self.buf.reset();
                self.answer("ok", &[])
            }
            _ => "bad-op".into(),
        }
    }
}
