//! C05 packet headers: the REAL `ProtectedPacket::decode(buffer, &connection_info, &dcid_len)` with a
//! `usize` connection-ID validator, the coalesced-packet loop of `handle_remaining_packets`
//! (`while !payload.is_empty() { decode … else break }`), and the public encoders:
//! `VersionNegotiation::encode`, `Retry::encode`, and the transmit path `PacketEncoder::encode_packet`
//! for Initial / 0-RTT / Handshake / 1-RTT under `crypto::testing::{Key, HeaderKey}` (identity
//! "encryption", zero header-protection mask, `tag_len() == 0`), which leaves the header — including
//! the Length field written through the placeholder cursor — in clear.
//! Nothing about the layout is re-implemented here: every printed field is read off the decoded value.
use crate::{util::*, Component};
use s2n_codec::{DecoderBufferMut, DecoderError, EncoderBuffer, EncoderValue};
use s2n_quic_core::{
    connection::id::ConnectionInfo,
    crypto::key::testing::{HeaderKey, Key},
    inet::SocketAddress,
    packet::{
        encoding::{PacketEncoder, PacketEncodingError},
        handshake::Handshake,
        initial::Initial,
        number::{PacketNumber, PacketNumberSpace},
        retry::Retry,
        short::{Short, SpinBit},
        version_negotiation::VersionNegotiation,
        zero_rtt::ZeroRtt,
        KeyPhase, ProtectedPacket,
    },
    varint::VarInt,
};

pub const NAMES: &[&str] = &["packet_header"];

pub fn make(name: &str) -> Option<Box<dyn Component>> {
    match name {
        "packet_header" => Some(Box::new(PacketHeader)),
        _ => None,
    }
}

pub struct PacketHeader;

fn err_class(e: DecoderError) -> String {
    match e {
        DecoderError::UnexpectedEof(_) => "eof".into(),
        DecoderError::InvariantViolation(m) => match m {
            "invalid packet" => "invalid-packet".into(),
            "invalid version negotiation packet" => "invalid-vn".into(),
            "destination connection exceeds max length" => "dcid-len".into(),
            "source connection exceeds max length" => "scid-len".into(),
            "invalid connection id" => "invalid-cid".into(),
            "Token cannot be empty" => "retry-token-empty".into(),
            "missing at least one version" => "vn-no-version".into(),
            "invalid payload length" => "vn-len".into(),
            other => format!("other:{}", other.replace(' ', "_")),
        },
        other => format!("other:{other:?}").replace(' ', "_"),
    }
}

/// `ProtectedPayload.header_len` is crate-private; its `Debug` rendering is
/// `ProtectedPayload { header_len: <n>, buffer_len: <m> }`
fn header_len<T: core::fmt::Debug>(payload: &T) -> Option<usize> {
    let s = format!("{payload:?}");
    let (_, r) = s.split_once("header_len: ")?;
    let digits: String = r.chars().take_while(|c| c.is_ascii_digit()).collect();
    digits.parse().ok()
}

fn kind(p: &ProtectedPacket) -> &'static str {
    match p {
        ProtectedPacket::Short(_) => "short",
        ProtectedPacket::VersionNegotiation(_) => "vn",
        ProtectedPacket::Initial(_) => "initial",
        ProtectedPacket::ZeroRtt(_) => "zerortt",
        ProtectedPacket::Handshake(_) => "handshake",
        ProtectedPacket::Retry(_) => "retry",
    }
}

fn render(p: &ProtectedPacket, rem: usize) -> String {
    let hl = |x: Option<usize>| x.map(|v| v.to_string()).unwrap_or_else(|| "?".into());
    match p {
        ProtectedPacket::Short(s) => format!(
            "ok short spin={} dcid={} hdr={} len={} rem={}",
            if s.spin_bit == SpinBit::One { 1 } else { 0 },
            hex(s.destination_connection_id()),
            hl(header_len(&s.payload)),
            s.payload.len(),
            rem
        ),
        ProtectedPacket::VersionNegotiation(v) => {
            let versions: Vec<u64> = v.iter().map(u64::from).collect();
            format!(
                "ok vn tag={} dcid={} scid={} versions={} rem={}",
                v.tag,
                hex(v.destination_connection_id()),
                hex(v.source_connection_id()),
                list(&versions),
                rem
            )
        }
        ProtectedPacket::Initial(i) => format!(
            "ok initial v={} dcid={} scid={} token={} hdr={} len={} rem={}",
            i.version,
            hex(i.destination_connection_id()),
            hex(i.source_connection_id()),
            hex(i.token()),
            hl(header_len(&i.payload)),
            i.payload.len(),
            rem
        ),
        ProtectedPacket::ZeroRtt(z) => format!(
            "ok zerortt v={} dcid={} scid={} hdr={} len={} rem={}",
            z.version,
            hex(z.destination_connection_id()),
            hex(z.source_connection_id()),
            hl(header_len(&z.payload)),
            z.payload.len(),
            rem
        ),
        ProtectedPacket::Handshake(h) => format!(
            "ok handshake v={} dcid={} scid={} hdr={} len={} rem={}",
            h.version,
            hex(h.destination_connection_id()),
            hex(h.source_connection_id()),
            hl(header_len(&h.payload)),
            h.payload.len(),
            rem
        ),
        ProtectedPacket::Retry(r) => format!(
            "ok retry tag={} v={} dcid={} scid={} token={} itag={} rem={}",
            r.tag,
            r.version,
            hex(r.destination_connection_id()),
            hex(r.source_connection_id()),
            hex(r.retry_token()),
            hex(&r.retry_integrity_tag[..]),
            rem
        ),
    }
}

fn pn_of(space: PacketNumberSpace, v: &str) -> Option<PacketNumber> {
    Some(space.new_packet_number(VarInt::new(num::<u64>(v)?).ok()?))
}

fn enc_err(e: PacketEncodingError) -> String {
    match e {
        PacketEncodingError::PacketNumberTruncationError(_) => "err trunc".into(),
        PacketEncodingError::InsufficientSpace(_) => "err space".into(),
        PacketEncodingError::EmptyPayload(_) => "err empty".into(),
        PacketEncodingError::AeadLimitReached(_) => "err aead-limit".into(),
    }
}

/// the real transmit path with the testing key; prints the bytes of the protected payload it returns
fn seal<'a, P: PacketEncoder<Key, HeaderKey, &'a [u8]>>(packet: P, cap: usize, la: PacketNumber) -> String {
    let mut buf = vec![0u8; cap];
    let mut key = Key::new();
    let hk = HeaderKey::new();
    let res = packet.encode_packet(&mut key, &hk, la, None, EncoderBuffer::new(&mut buf));
    match res {
        Ok((protected, _rest)) => {
            let n = protected.len();
            drop(protected);
            format!("ok {}", hex(&buf[..n]))
        }
        Err(e) => enc_err(e),
    }
}

const MAX_ARG: usize = 65535;

impl Component for PacketHeader {
    fn step(&mut self, t: &[&str]) -> String {
        let addr = SocketAddress::default();
        let info = ConnectionInfo::new(&addr);
        match t {
            ["dec", n, h] => {
                let (Some(n), Some(mut b)) = (num::<usize>(n), unhex(h)) else { return "bad-op".into() };
                if n > MAX_ARG {
                    return "bad-op".into();
                }
                let total = b.len();
                let _ = total;
                match ProtectedPacket::decode(DecoderBufferMut::new(&mut b), &info, &n) {
                    Ok((packet, remaining)) => render(&packet, remaining.len()),
                    Err(e) => format!("err {}", err_class(e)),
                }
            }
            ["decall", n, h] => {
                let (Some(n), Some(mut b)) = (num::<usize>(n), unhex(h)) else { return "bad-op".into() };
                if n > MAX_ARG {
                    return "bad-op".into();
                }
                // `Connection::handle_remaining_packets`
                let mut payload = DecoderBufferMut::new(&mut b);
                let mut seen: Vec<String> = vec![];
                let mut stop = "done".to_string();
                let mut guard = 0usize;
                while !payload.is_empty() {
                    guard += 1;
                    if guard > 1_000_000 {
                        return "panic endless-loop".into();
                    }
                    let before = payload.len();
                    match ProtectedPacket::decode(payload, &info, &n) {
                        Ok((packet, remaining)) => {
                            seen.push(format!("{}:{}", kind(&packet), before - remaining.len()));
                            payload = remaining;
                        }
                        Err(e) => {
                            stop = err_class(e);
                            break;
                        }
                    }
                }
                format!("ok {} {} end={}", seen.len(), if seen.is_empty() { "-".into() } else { seen.join(",") }, stop)
            }
            ["enc", "vn", tag, d, s, sup] => {
                let (Some(tag), Some(d), Some(s), Some(sup)) = (num::<u8>(tag), unhex(d), unhex(s), unhex(sup)) else {
                    return "bad-op".into();
                };
                if d.len() > 255 || s.len() > 255 {
                    return "bad-op".into();
                }
                let packet = VersionNegotiation {
                    tag,
                    destination_connection_id: &d[..],
                    source_connection_id: &s[..],
                    supported_versions: &sup[..],
                };
                let size = packet.encoding_size();
                let bytes = packet.encode_to_vec();
                if bytes.len() != size {
                    return format!("ok SIZE-MISMATCH {} {}", size, hex(&bytes));
                }
                format!("ok {}", hex(&bytes))
            }
            ["enc", "retry", tag, v, d, s, tok, itag] => {
                let (Some(tag), Some(v), Some(d), Some(s), Some(tok), Some(itag)) =
                    (num::<u8>(tag), num::<u32>(v), unhex(d), unhex(s), unhex(tok), unhex(itag))
                else {
                    return "bad-op".into();
                };
                if d.len() > 255 || s.len() > 255 {
                    return "bad-op".into();
                }
                let Ok(itag): Result<[u8; 16], _> = itag.try_into() else { return "bad-op".into() };
                let packet = Retry {
                    tag,
                    version: v,
                    destination_connection_id: &d[..],
                    source_connection_id: &s[..],
                    retry_token: &tok[..],
                    retry_integrity_tag: &itag,
                };
                let size = packet.encoding_size();
                let bytes = packet.encode_to_vec();
                if bytes.len() != size {
                    return format!("ok SIZE-MISMATCH {} {}", size, hex(&bytes));
                }
                format!("ok {}", hex(&bytes))
            }
            ["enc", "initial", cap, v, d, s, tok, pn, la, payload] => {
                let space = PacketNumberSpace::Initial;
                let (Some(cap), Some(v), Some(d), Some(s), Some(tok), Some(pn), Some(la), Some(payload)) =
                    (num::<usize>(cap), num::<u32>(v), unhex(d), unhex(s), unhex(tok), pn_of(space, pn), pn_of(space, la), unhex(payload))
                else {
                    return "bad-op".into();
                };
                if cap > MAX_ARG || d.len() > 255 || s.len() > 255 {
                    return "bad-op".into();
                }
                let packet = Initial {
                    version: v,
                    destination_connection_id: &d[..],
                    source_connection_id: &s[..],
                    token: &tok[..],
                    packet_number: pn,
                    payload: &payload[..],
                };
                seal(packet, cap, la)
            }
            ["enc", "short", cap, spin, phase, d, pn, la, payload] => {
                let space = PacketNumberSpace::ApplicationData;
                let (Some(cap), Some(spin), Some(phase), Some(d), Some(pn), Some(la), Some(payload)) =
                    (num::<usize>(cap), num::<u8>(spin), num::<u8>(phase), unhex(d), pn_of(space, pn), pn_of(space, la), unhex(payload))
                else {
                    return "bad-op".into();
                };
                if cap > MAX_ARG || spin > 1 || phase > 1 {
                    return "bad-op".into();
                }
                let packet = Short {
                    spin_bit: if spin == 1 { SpinBit::One } else { SpinBit::Zero },
                    key_phase: if phase == 1 { KeyPhase::One } else { KeyPhase::Zero },
                    destination_connection_id: &d[..],
                    packet_number: pn,
                    payload: &payload[..],
                };
                seal(packet, cap, la)
            }
            ["enc", kind, cap, v, d, s, pn, la, payload] => {
                let space = match *kind {
                    "zerortt" => PacketNumberSpace::ApplicationData,
                    "handshake" => PacketNumberSpace::Handshake,
                    _ => return "bad-op".into(),
                };
                let (Some(cap), Some(v), Some(d), Some(s), Some(pn), Some(la), Some(payload)) =
                    (num::<usize>(cap), num::<u32>(v), unhex(d), unhex(s), pn_of(space, pn), pn_of(space, la), unhex(payload))
                else {
                    return "bad-op".into();
                };
                if cap > MAX_ARG || d.len() > 255 || s.len() > 255 {
                    return "bad-op".into();
                }
                if *kind == "zerortt" {
                    seal(
                        ZeroRtt { version: v, destination_connection_id: &d[..], source_connection_id: &s[..], packet_number: pn, payload: &payload[..] },
                        cap,
                        la,
                    )
                } else {
                    seal(
                        Handshake { version: v, destination_connection_id: &d[..], source_connection_id: &s[..], packet_number: pn, payload: &payload[..] },
                        cap,
                        la,
                    )
                }
            }
            _ => "bad-op".into(),
        }
    }
}
