//! `rtt`: the REAL `s2n_quic_core::recovery::RttEstimator`. Durations in ns, timestamps in µs.
use super::loss::{ts, ts_us, DOM};
use crate::{util::*, Component};
use core::time::Duration;
use s2n_quic_core::{
    packet::number::PacketNumberSpace, recovery::RttEstimator, transport::parameters::MaxAckDelay,
};
use std::panic::{catch_unwind, AssertUnwindSafe};

pub const NAMES: &[&str] = &["rtt"];

pub fn make(name: &str) -> Option<Box<dyn Component>> {
    match name {
        "rtt" => Some(Box::new(RttC { r: RttEstimator::default() })),
        _ => None,
    }
}

pub struct RttC {
    r: RttEstimator,
}

fn space(s: &str) -> Option<PacketNumberSpace> {
    match s {
        "0" => Some(PacketNumberSpace::Initial),
        "1" => Some(PacketNumberSpace::Handshake),
        "2" => Some(PacketNumberSpace::ApplicationData),
        _ => None,
    }
}

fn show(r: &RttEstimator) -> String {
    let hs = PacketNumberSpace::Handshake;
    let app = PacketNumberSpace::ApplicationData;
    format!(
        "ok {} {} {} {} {} {} {} {} {} {} {} {} {} {}",
        r.latest_rtt().as_nanos(),
        r.min_rtt().as_nanos(),
        r.smoothed_rtt().as_nanos(),
        r.rttvar().as_nanos(),
        r.max_ack_delay().as_nanos(),
        r.first_rtt_sample().map(|t| ts_us(t).to_string()).unwrap_or_else(|| "none".into()),
        r.loss_time_threshold().as_nanos(),
        r.persistent_congestion_threshold().as_nanos(),
        r.pto_period(1, hs).as_nanos(),
        r.pto_period(2, hs).as_nanos(),
        r.pto_period(4, hs).as_nanos(),
        r.pto_period(1, app).as_nanos(),
        r.pto_period(2, app).as_nanos(),
        r.pto_period(4, app).as_nanos(),
    )
}

impl Component for RttC {
    fn step(&mut self, t: &[&str]) -> String {
        match t {
            ["new", a] | ["newpath", a] => {
                let Some(v) = num::<u64>(a) else { return "bad-op".into() };
                if v >= DOM {
                    return "bad-op".into();
                }
                let old = self.r;
                let is_new = t[0] == "new";
                let r = catch_unwind(AssertUnwindSafe(|| {
                    if is_new {
                        RttEstimator::new(Duration::from_nanos(v))
                    } else {
                        old.for_new_path(Duration::from_nanos(v))
                    }
                }));
                match r {
                    Ok(r) => {
                        self.r = r;
                        show(&self.r)
                    }
                    Err(_) => "err debug-assert".into(),
                }
            }
            ["mad", a] => {
                let Some(v) = num::<u64>(a) else { return "bad-op".into() };
                if v >= 16384 {
                    return "bad-op".into();
                }
                let Ok(m) = MaxAckDelay::try_from(Duration::from_millis(v)) else { return "err invalid".into() };
                self.r.on_max_ack_delay(m);
                show(&self.r)
            }
            ["pc"] => {
                self.r.on_persistent_congestion();
                show(&self.r)
            }
            ["get"] => show(&self.r),
            ["update", a, b, c, d, e] => {
                let (Some(ad), Some(sample), Some(now)) = (num::<u64>(a), num::<u64>(b), num::<u64>(c)) else {
                    return "bad-op".into();
                };
                let conf = match *d {
                    "0" => false,
                    "1" => true,
                    _ => return "bad-op".into(),
                };
                let Some(sp) = space(e) else { return "bad-op".into() };
                if !(ad < DOM && sample < DOM && 1 <= now && now < DOM) {
                    return "bad-op".into();
                }
                self.r.update_rtt(Duration::from_nanos(ad), Duration::from_nanos(sample), ts(now), conf, sp);
                show(&self.r)
            }
            _ => "bad-op".into(),
        }
    }
}
