//! `pcong`: the REAL `s2n_quic_core::recovery::persistent_congestion::Calculator`.
//!   new <first_rtt_sample_us|none> <path_id>
//!   lost <pn> <time_sent_us> <path_id> <mtu_probing 0|1> <ack_eliciting 0|1>   -> ok <persistent_congestion_duration_ns>
use super::loss::{ts, DOM};
use crate::{util::*, Component};
use s2n_quic_core::{
    frame::ack_elicitation::AckElicitation,
    inet::ExplicitCongestionNotification,
    packet::number::PacketNumberSpace,
    path,
    recovery::{persistent_congestion::Calculator, SentPacketInfo},
    transmission,
    varint::VarInt,
};
use std::panic::{catch_unwind, AssertUnwindSafe};

pub const NAMES: &[&str] = &["pcong"];

pub fn make(name: &str) -> Option<Box<dyn Component>> {
    match name {
        "pcong" => Some(Box::new(PcongC { c: Calculator::new(None, pid(0)) })),
        _ => None,
    }
}

fn pid(i: u8) -> path::Id {
    // Safety: only used as an opaque label by the calculator
    unsafe { path::Id::new(i) }
}

pub struct PcongC {
    c: Calculator,
}

impl Component for PcongC {
    fn step(&mut self, t: &[&str]) -> String {
        match t {
            ["new", a, b] => {
                let first = if *a == "none" {
                    None
                } else {
                    match num::<u64>(a) {
                        Some(v) if (1..DOM).contains(&v) => Some(ts(v)),
                        _ => return "bad-op".into(),
                    }
                };
                let Some(p) = num::<u8>(b) else { return "bad-op".into() };
                self.c = Calculator::new(first, pid(p));
                format!("ok {}", self.c.persistent_congestion_duration().as_nanos())
            }
            ["lost", a, b, c, d, e] => {
                let (Some(pn), Some(sent), Some(p)) = (num::<u64>(a), num::<u64>(b), num::<u8>(c)) else {
                    return "bad-op".into();
                };
                let (mtu, ae) = match (*d, *e) {
                    ("0", "0") => (false, false),
                    ("0", "1") => (false, true),
                    ("1", "0") => (true, false),
                    ("1", "1") => (true, true),
                    _ => return "bad-op".into(),
                };
                if !(pn < DOM && 1 <= sent && sent < DOM) {
                    return "bad-op".into();
                }
                let pn = PacketNumberSpace::ApplicationData.new_packet_number(VarInt::new(pn).unwrap());
                let info = SentPacketInfo::new(
                    true,
                    1200,
                    ts(sent),
                    if ae { AckElicitation::Eliciting } else { AckElicitation::NonEliciting },
                    pid(p),
                    ExplicitCongestionNotification::default(),
                    if mtu { transmission::Mode::MtuProbing } else { transmission::Mode::Normal },
                    (),
                );
                let r = catch_unwind(AssertUnwindSafe(|| self.c.on_lost_packet(pn, &info)));
                match r {
                    Ok(()) => format!("ok {}", self.c.persistent_congestion_duration().as_nanos()),
                    Err(_) => "err debug-assert".into(),
                }
            }
            _ => "bad-op".into(),
        }
    }
}
