//! component `ackranges`: drives the REAL `s2n_quic_core::ack::Ranges` (capacity-bounded ACK range
//! set) over `PacketNumberSpace::ApplicationData`. Starts as `Ranges::default()`.
//! After every op: `ok <result> <complete interval list, ascending>`.
use crate::{util::*, Component};
use s2n_quic_core::{
    ack::{ranges::Error, Ranges},
    frame::ack::AckRanges as _,
    interval_set::IntervalSetError,
    packet::number::{PacketNumber, PacketNumberRange, PacketNumberSpace},
    varint::VarInt,
};

pub const NAMES: &[&str] = &["ackranges"];

pub fn make(name: &str) -> Option<Box<dyn Component>> {
    match name {
        "ackranges" => Some(Box::new(AckRangesC { r: Ranges::default() })),
        _ => None,
    }
}

pub struct AckRangesC {
    r: Ranges,
}

fn pn(s: &str) -> Option<PacketNumber> {
    let v = num::<u64>(s)?;
    let v = VarInt::new(v).ok()?;
    Some(PacketNumberSpace::ApplicationData.new_packet_number(v))
}

fn val(p: PacketNumber) -> u64 {
    PacketNumber::as_varint(p).as_u64()
}

fn opt(v: Option<PacketNumber>) -> String {
    match v {
        Some(v) => val(v).to_string(),
        None => "none".into(),
    }
}

impl AckRangesC {
    fn reply(&self, res: &str) -> String {
        let v: Vec<String> = self
            .r
            .inclusive_ranges()
            .map(|r| format!("{}-{}", val(*r.start()), val(*r.end())))
            .collect();
        format!("ok {} {}", res, if v.is_empty() { "-".to_string() } else { v.join(",") })
    }

    fn outcome(&self, r: Result<(), Error>) -> String {
        let s = match r {
            Ok(()) => "ok".to_string(),
            Err(Error::LowestRangeDropped { min, max }) => format!("dropped:{}-{}", val(min), val(max)),
            Err(Error::RangeInsertionFailed { min, max }) => format!("failed:{}-{}", val(min), val(max)),
        };
        self.reply(&s)
    }
}

impl Component for AckRangesC {
    fn step(&mut self, t: &[&str]) -> String {
        match t {
            ["new", n] => {
                let Some(l) = num::<usize>(n) else { return "bad-op".into() };
                if l == 0 || l > 1_000_000 {
                    return "bad-op".into();
                }
                self.r = Ranges::new(l);
                self.reply("-")
            }
            ["ins", x, y] => {
                let (Some(lo), Some(hi)) = (pn(x), pn(y)) else { return "bad-op".into() };
                if lo > hi {
                    return "bad-op".into();
                }
                let r = self.r.insert_packet_number_range(PacketNumberRange::new(lo, hi));
                self.outcome(r)
            }
            ["insv", x] => {
                let Some(v) = pn(x) else { return "bad-op".into() };
                let r = self.r.insert_packet_number(v);
                self.outcome(r)
            }
            ["rm", x, y] => {
                let (Some(lo), Some(hi)) = (pn(x), pn(y)) else { return "bad-op".into() };
                let r = self.r.remove(lo..=hi);
                self.reply(match r {
                    Ok(()) => "ok",
                    Err(IntervalSetError::LimitExceeded) => "limit",
                    Err(IntervalSetError::InvalidInterval) => "invalid",
                })
            }
            ["has", x] => {
                let Some(v) = pn(x) else { return "bad-op".into() };
                self.reply(if self.r.contains(&v) { "1" } else { "0" })
            }
            ["pop"] => {
                let r = match self.r.pop_min() {
                    Some(i) => format!("{}-{}", val(i.start_inclusive()), val(i.end_inclusive())),
                    None => "none".into(),
                };
                self.reply(&r)
            }
            ["min"] => self.reply(&opt(self.r.min_value())),
            ["max"] => self.reply(&opt(self.r.max_value())),
            ["spread"] => self.reply(&self.r.spread().to_string()),
            ["len"] => self.reply(&self.r.interval_len().to_string()),
            ["iter"] => {
                // the order an ACK frame is written in
                let v: Vec<String> = (&self.r)
                    .ack_ranges()
                    .map(|r| format!("{}-{}", r.start().as_u64(), r.end().as_u64()))
                    .collect();
                self.reply(&if v.is_empty() { "-".to_string() } else { v.join(",") })
            }
            ["clear"] => {
                self.r.clear();
                self.reply("-")
            }
            _ => "bad-op".into(),
        }
    }
}
