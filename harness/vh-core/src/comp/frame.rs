//! `frame`: the real s2n-quic-core frame decoder/encoder behind the line protocol.
//!   `dec <hex>`    decode ONE frame (`FrameMut` from a `DecoderBufferMut`), print the value in a
//!                  canonical rendering, bytes consumed, the re-encoded bytes and `encoding_size()`
//!   `decall <hex>` the frame-sequence loop of `handle_cleartext_payload`
//!                  (`while !payload.is_empty() { payload.decode::<FrameMut>()? }`)
//! Nothing is re-implemented here: values are only rendered.
use crate::{util::*, Component};
use s2n_codec::{DecoderBufferMut, DecoderError, Encoder, EncoderBuffer, EncoderValue};
use s2n_quic_core::{
    frame::{ack::AckRanges, Frame, FrameMut},
    stream::StreamType,
};

pub const NAMES: &[&str] = &["frame"];

pub fn make(name: &str) -> Option<Box<dyn Component>> {
    match name {
        "frame" => Some(Box::new(FrameC)),
        _ => None,
    }
}

pub struct FrameC;

fn err_str(e: DecoderError) -> String {
    match e {
        DecoderError::UnexpectedEof(_) => "eof".into(),
        DecoderError::UnexpectedBytes(_) => "bytes".into(),
        DecoderError::LengthCapacityExceeded => "length-capacity".into(),
        DecoderError::InvariantViolation(msg) => format!("inv:{}", msg.replace(' ', "-")),
    }
}

fn b01(b: bool) -> &'static str {
    if b {
        "1"
    } else {
        "0"
    }
}

fn bidi(t: StreamType) -> &'static str {
    match t {
        StreamType::Bidirectional => "1",
        StreamType::Unidirectional => "0",
    }
}

fn type_name(f: &FrameMut) -> &'static str {
    match f {
        Frame::Padding(_) => "PADDING",
        Frame::Ping(_) => "PING",
        Frame::Ack(_) => "ACK",
        Frame::ResetStream(_) => "RESET_STREAM",
        Frame::StopSending(_) => "STOP_SENDING",
        Frame::Crypto(_) => "CRYPTO",
        Frame::NewToken(_) => "NEW_TOKEN",
        Frame::Stream(_) => "STREAM",
        Frame::MaxData(_) => "MAX_DATA",
        Frame::MaxStreamData(_) => "MAX_STREAM_DATA",
        Frame::MaxStreams(_) => "MAX_STREAMS",
        Frame::DataBlocked(_) => "DATA_BLOCKED",
        Frame::StreamDataBlocked(_) => "STREAM_DATA_BLOCKED",
        Frame::StreamsBlocked(_) => "STREAMS_BLOCKED",
        Frame::NewConnectionId(_) => "NEW_CONNECTION_ID",
        Frame::RetireConnectionId(_) => "RETIRE_CONNECTION_ID",
        Frame::PathChallenge(_) => "PATH_CHALLENGE",
        Frame::PathResponse(_) => "PATH_RESPONSE",
        Frame::ConnectionClose(_) => "CONNECTION_CLOSE",
        Frame::HandshakeDone(_) => "HANDSHAKE_DONE",
        Frame::Datagram(_) => "DATAGRAM",
        Frame::DcStatelessResetTokens(_) => "DC_STATELESS_RESET_TOKENS",
        Frame::MtuProbingComplete(_) => "MTU_PROBING_COMPLETE",
    }
}

fn inner_size(f: &FrameMut) -> usize {
    match f {
        Frame::Padding(x) => x.encoding_size(),
        Frame::Ping(x) => x.encoding_size(),
        Frame::Ack(x) => x.encoding_size(),
        Frame::ResetStream(x) => x.encoding_size(),
        Frame::StopSending(x) => x.encoding_size(),
        Frame::Crypto(x) => x.encoding_size(),
        Frame::NewToken(x) => x.encoding_size(),
        Frame::Stream(x) => x.encoding_size(),
        Frame::MaxData(x) => x.encoding_size(),
        Frame::MaxStreamData(x) => x.encoding_size(),
        Frame::MaxStreams(x) => x.encoding_size(),
        Frame::DataBlocked(x) => x.encoding_size(),
        Frame::StreamDataBlocked(x) => x.encoding_size(),
        Frame::StreamsBlocked(x) => x.encoding_size(),
        Frame::NewConnectionId(x) => x.encoding_size(),
        Frame::RetireConnectionId(x) => x.encoding_size(),
        Frame::PathChallenge(x) => x.encoding_size(),
        Frame::PathResponse(x) => x.encoding_size(),
        Frame::ConnectionClose(x) => x.encoding_size(),
        Frame::HandshakeDone(x) => x.encoding_size(),
        Frame::Datagram(x) => x.encoding_size(),
        Frame::DcStatelessResetTokens(x) => x.encoding_size(),
        Frame::MtuProbingComplete(x) => x.encoding_size(),
    }
}

fn render(f: FrameMut) -> String {
    match f {
        Frame::Padding(p) => format!("PADDING len={}", p.length),
        Frame::Ping(_) => "PING".into(),
        Frame::Ack(a) => {
            let ranges: Vec<String> = a
                .ack_ranges
                .ack_ranges()
                .map(|r| format!("{}-{}", r.start().as_u64(), r.end().as_u64()))
                .collect();
            let ranges = if ranges.is_empty() { "-".to_string() } else { ranges.join(",") };
            let ecn = match &a.ecn_counts {
                Some(e) => format!("{},{},{}", e.ect_0_count.as_u64(), e.ect_1_count.as_u64(), e.ce_count.as_u64()),
                None => "-".into(),
            };
            format!("ACK delay={} ranges={} ecn={}", a.ack_delay.as_u64(), ranges, ecn)
        }
        Frame::ResetStream(r) => format!(
            "RESET_STREAM sid={} code={} final={}",
            r.stream_id.as_u64(),
            r.application_error_code.as_u64(),
            r.final_size.as_u64()
        ),
        Frame::StopSending(r) => format!("STOP_SENDING sid={} code={}", r.stream_id.as_u64(), r.application_error_code.as_u64()),
        Frame::Crypto(c) => format!("CRYPTO off={} data={}", c.offset.as_u64(), hex(c.data.as_less_safe_slice())),
        Frame::NewToken(t) => format!("NEW_TOKEN token={}", hex(t.token)),
        Frame::Stream(s) => format!(
            "STREAM sid={} off={} last={} fin={} data={}",
            s.stream_id.as_u64(),
            s.offset.as_u64(),
            b01(s.is_last_frame),
            b01(s.is_fin),
            hex(s.data.as_less_safe_slice())
        ),
        Frame::MaxData(m) => format!("MAX_DATA max={}", m.maximum_data.as_u64()),
        Frame::MaxStreamData(m) => format!("MAX_STREAM_DATA sid={} max={}", m.stream_id.as_u64(), m.maximum_stream_data.as_u64()),
        Frame::MaxStreams(m) => format!("MAX_STREAMS bidi={} max={}", bidi(m.stream_type), m.maximum_streams.as_u64()),
        Frame::DataBlocked(m) => format!("DATA_BLOCKED limit={}", m.data_limit.as_u64()),
        Frame::StreamDataBlocked(m) => format!("STREAM_DATA_BLOCKED sid={} limit={}", m.stream_id.as_u64(), m.stream_data_limit.as_u64()),
        Frame::StreamsBlocked(m) => format!("STREAMS_BLOCKED bidi={} limit={}", bidi(m.stream_type), m.stream_limit.as_u64()),
        Frame::NewConnectionId(n) => format!(
            "NEW_CONNECTION_ID seq={} rpt={} cid={} token={}",
            n.sequence_number.as_u64(),
            n.retire_prior_to.as_u64(),
            hex(n.connection_id),
            hex(&n.stateless_reset_token[..])
        ),
        Frame::RetireConnectionId(r) => format!("RETIRE_CONNECTION_ID seq={}", r.sequence_number.as_u64()),
        Frame::PathChallenge(p) => format!("PATH_CHALLENGE data={}", hex(&p.data[..])),
        Frame::PathResponse(p) => format!("PATH_RESPONSE data={}", hex(&p.data[..])),
        Frame::ConnectionClose(c) => format!(
            "CONNECTION_CLOSE code={} ftype={} reason={}",
            c.error_code.as_u64(),
            match c.frame_type {
                Some(t) => t.as_u64().to_string(),
                None => "-".into(),
            },
            match c.reason {
                Some(r) => hex(r),
                None => "none".into(),
            }
        ),
        Frame::HandshakeDone(_) => "HANDSHAKE_DONE".into(),
        Frame::Datagram(d) => format!("DATAGRAM last={} data={}", b01(d.is_last_frame), hex(d.data.as_less_safe_slice())),
        Frame::DcStatelessResetTokens(d) => {
            // the tokens are only reachable through the public iterator
            let mut bytes = Vec::new();
            let mut count = 0usize;
            for t in d {
                bytes.extend_from_slice(t.as_ref());
                count += 1;
            }
            format!("DC_STATELESS_RESET_TOKENS count={} tokens={}", count, hex(&bytes))
        }
        Frame::MtuProbingComplete(m) => format!("MTU_PROBING_COMPLETE mtu={}", m.mtu),
    }
}

impl Component for FrameC {
    fn step(&mut self, t: &[&str]) -> String {
        match t {
            ["dec", h] => {
                let Some(mut b) = unhex(h) else { return "bad-op".into() };
                let total = b.len();
                let buf = DecoderBufferMut::new(&mut b);
                match buf.decode::<FrameMut>() {
                    Ok((frame, rest)) => {
                        let consumed = total - rest.len();
                        let size = frame.encoding_size();
                        // the size the frame type itself announces (what the transmit path asks
                        // before writing a frame; `Stream` overrides `encoding_size_for_encoder`)
                        let inner = inner_size(&frame);
                        if inner != size {
                            return format!("ok MISMATCH {} encoding_size frame={} inner={}", type_name(&frame), size, inner);
                        }
                        // a roomy buffer: a size/announcement mismatch is reported, not a panic
                        let mut out = vec![0xa5u8; size + 64];
                        let mut e = EncoderBuffer::new(&mut out);
                        e.encode(&frame);
                        let written = e.len();
                        let enc = hex(&out[..written]);
                        format!("ok {} consumed={} enc={} size={}", render(frame), consumed, enc, size)
                    }
                    Err(e) => format!("err {}", err_str(e)),
                }
            }
            ["decall", h] => {
                let Some(mut b) = unhex(h) else { return "bad-op".into() };
                let mut payload = DecoderBufferMut::new(&mut b);
                let mut names: Vec<&'static str> = Vec::new();
                while !payload.is_empty() {
                    match payload.decode::<FrameMut>() {
                        Ok((frame, remaining)) => {
                            names.push(type_name(&frame));
                            payload = remaining;
                        }
                        Err(e) => return format!("err {} {}", err_str(e), names.len()),
                    }
                }
                format!("ok {} {}", names.len(), if names.is_empty() { "-".to_string() } else { names.join(",") })
            }
            _ => "bad-op".into(),
        }
    }
}
