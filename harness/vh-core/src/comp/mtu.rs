//! `mtu`: the REAL `s2n_quic_core::path::mtu::{Config, Builder, Controller}`.
//!   new <base|-> <initial|-> <max|-> <v6 0|1>   Builder::with_base_mtu / with_initial_mtu / with_max_mtu (in
//!                                              that order, `-` = not set) + build + Controller::new
//!   enable
//!   tx <pn> <now_us> <cap> <fail 0|1>          on_transmit_probe with a writer whose remaining capacity is
//!                                              <cap>, whose write_frame returns packet number <pn> (or None)
//!   ack <pn> <bytes> <space 0|1|2>             on_packet_ack
//!   loss <pn> <bytes> <burst 0|1> <now_us> <space 0|1|2>   on_packet_loss
//!   timeout <now_us>                           on_timeout
//! every answer: `ok <nc|upd:<mtu>|-> <state> <base> <plpmtu> <probed> <maxprobe> <maxudp> <probe_count>
//!                <black_hole_counter> <largest_acked|-> <timer_us|-> <probe_needed 0|1> <mtu()>`
//! Private fields are read from the derived `Debug` output of the controller (no logic is re-implemented).
use super::loss::{ts, ts_us};
use crate::{util::*, Component};
use s2n_quic_core::{
    endpoint, event,
    event::IntoEvent,
    frame::{ack::AckRanges as AckRangesTrait, ack_elicitation::AckElicitation, FrameTrait},
    inet::{IpV4Address, IpV6Address, SocketAddress, SocketAddressV4, SocketAddressV6},
    packet::number::{PacketNumber, PacketNumberSpace},
    path,
    path::mtu::{Config, Controller, MtuResult},
    recovery::congestion_controller::testing::mock::CongestionController,
    time::{timer::Provider as _, Timestamp},
    transmission,
    varint::VarInt,
};
use s2n_codec::encoder::EncoderValue;

pub const NAMES: &[&str] = &["mtu"];

pub fn make(name: &str) -> Option<Box<dyn Component>> {
    match name {
        "mtu" => Some(Box::new(MtuC { c: None })),
        _ => None,
    }
}

pub struct MtuC {
    c: Option<Controller>,
}

const PN_DOM: u64 = 1 << 40;
const T_DOM: u64 = 1 << 50;

struct W {
    now: Timestamp,
    pn: PacketNumber,
    cap: usize,
    fail: bool,
}

impl transmission::Writer for W {
    fn current_time(&self) -> Timestamp {
        self.now
    }
    fn transmission_constraint(&self) -> transmission::Constraint {
        transmission::Constraint::None
    }
    fn transmission_mode(&self) -> transmission::Mode {
        transmission::Mode::MtuProbing
    }
    fn remaining_capacity(&self) -> usize {
        self.cap
    }
    fn write_ack_frame<A: AckRangesTrait>(&mut self, _f: &s2n_quic_core::frame::Ack<A>) -> Option<PacketNumber> {
        None
    }
    fn write_frame<Frame>(&mut self, _frame: &Frame) -> Option<PacketNumber>
    where
        Frame: EncoderValue + FrameTrait,
        for<'frame> &'frame Frame: IntoEvent<event::builder::Frame>,
    {
        if self.fail {
            None
        } else {
            Some(self.pn)
        }
    }
    fn write_fitted_frame<Frame>(&mut self, frame: &Frame) -> PacketNumber
    where
        Frame: EncoderValue + FrameTrait,
        for<'frame> &'frame Frame: IntoEvent<event::builder::Frame>,
    {
        self.write_frame(frame).expect("fits")
    }
    fn write_frame_forced<Frame>(&mut self, frame: &Frame) -> Option<PacketNumber>
    where
        Frame: EncoderValue + FrameTrait,
        for<'frame> &'frame Frame: IntoEvent<event::builder::Frame>,
    {
        self.write_frame(frame)
    }
    fn ack_elicitation(&self) -> AckElicitation {
        AckElicitation::Eliciting
    }
    fn packet_number(&self) -> PacketNumber {
        self.pn
    }
    fn local_endpoint_type(&self) -> endpoint::Type {
        endpoint::Type::Server
    }
    fn header_len(&self) -> usize {
        0
    }
    fn tag_len(&self) -> usize {
        0
    }
}

fn space(s: &str) -> Option<PacketNumberSpace> {
    match s {
        "0" => Some(PacketNumberSpace::Initial),
        "1" => Some(PacketNumberSpace::Handshake),
        "2" => Some(PacketNumberSpace::ApplicationData),
        _ => None,
    }
}

fn pn(sp: PacketNumberSpace, v: u64) -> PacketNumber {
    sp.new_packet_number(VarInt::new(v).unwrap())
}

/// text of `field: ` up to `, next: ` in the derived Debug output
fn field<'a>(dbg: &'a str, name: &str, next: &str) -> &'a str {
    // leading space: `plpmtu` must not match inside `base_plpmtu`
    let a = dbg.find(&format!(" {name}: ")).expect("field") + name.len() + 3;
    let b = dbg[a..].find(&format!(", {next}: ")).expect("next field") + a;
    &dbg[a..b]
}

/// all maximal digit runs of a string
fn nums(s: &str) -> Vec<u64> {
    let mut v = vec![];
    let mut cur = String::new();
    for ch in s.chars() {
        if ch.is_ascii_digit() {
            cur.push(ch);
        } else if !cur.is_empty() {
            v.push(cur.parse().unwrap());
            cur.clear();
        }
    }
    if !cur.is_empty() {
        v.push(cur.parse().unwrap());
    }
    v
}

fn show(c: &Controller, res: &str) -> String {
    let d = format!("{c:?}");
    let st = field(&d, "state", "base_plpmtu");
    let state = if st.starts_with("Searching") {
        // Searching(PacketNumber(ApplicationData, <pn>), Timestamp(<dur>))
        let open = st.find("Timestamp").expect("ts");
        let p = nums(&st[..open]);
        format!("Searching:{}:{}", p.last().copied().unwrap(), searching_time(c))
    } else {
        st.to_string()
    };
    let one = |name: &str, next: &str| -> u64 { nums(field(&d, name, next))[0] };
    let base = one("base_plpmtu", "plpmtu");
    let plpmtu = one("plpmtu", "max_udp_payload");
    let maxudp = one("max_udp_payload", "probed_size");
    let probed = one("probed_size", "max_probe_size");
    let maxprobe = one("max_probe_size", "probe_count");
    let pc = one("probe_count", "black_hole_counter");
    let bh = one("black_hole_counter", "largest_acked_mtu_sized_packet");
    let la = field(&d, "largest_acked_mtu_sized_packet", "pmtu_raise_timer");
    let la = if la.starts_with("None") { "-".to_string() } else { nums(la).last().unwrap().to_string() };
    let timer = match c.next_expiration() {
        Some(t) => ts_us(t).to_string(),
        None => "-".into(),
    };
    format!(
        "ok {res} {state} {base} {plpmtu} {probed} {maxprobe} {maxudp} {pc} {bh} {la} {timer} {} {}",
        c.probe_needed() as u8,
        c.max_datagram_size()
    )
}

/// transmit time stored in `State::Searching`, read from the Debug text `Timestamp(H:MM:SS[.micros])`
fn searching_time(c: &Controller) -> u64 {
    let d = format!("{c:?}");
    let st = field(&d, "state", "base_plpmtu");
    let a = st.find("Timestamp(").expect("ts") + "Timestamp(".len();
    let body = &st[a..st.len() - 2];
    let (hms, micros) = match body.split_once('.') {
        Some((x, y)) => (x, y.parse::<u64>().unwrap()),
        None => (body, 0),
    };
    let parts: Vec<u64> = hms.split(':').map(|x| x.parse().unwrap()).collect();
    assert_eq!(parts.len(), 3);
    ((parts[0] * 60 + parts[1]) * 60 + parts[2]) * 1_000_000 + micros
}

impl Component for MtuC {
    fn step(&mut self, t: &[&str]) -> String {
        match t {
            ["new", b, i, m, v6] => {
                let opt = |s: &str| -> Result<Option<u16>, ()> {
                    if s == "-" {
                        Ok(None)
                    } else {
                        num::<u16>(s).map(Some).ok_or(())
                    }
                };
                let (Ok(b), Ok(i), Ok(m)) = (opt(b), opt(i), opt(m)) else { return "bad-op".into() };
                let addr = match *v6 {
                    "0" => SocketAddress::IpV4(SocketAddressV4::new(IpV4Address::new([127, 0, 0, 1]), 443)),
                    "1" => SocketAddress::IpV6(SocketAddressV6::new(IpV6Address::new([0u8; 16]), 443)),
                    _ => return "bad-op".into(),
                };
                self.c = None;
                let mut bld = Config::builder();
                if let Some(b) = b {
                    bld = match bld.with_base_mtu(b) {
                        Ok(x) => x,
                        Err(_) => return "err base".into(),
                    };
                }
                if let Some(i) = i {
                    bld = match bld.with_initial_mtu(i) {
                        Ok(x) => x,
                        Err(_) => return "err initial".into(),
                    };
                }
                if let Some(m) = m {
                    bld = match bld.with_max_mtu(m) {
                        Ok(x) => x,
                        Err(_) => return "err max".into(),
                    };
                }
                let cfg = match bld.build() {
                    Ok(c) => c,
                    Err(_) => return "err build".into(),
                };
                let c = Controller::new(cfg, &addr);
                let s = show(&c, "-");
                self.c = Some(c);
                s
            }
            ["enable"] => {
                let Some(c) = self.c.as_mut() else { return "bad-op".into() };
                c.enable();
                show(c, "-")
            }
            ["tx", p, now, cap, fail] => {
                let Some(c) = self.c.as_mut() else { return "bad-op".into() };
                let (Some(p), Some(now), Some(cap)) = (num::<u64>(p), num::<u64>(now), num::<u64>(cap)) else {
                    return "bad-op".into();
                };
                let fail = match *fail {
                    "0" => false,
                    "1" => true,
                    _ => return "bad-op".into(),
                };
                if !(p < PN_DOM && 1 <= now && now < T_DOM && cap < (1 << 32)) {
                    return "bad-op".into();
                }
                let mut w = W { now: ts(now), pn: pn(PacketNumberSpace::ApplicationData, p), cap: cap as usize, fail };
                c.on_transmit_probe(&mut w);
                show(c, "-")
            }
            ["ack", p, bytes, sp] => {
                let Some(c) = self.c.as_mut() else { return "bad-op".into() };
                let (Some(p), Some(bytes), Some(sp)) = (num::<u64>(p), num::<u16>(bytes), space(sp)) else {
                    return "bad-op".into();
                };
                if p >= PN_DOM {
                    return "bad-op".into();
                }
                let mut cc = CongestionController::default();
                let mut publisher = event::testing::Publisher::no_snapshot();
                let r = c.on_packet_ack(pn(sp, p), bytes, &mut cc, path::Id::test_id(), &mut publisher);
                let cc_mtu = cc.on_mtu_update;
                show(c, &res(r, cc_mtu as u64))
            }
            ["loss", p, bytes, burst, now, sp] => {
                let Some(c) = self.c.as_mut() else { return "bad-op".into() };
                let (Some(p), Some(bytes), Some(now), Some(sp)) =
                    (num::<u64>(p), num::<u16>(bytes), num::<u64>(now), space(sp))
                else {
                    return "bad-op".into();
                };
                let burst = match *burst {
                    "0" => false,
                    "1" => true,
                    _ => return "bad-op".into(),
                };
                if !(p < PN_DOM && 1 <= now && now < T_DOM) {
                    return "bad-op".into();
                }
                let mut cc = CongestionController::default();
                let mut publisher = event::testing::Publisher::no_snapshot();
                let r = c.on_packet_loss(pn(sp, p), bytes, burst, ts(now), &mut cc, path::Id::test_id(), &mut publisher);
                let cc_mtu = cc.on_mtu_update;
                show(c, &res(r, cc_mtu as u64))
            }
            ["timeout", now] => {
                let Some(c) = self.c.as_mut() else { return "bad-op".into() };
                let Some(now) = num::<u64>(now) else { return "bad-op".into() };
                if !(1 <= now && now < T_DOM) {
                    return "bad-op".into();
                }
                c.on_timeout(ts(now));
                show(c, "-")
            }
            _ => "bad-op".into(),
        }
    }
}

/// result + number of `on_mtu_update` notifications the congestion controller received
fn res(r: MtuResult, cc: u64) -> String {
    match r {
        MtuResult::NoChange => format!("nc/{cc}"),
        MtuResult::MtuUpdated(m) => format!("upd:{m}/{cc}"),
    }
}
