//! `loss`: the REAL `s2n_quic_core::recovery::loss::detect` and `Timestamp::has_elapsed`.
use crate::{util::*, Component};
use core::time::Duration;
use s2n_quic_core::{
    packet::number::PacketNumberSpace,
    recovery::loss::{detect, Outcome, K_PACKET_THRESHOLD},
    time::{testing, Timestamp},
    varint::VarInt,
};
use std::panic::{catch_unwind, AssertUnwindSafe};

pub const NAMES: &[&str] = &["loss"];

pub fn make(name: &str) -> Option<Box<dyn Component>> {
    match name {
        "loss" => Some(Box::new(LossC)),
        _ => None,
    }
}

/// documented domain bound (timestamps in µs, durations in ns)
pub const DOM: u64 = 1 << 62;

/// timestamp `us` microseconds after the epoch of the testing clock (whose `now()` is 1 µs)
pub fn ts(us: u64) -> Timestamp {
    testing::now() + Duration::from_micros(us - 1)
}

/// microseconds since the epoch
pub fn ts_us(t: Timestamp) -> u64 {
    (t - testing::now()).as_micros() as u64 + 1
}

pub struct LossC;

impl Component for LossC {
    fn step(&mut self, t: &[&str]) -> String {
        match t {
            ["detect", a, b, c, d, e, f] => {
                // `K` = the repo's own `loss::K_PACKET_THRESHOLD`
                let c = if *c == "K" { Some(K_PACKET_THRESHOLD) } else { num::<u64>(c) };
                let (Some(thr), Some(sent), Some(pthr), Some(pn), Some(la), Some(now)) =
                    (num::<u64>(a), num::<u64>(b), c, num::<u64>(d), num::<u64>(e), num::<u64>(f))
                else {
                    return "bad-op".into();
                };
                if !(thr < DOM && 1 <= sent && sent < DOM && pthr < DOM && pn < DOM && la < DOM && 1 <= now && now < DOM) {
                    return "bad-op".into();
                }
                let space = PacketNumberSpace::ApplicationData;
                let pn = space.new_packet_number(VarInt::new(pn).unwrap());
                let la = space.new_packet_number(VarInt::new(la).unwrap());
                let r = catch_unwind(AssertUnwindSafe(|| {
                    detect(Duration::from_nanos(thr), ts(sent), pthr, pn, la, ts(now))
                }));
                match r {
                    Ok(Outcome::Lost) => "ok lost".into(),
                    Ok(Outcome::NotLostYet { lost_time }) => format!("ok notlost {}", ts_us(lost_time)),
                    Err(_) => "err debug-assert".into(),
                }
            }
            ["elapsed", a, b] => {
                let (Some(s), Some(now)) = (num::<u64>(a), num::<u64>(b)) else { return "bad-op".into() };
                if !(1 <= s && s < DOM && 1 <= now && now < DOM) {
                    return "bad-op".into();
                }
                format!("ok {}", ts(s).has_elapsed(ts(now)) as u8)
            }
            _ => "bad-op".into(),
        }
    }
}
