//! `pnmap`: drives the real `s2n_quic_core::packet::number::Map<u64>` through its public API.
//! See the Lean driver `QuicModel/Drivers/PnMap.lean` for the protocol. After every operation the
//! complete observable state is printed: `is_empty()`, `get_range()`, full `iter()` contents.
use crate::{util::*, Component};
use s2n_quic_core::{
    packet::number::{Map, PacketNumber, PacketNumberRange, PacketNumberSpace},
    varint::VarInt,
};
use std::panic::{catch_unwind, AssertUnwindSafe};

pub const NAMES: &[&str] = &["pnmap"];

pub fn make(name: &str) -> Option<Box<dyn Component>> {
    match name {
        "pnmap" => Some(Box::new(MapC::default())),
        _ => None,
    }
}

/// inserts further than this from the current start would only exercise the allocator
const MAX_SPAN: u64 = 65536;

#[derive(Default)]
pub struct MapC {
    m: Map<u64>,
}

fn pn(s: &str) -> Option<PacketNumber> {
    let v = num::<u64>(s)?;
    let v = VarInt::new(v).ok()?;
    Some(PacketNumberSpace::ApplicationData.new_packet_number(v))
}

fn opt(v: Option<u64>) -> String {
    match v {
        Some(v) => v.to_string(),
        None => "none".into(),
    }
}

fn entries(l: &[(u64, u64)]) -> String {
    if l.is_empty() {
        "-".into()
    } else {
        l.iter().map(|(k, v)| format!("{k}:{v}")).collect::<Vec<_>>().join(",")
    }
}

impl MapC {
    fn dump(&self) -> String {
        let r = self.m.get_range();
        let it: Vec<(u64, u64)> = self.m.iter().map(|(k, v)| (k.as_u64(), *v)).collect();
        format!(
            "e={} r={}-{} it={}",
            if self.m.is_empty() { 1 } else { 0 },
            r.start().as_u64(),
            r.end().as_u64(),
            entries(&it)
        )
    }

    fn too_far(&self, p: PacketNumber) -> bool {
        !self.m.is_empty() && p.as_u64() > self.m.get_range().start().as_u64() + MAX_SPAN
    }

    fn op(&mut self, t: &[&str]) -> Option<String> {
        Some(match t {
            ["insert", p, v] => {
                let (p, v) = (pn(p)?, num::<u64>(v)?);
                if self.too_far(p) {
                    return None;
                }
                self.m.insert(p, v);
                "-".into()
            }
            ["upd", p, v] => {
                let (p, v) = (pn(p)?, num::<u64>(v)?);
                if self.too_far(p) {
                    return None;
                }
                self.m.insert_or_update(p, v, |prev| *prev = prev.wrapping_mul(31).wrapping_add(v));
                "-".into()
            }
            ["get", p] => opt(self.m.get(pn(p)?).copied()),
            ["probe", lo, n] => {
                let (lo, n) = (num::<u64>(lo)?, num::<u64>(n)?);
                if VarInt::new(lo).is_err() || n == 0 || n > 4096 {
                    return None;
                }
                let mut xs = vec![];
                for i in 0..n {
                    let Ok(v) = VarInt::new(lo + i) else { continue };
                    let p = PacketNumberSpace::ApplicationData.new_packet_number(v);
                    xs.push(opt(self.m.get(p).copied()));
                }
                xs.join(",")
            }
            ["remove", p] => opt(self.m.remove(pn(p)?)),
            ["rmrange", a, b] => {
                let (a, b) = (pn(a)?, pn(b)?);
                if a > b {
                    return None;
                }
                let l: Vec<(u64, u64)> = self
                    .m
                    .remove_range(PacketNumberRange::new(a, b))
                    .map(|(k, v)| (k.as_u64(), v))
                    .collect();
                entries(&l)
            }
            ["mut", k] => {
                let k = num::<u64>(k)?;
                let mut l = vec![];
                for (p, v) in self.m.iter_mut() {
                    *v = v.wrapping_add(k);
                    l.push((p.as_u64(), *v));
                }
                entries(&l)
            }
            ["clear"] => {
                self.m.clear();
                "-".into()
            }
            _ => return None,
        })
    }
}

impl Component for MapC {
    fn step(&mut self, t: &[&str]) -> String {
        // a panic (the crate's debug assertions) is reported as a bare `panic` and restarts the
        // component, exactly like the model driver does
        match catch_unwind(AssertUnwindSafe(|| self.op(t).map(|o| format!("ok {o} | {}", self.dump())))) {
            Ok(Some(s)) => s,
            Ok(None) => "bad-op".into(),
            Err(_) => {
                self.m = Map::default();
                "panic".into()
            }
        }
    }
}
