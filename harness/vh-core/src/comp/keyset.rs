//! C15: the REAL `s2n_quic_core::crypto::application::KeySet<K>` driven as two endpoints A and B
//! over a scripted channel. `K = GenKey` is an instrumented 1-RTT key implementing the ideal-AEAD
//! assumption: a key is just its derivation generation, the "ciphertext" carries an 11-byte tag
//! (sealing generation, nonce, first header byte) and `decrypt` succeeds iff all three match.
//! Nothing of KeySet / limited::Key is re-implemented here; the harness only builds wire packets,
//! calls `encrypt_packet` / `decrypt_packet` / `on_timeout`, and prints what is observable through
//! the public API (+ which key generations are alive, observed through `Drop` of the test key).
//!
//! ops (X, Y in {A,B}; times in microseconds >= 1):
//!   config <conf_limit> <integrity_limit> <window|default>   -> ok STATE   (must be the first op; `default` = Limits::default())
//!   enc X                                            -> ok <id> <pn> <phase> <gen> STATE | err limit STATE
//!        (every `enc` consumes one packet id, also a refused one, so that ids are history-independent)
//!   deliver X <id> <largest_acked> <deadline>        -> ok same|rot <generation> STATE | err decrypt|aead-limit STATE
//!   forge X <phase> <pn> <largest_acked> <deadline>  -> same results (a packet nobody sealed)
//!   timeout X <now>                                  -> ok STATE
//! STATE = `A <phase> <active gen> <other gen> <active encrypted> <needs_update> <enc phase> <timer|-> B ...`
use crate::Component;
use s2n_codec::{DecoderBufferMut, EncoderBuffer};
use s2n_quic_core::{
    connection::{self, id::ConnectionInfo, ProcessingError},
    crypto::{
        application::{limited, KeySet},
        packet_protection, scatter,
        testing::HeaderKey,
        Key, OneRttKey, ProtectedPayload,
    },
    inet::SocketAddress,
    packet::{encoding::PacketEncodingError, number::PacketNumberSpace, KeyPhase, ProtectedPacket},
    time::{clock::testing as clock, timer::Provider as _, Duration, Timestamp},
    transport,
    varint::VarInt,
};
use std::sync::{Arc, Mutex};

pub const NAMES: &[&str] = &["keyset"];

pub fn make(name: &str) -> Option<Box<dyn Component>> {
    match name {
        "keyset" => Some(Box::new(KeySetC::default())),
        _ => None,
    }
}

const TAG_LEN: usize = 11;
const DCID_LEN: usize = 4;
const FORGED_GEN: u64 = 0xffff;

/// generations of the key objects currently alive (owned by one KeySet)
type Alive = Arc<Mutex<Vec<u64>>>;

#[derive(Debug)]
struct GenKey {
    gen: u64,
    conf: u64,
    integ: u64,
    alive: Alive,
}

impl GenKey {
    fn new(gen: u64, conf: u64, integ: u64, alive: Alive) -> Self {
        alive.lock().unwrap().push(gen);
        Self { gen, conf, integ, alive }
    }
}

impl Drop for GenKey {
    fn drop(&mut self) {
        let mut a = self.alive.lock().unwrap();
        if let Some(i) = a.iter().position(|g| *g == self.gen) {
            a.remove(i);
        }
    }
}

fn tag_bytes(gen: u64, pn: u64, header0: u8) -> [u8; TAG_LEN] {
    let mut t = [0u8; TAG_LEN];
    t[..2].copy_from_slice(&(gen as u16).to_be_bytes());
    t[2..10].copy_from_slice(&pn.to_be_bytes());
    t[10] = header0;
    t
}

impl Key for GenKey {
    fn decrypt(&self, packet_number: u64, header: &[u8], payload: &mut [u8]) -> Result<(), packet_protection::Error> {
        if payload.len() < TAG_LEN || header.is_empty() {
            return Err(packet_protection::Error::DECRYPT_ERROR);
        }
        let tag = &payload[payload.len() - TAG_LEN..];
        // ideal AEAD: opens iff (key, nonce, aad) are the ones it was sealed with
        if tag == tag_bytes(self.gen, packet_number, header[0]) && self.gen != FORGED_GEN {
            Ok(())
        } else {
            Err(packet_protection::Error::DECRYPT_ERROR)
        }
    }

    fn encrypt(&mut self, packet_number: u64, header: &[u8], payload: &mut scatter::Buffer) -> Result<(), packet_protection::Error> {
        let payload = payload.flatten();
        let (_, p) = payload.split_mut();
        let n = p.len();
        if n < TAG_LEN || header.is_empty() {
            return Err(packet_protection::Error::INTERNAL_ERROR);
        }
        p[n - TAG_LEN..].copy_from_slice(&tag_bytes(self.gen, packet_number, header[0]));
        Ok(())
    }

    fn tag_len(&self) -> usize {
        TAG_LEN
    }

    fn aead_confidentiality_limit(&self) -> u64 {
        self.conf
    }

    fn aead_integrity_limit(&self) -> u64 {
        self.integ
    }

    fn cipher_suite(&self) -> s2n_quic_core::crypto::tls::CipherSuite {
        s2n_quic_core::crypto::tls::CipherSuite::Unknown
    }
}

impl OneRttKey for GenKey {
    fn derive_next_key(&self) -> Self {
        GenKey::new(self.gen + 1, self.conf, self.integ, self.alive.clone())
    }
}

struct Packet {
    from: usize,
    pn: u64,
    phase: u8,
    gen: u64,
}

struct Endpoint {
    ks: KeySet<GenKey>,
    limits: limited::Limits,
    alive: Alive,
    next_pn: u64,
}

#[derive(Default)]
pub struct KeySetC {
    eps: Vec<Endpoint>,
    packets: Vec<Option<Packet>>,
}

fn who(s: &str) -> Option<usize> {
    match s {
        "A" => Some(0),
        "B" => Some(1),
        _ => None,
    }
}

fn ts(t: u64) -> Timestamp {
    // the testing clock's epoch is 1us
    clock::now() + Duration::from_micros(t - 1)
}

fn micros(t: Timestamp) -> u64 {
    t.saturating_duration_since(clock::now()).as_micros() as u64 + 1
}

fn phase_u8(p: KeyPhase) -> u8 {
    match p {
        KeyPhase::Zero => 0,
        KeyPhase::One => 1,
    }
}

impl Endpoint {
    fn state(&mut self) -> String {
        let phase = phase_u8(self.ks.key_phase());
        let active_gen = self.ks.active_key_mut().key_mut().gen;
        let mut alive = self.alive.lock().unwrap().clone();
        // the other slot's key = the alive key that is not the active one
        if let Some(i) = alive.iter().position(|g| *g == active_gen) {
            alive.remove(i);
        }
        let other = if alive.len() == 1 { alive[0].to_string() } else { format!("?{}", alive.len()) };
        let enc = self.ks.active_key().encrypted_packets();
        let nu = self.ks.active_key().needs_update(&self.limits) as u8;
        let ep = phase_u8(self.ks.encryption_phase());
        let armed = self.ks.key_update_in_progress();
        let timer = match self.ks.next_expiration() {
            Some(t) => micros(t).to_string(),
            None => "-".to_string(),
        };
        debug_assert_eq!(armed, timer != "-");
        format!("{phase} {active_gen} {other} {enc} {nu} {ep} {timer}")
    }
}

impl KeySetC {
    fn state(&mut self) -> String {
        let a = self.eps[0].state();
        let b = self.eps[1].state();
        format!("A {a} B {b}")
    }

    fn receive(&mut self, x: usize, phase: u8, pn: u64, gen: u64, la: u64, deadline: u64) -> String {
        if pn >= 1 << 31 || la >= 1 << 31 || deadline < 1 {
            return "bad-op".into();
        }
        // 1-RTT short header: fixed bit | key phase | 4-byte packet number; testing header key = no-op mask
        let header0 = 0x40u8 | (phase << 2) | 0x03;
        let mut wire = vec![header0];
        wire.extend_from_slice(&[0xc1; DCID_LEN]);
        wire.extend_from_slice(&(pn as u32).to_be_bytes());
        wire.extend_from_slice(&[0u8; 4]);
        wire.extend_from_slice(&tag_bytes(gen, pn, header0));
        let remote = SocketAddress::default();
        let info = ConnectionInfo::new(&remote);
        let Ok((packet, _)) = ProtectedPacket::decode(DecoderBufferMut::new(&mut wire), &info, &DCID_LEN) else {
            return "bad-op".into();
        };
        let ProtectedPacket::Short(packet) = packet else { return "bad-op".into() };
        let la_pn = PacketNumberSpace::ApplicationData.new_packet_number(VarInt::new(la).unwrap());
        let Ok(packet) = packet.unprotect(&HeaderKey::default(), la_pn) else { return "bad-op".into() };
        if packet.packet_number.as_u64() != pn || phase_u8(packet.key_phase()) != phase {
            return "bad-op".into();
        }
        let r = self.eps[x].ks.decrypt_packet(packet, la_pn, ts(deadline));
        let res = match r {
            Ok((clear, Some(generation))) => {
                debug_assert_eq!(clear.packet_number.as_u64(), pn);
                format!("ok rot {generation}")
            }
            Ok((_, None)) => "ok same".to_string(),
            Err(ProcessingError::DecryptError) => "err decrypt".to_string(),
            Err(ProcessingError::ConnectionError(connection::Error::Transport { code, .. })) => {
                if code == transport::Error::AEAD_LIMIT_REACHED.code {
                    "err aead-limit".to_string()
                } else {
                    format!("err transport-{}", code.as_u64())
                }
            }
            Err(_) => "err other".to_string(),
        };
        format!("{res} {}", self.state())
    }
}

impl Component for KeySetC {
    fn step(&mut self, t: &[&str]) -> String {
        if let ["config", c, i, w] = t {
            // window `default` = the production `limited::Limits::default()` (KEY_UPDATE_WINDOW)
            let w = if *w == "default" { Ok(limited::Limits::default().key_update_window) } else { w.parse::<u64>() };
            let (Ok(c), Ok(i), Ok(w)) = (c.parse::<u64>(), i.parse::<u64>(), w) else {
                return "bad-op".into();
            };
            if !self.eps.is_empty() {
                return "bad-op".into();
            }
            clock::reset();
            for _ in 0..2 {
                let alive: Alive = Default::default();
                let mut limits = limited::Limits::default();
                limits.key_update_window = w;
                let key = GenKey::new(0, c, i, alive.clone());
                let ks = KeySet::new(key, limits);
                self.eps.push(Endpoint { ks, limits, alive, next_pn: 0 });
            }
            return format!("ok {}", self.state());
        }
        if self.eps.is_empty() {
            return "bad-op".into();
        }
        match t {
            ["enc", x] => {
                let Some(x) = who(x) else { return "bad-op".into() };
                let mut out = [0u8; 64];
                let mut scratch = [0u8; 16];
                let mut used = None;
                let r = self.eps[x].ks.encrypt_packet(EncoderBuffer::new(&mut out), |buffer, key, phase| {
                    used = Some((phase_u8(phase), key.gen));
                    Ok((ProtectedPayload::new(0, &mut scratch), buffer))
                });
                let res = match r {
                    Ok(_) => {
                        let (phase, gen) = used.expect("closure ran");
                        let pn = self.eps[x].next_pn;
                        self.eps[x].next_pn += 1;
                        self.packets.push(Some(Packet { from: x, pn, phase, gen }));
                        format!("ok {} {pn} {phase} {gen}", self.packets.len() - 1)
                    }
                    Err(PacketEncodingError::AeadLimitReached(_)) => {
                        self.packets.push(None);
                        "err limit".to_string()
                    }
                    Err(_) => {
                        self.packets.push(None);
                        "err other".to_string()
                    }
                };
                format!("{res} {}", self.state())
            }
            ["deliver", x, id, la, deadline] => {
                let Some(x) = who(x) else { return "bad-op".into() };
                let (Ok(id), Ok(la), Ok(deadline)) = (id.parse::<usize>(), la.parse::<u64>(), deadline.parse::<u64>()) else {
                    return "bad-op".into();
                };
                let Some(Some(p)) = self.packets.get(id) else { return "bad-op".into() };
                if p.from == x {
                    return "bad-op".into();
                }
                let (phase, pn, gen) = (p.phase, p.pn, p.gen);
                self.receive(x, phase, pn, gen, la, deadline)
            }
            ["forge", x, phase, pn, la, deadline] => {
                let Some(x) = who(x) else { return "bad-op".into() };
                let (Ok(phase), Ok(pn), Ok(la), Ok(deadline)) =
                    (phase.parse::<u8>(), pn.parse::<u64>(), la.parse::<u64>(), deadline.parse::<u64>())
                else {
                    return "bad-op".into();
                };
                if phase > 1 {
                    return "bad-op".into();
                }
                self.receive(x, phase, pn, FORGED_GEN, la, deadline)
            }
            ["timeout", x, now] => {
                let Some(x) = who(x) else { return "bad-op".into() };
                let Ok(now) = now.parse::<u64>() else { return "bad-op".into() };
                if now < 1 {
                    return "bad-op".into();
                }
                self.eps[x].ks.on_timeout(ts(now));
                format!("ok {}", self.state())
            }
            _ => "bad-op".into(),
        }
    }
}
