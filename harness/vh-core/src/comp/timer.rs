//! `timer`: a bank of REAL `s2n_quic_core::time::timer::Timer`s behind the real `Provider` / `Query`
//! machinery (`next_expiration`, `armed_timer_count`, `is_armed`, tuple / `Option` / `&` impls).
//! `pacer`: the REAL (crate-private) `recovery::pacing::Pacer`, driven through the `CubicCongestionController`
//! that owns one (`on_packet_sent` -> `Pacer::on_packet_sent`, `earliest_departure_time`), with a real `RttEstimator`.
//! Protocol: see `QuicModel/Drivers/Timer.lean`.
use super::loss::{ts, ts_us, DOM};
use crate::{util::*, Component};
use core::time::Duration;
use s2n_quic_core::{
    event, inet, path,
    recovery::{
        congestion_controller::{Endpoint as _, PathInfo, PathPublisher},
        cubic,
        CongestionController, CubicCongestionController, RttEstimator,
    },
    time::timer::{self, Provider, Timer},
};
use std::panic::{catch_unwind, AssertUnwindSafe};

pub const NAMES: &[&str] = &["timer", "pacer"];

pub fn make(name: &str) -> Option<Box<dyn Component>> {
    match name {
        "timer" => Some(Box::new(Bank { v: vec![Timer::default()] })),
        "pacer" => Some(Box::new(PacerC::default())),
        _ => None,
    }
}

/// a component owning several timers: visits them in order, like every `timers()` impl in the repo
pub struct Bank {
    v: Vec<Timer>,
}

impl Provider for Bank {
    fn timers<Q: timer::Query>(&self, query: &mut Q) -> timer::Result {
        for t in &self.v {
            t.timers(query)?;
        }
        Ok(())
    }
}

fn opt(t: Option<s2n_quic_core::time::Timestamp>) -> String {
    t.map(|t| ts_us(t).to_string()).unwrap_or_else(|| "none".into())
}

fn t_us(s: &str) -> Option<u64> {
    let v = num::<u64>(s)?;
    (1..DOM).contains(&v).then_some(v)
}

impl Bank {
    fn idx(&self, s: &str) -> Option<usize> {
        let i = num::<usize>(s)?;
        (i < self.v.len()).then_some(i)
    }

    fn poll_all(&mut self, now: u64) -> String {
        let mut ready = vec![];
        for (i, t) in self.v.iter_mut().enumerate() {
            if t.poll_expiration(ts(now)).is_ready() {
                ready.push(i as u64);
            }
        }
        format!("{} {}", list(&ready), opt(self.next_expiration()))
    }
}

impl Component for Bank {
    fn step(&mut self, t: &[&str]) -> String {
        match t {
            ["new", n] => match num::<usize>(n) {
                Some(n) if (1..=8).contains(&n) => {
                    self.v = (0..n).map(|_| Timer::default()).collect();
                    "ok".into()
                }
                _ => "bad-op".into(),
            },
            ["set", i, v] => {
                let (Some(i), Some(v)) = (self.idx(i), t_us(v)) else { return "bad-op".into() };
                self.v[i].set(ts(v));
                "ok".into()
            }
            ["cancel", i] => {
                let Some(i) = self.idx(i) else { return "bad-op".into() };
                self.v[i].cancel();
                "ok".into()
            }
            ["exp", i, v] => {
                let (Some(i), Some(v)) = (self.idx(i), t_us(v)) else { return "bad-op".into() };
                format!("ok {} {}", self.v[i].is_expired(ts(v)) as u8, self.v[i].is_armed() as u8)
            }
            ["poll", i, v] => {
                let (Some(i), Some(v)) = (self.idx(i), t_us(v)) else { return "bad-op".into() };
                let r = self.v[i].poll_expiration(ts(v)).is_ready();
                format!("ok {} {}", if r { "ready" } else { "pending" }, self.v[i].is_armed() as u8)
            }
            ["next"] => format!(
                "ok {} {} {}",
                opt(self.next_expiration()),
                self.armed_timer_count(),
                Provider::is_armed(self) as u8
            ),
            ["next4"] => {
                if self.v.len() < 4 {
                    return "bad-op".into();
                }
                // the library's own joins: (A, B), Option<T>, &T
                let p = ((&self.v[0], Some(&self.v[1])), (Some((&self.v[2], &self.v[3])), None::<&Timer>));
                format!("ok {} {} {}", opt(p.next_expiration()), p.armed_timer_count(), Provider::is_armed(&p) as u8)
            }
            ["pollall", v] => {
                let Some(v) = t_us(v) else { return "bad-op".into() };
                format!("ok {}", self.poll_all(v))
            }
            ["wake"] => match self.next_expiration() {
                None => "ok none".into(),
                Some(t) => {
                    let now = ts_us(t);
                    format!("ok {} {}", now, self.poll_all(now))
                }
            },
            _ => "bad-op".into(),
        }
    }
}

pub struct PacerC {
    c: CubicCongestionController,
}

fn cubic(mds: u16, cwnd: u32) -> CubicCongestionController {
    // the only public way to an initial window: the cubic Endpoint builder
    let mut ep = cubic::builder::Builder::default().with_initial_congestion_window(cwnd).build();
    let addr = inet::SocketAddress::default();
    let mut info = PathInfo::new(&path::mtu::Config::default(), &addr);
    info.max_datagram_size = mds;
    ep.new_congestion_controller(info)
}

impl Default for PacerC {
    fn default() -> Self {
        Self { c: cubic(1200, 12000) }
    }
}

impl Component for PacerC {
    fn step(&mut self, t: &[&str]) -> String {
        match t {
            ["pnew", mds, cwnd] => {
                let (Some(mds), Some(cwnd)) = (num::<u16>(mds), num::<u32>(cwnd)) else { return "bad-op".into() };
                if mds < 1 || cwnd > (1 << 24) {
                    return "bad-op".into();
                }
                self.c = cubic(mds, cwnd);
                format!("ok {}", self.c.congestion_window())
            }
            ["send", now, bytes, srtt] => {
                let (Some(now), Some(bytes), Some(srtt)) = (t_us(now), num::<u32>(bytes), num::<u64>(srtt)) else {
                    return "bad-op".into();
                };
                if srtt < 1000 || bytes >= (1 << 24) {
                    return "bad-op".into();
                }
                let mut c = self.c.clone();
                let r = catch_unwind(AssertUnwindSafe(move || {
                    let rtt = RttEstimator::new(Duration::from_nanos(srtt));
                    let mut publisher = event::testing::Publisher::no_snapshot();
                    let mut publisher = PathPublisher::new(&mut publisher, path::Id::test_id());
                    c.on_packet_sent(ts(now), bytes as usize, None, &rtt, &mut publisher);
                    c
                }));
                match r {
                    Ok(c) => {
                        self.c = c;
                        format!("ok {}", opt(self.c.earliest_departure_time()))
                    }
                    Err(_) => {
                        *self = Self::default();
                        "panic".into()
                    }
                }
            }
            ["ecn", now, c] => {
                let (Some(now), Some(_)) = (t_us(now), num::<u32>(c)) else { return "bad-op".into() };
                let mut publisher = event::testing::Publisher::no_snapshot();
                let mut publisher = PathPublisher::new(&mut publisher, path::Id::test_id());
                self.c.on_explicit_congestion(1, ts(now), &mut publisher);
                format!("ok {}", self.c.congestion_window())
            }
            ["edt"] => format!("ok {}", opt(self.c.earliest_departure_time())),
            _ => "bad-op".into(),
        }
    }
}
