//! `sliding_window`: drives the real `s2n_quic_core::packet::number::SlidingWindow` through its
//! public API (`insert`, `insert_with_evicted`, `check`). See the Lean driver
//! `QuicModel/Drivers/SlidingWindow.lean` for the protocol.
use crate::{util::*, Component};
use s2n_quic_core::{
    packet::number::{PacketNumber, PacketNumberSpace, SlidingWindow, SlidingWindowError},
    varint::VarInt,
};
use std::panic::{catch_unwind, AssertUnwindSafe};

pub const NAMES: &[&str] = &["sliding_window"];

pub fn make(name: &str) -> Option<Box<dyn Component>> {
    match name {
        "sliding_window" => Some(Box::new(WindowC::default())),
        _ => None,
    }
}

#[derive(Default)]
pub struct WindowC {
    w: SlidingWindow,
}

fn pn(s: &str) -> Option<PacketNumber> {
    let v = num::<u64>(s)?;
    let v = VarInt::new(v).ok()?;
    Some(PacketNumberSpace::ApplicationData.new_packet_number(v))
}

fn res(r: Result<(), SlidingWindowError>) -> String {
    match r {
        Ok(()) => "ok".into(),
        Err(SlidingWindowError::Duplicate) => "err duplicate".into(),
        Err(SlidingWindowError::TooOld) => "err too-old".into(),
    }
}

impl WindowC {
    fn op(&mut self, t: &[&str]) -> String {
        match t {
            ["insert", v] => {
                let Some(p) = pn(v) else { return "bad-op".into() };
                match self.w.insert_with_evicted(p) {
                    Ok(ev) => {
                        let l: Vec<u64> = ev.map(|e| e.as_u64()).collect();
                        format!("ok {}", list(&l))
                    }
                    Err(e) => res(Err(e)),
                }
            }
            ["ins", v] => {
                let Some(p) = pn(v) else { return "bad-op".into() };
                res(self.w.insert(p))
            }
            ["check", v] => {
                let Some(p) = pn(v) else { return "bad-op".into() };
                res(self.w.check(p))
            }
            ["probe", lo, n] => {
                let (Some(lo), Some(n)) = (num::<u64>(lo), num::<u64>(n)) else { return "bad-op".into() };
                if VarInt::new(lo).is_err() || n > 4096 {
                    return "bad-op".into();
                }
                let mut s = String::new();
                for i in 0..n {
                    let Ok(v) = VarInt::new(lo + i) else { continue };
                    let p = PacketNumberSpace::ApplicationData.new_packet_number(v);
                    s.push(match self.w.check(p) {
                        Ok(()) => 'O',
                        Err(SlidingWindowError::Duplicate) => 'D',
                        Err(SlidingWindowError::TooOld) => 'T',
                    });
                }
                if s.is_empty() {
                    s.push('-');
                }
                format!("ok {s}")
            }
            _ => "bad-op".into(),
        }
    }
}

impl Component for WindowC {
    fn step(&mut self, t: &[&str]) -> String {
        // a panic (e.g. the crate's own `check_insert_result` debug assertions) is reported as a
        // bare `panic` and restarts the component, exactly like the model driver does
        match catch_unwind(AssertUnwindSafe(|| self.op(t))) {
            Ok(s) => s,
            Err(_) => {
                self.w = SlidingWindow::default();
                "panic".into()
            }
        }
    }
}
