use crate::{util::*, Component};
use s2n_codec::{DecoderBuffer, Encoder, EncoderBuffer, EncoderValue};
use s2n_quic_core::varint::VarInt;

pub const NAMES: &[&str] = &["varint"];

pub fn make(name: &str) -> Option<Box<dyn Component>> {
    match name {
        "varint" => Some(Box::new(VarIntC)),
        _ => None,
    }
}

pub struct VarIntC;

impl Component for VarIntC {
    fn step(&mut self, t: &[&str]) -> String {
        match t {
            ["enc", v] => {
                let Some(x) = num::<u128>(v) else { return "bad-op".into() };
                let Ok(x) = u64::try_from(x) else { return "err range".into() };
                let Ok(v) = VarInt::new(x) else { return "err range".into() };
                let size = v.encoding_size();
                // exact-size buffer (the undersized path) and a roomy one (the 8-byte
                // oversized write path) must produce the same bytes
                let mut exact = vec![0u8; size];
                let mut e = EncoderBuffer::new(&mut exact);
                e.encode(&v);
                let written_exact = e.len();
                let mut roomy = vec![0xa5u8; size + 16];
                let mut e = EncoderBuffer::new(&mut roomy);
                e.encode(&v);
                let written_roomy = e.len();
                if written_exact != written_roomy || exact[..] != roomy[..written_roomy] {
                    return format!("ok MISMATCH {} {}", hex(&exact), hex(&roomy[..written_roomy]));
                }
                format!("ok {} {}", hex(&exact[..written_exact]), size)
            }
            ["dec", h] => {
                let Some(b) = unhex(h) else { return "bad-op".into() };
                let buf = DecoderBuffer::new(&b);
                match buf.decode::<VarInt>() {
                    Ok((v, rest)) => format!("ok {} {}", v.as_u64(), b.len() - rest.len()),
                    Err(_) => "err eof".into(),
                }
            }
            _ => "bad-op".into(),
        }
    }
}
