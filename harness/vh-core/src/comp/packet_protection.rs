//! C06 crypto differential: genuine protected packets are built with the REAL sealing path
//! (`PacketEncoder::encode_packet` = `crypto::encrypt` + `crypto::protect`) under REAL keys
//! (`s2n-quic-crypto`: every negotiated 1-RTT cipher suite, and Initial keys), then tampered copies
//! are run through the REAL opening path (`ProtectedPacket::decode` → `unprotect` → `decrypt`).
//! Nothing about AEAD, header protection or packet layout is re-implemented here; the region list
//! printed by `case` is read off what the real decoder reports (offsets of the checked ranges,
//! cleartext payload length, `tag_len()`, `truncate().len()`).
use crate::{util::*, Component};
use s2n_codec::{DecoderBufferMut, EncoderBuffer};
use s2n_quic_core::{
    connection::{id::ConnectionInfo, ProcessingError},
    crypto::{InitialKey as _, Key as _},
    inet::SocketAddress,
    packet::{
        encoding::PacketEncoder,
        initial::Initial,
        number::{PacketNumber, PacketNumberSpace},
        short::{Short, SpinBit},
        KeyPhase, ProtectedPacket,
    },
    varint::VarInt,
};
use s2n_quic_crypto::{
    aws_lc_aead as aead, hkdf,
    initial::{InitialHeaderKey, InitialKey},
    one_rtt::{OneRttHeaderKey, OneRttKey},
    SecretPair,
};
use std::collections::BTreeMap;

pub const NAMES: &[&str] = &["packet_protection", "packet_protection_stages"];

pub fn make(name: &str) -> Option<Box<dyn Component>> {
    match name {
        "packet_protection" => Some(Box::new(Pp::new(false))),
        "packet_protection_stages" => Some(Box::new(Pp::new(true))),
        _ => None,
    }
}

/// output buffer handed to the encoder (the Length placeholder of long headers depends on it)
const CAPACITY: usize = 1500;
const QUIC_V1: u32 = 1;

struct Keys {
    client: (OneRttKey, OneRttHeaderKey),
    server: (OneRttKey, OneRttHeaderKey),
}

#[derive(Clone)]
enum Kind {
    Short { dcid_len: usize, spin: bool },
    Initial { dcid: Vec<u8>, scid0: Option<u8> },
}

#[derive(Clone)]
struct Case {
    kind: Kind,
    la: u64,
    packet: Vec<u8>,
    payload: Vec<u8>,
}

pub struct Pp {
    stages: bool,
    keys: BTreeMap<String, Keys>,
    cases: BTreeMap<(String, String), Case>,
}

fn pn_of(space: PacketNumberSpace, v: u64) -> Option<PacketNumber> {
    Some(space.new_packet_number(VarInt::new(v).ok()?))
}

fn algorithm(suite: &str) -> Option<(&'static aead::Algorithm, hkdf::Algorithm)> {
    match suite {
        "aes128" => Some((&aead::AES_128_GCM, hkdf::HKDF_SHA256)),
        "aes256" => Some((&aead::AES_256_GCM, hkdf::HKDF_SHA384)),
        "chacha20" => Some((&aead::CHACHA20_POLY1305, hkdf::HKDF_SHA256)),
        _ => None,
    }
}

fn one_rtt_keys(suite: &str, client: &[u8], server: &[u8]) -> Option<Keys> {
    let (alg, digest) = algorithm(suite)?;
    let pair = || SecretPair {
        client: hkdf::Prk::new_less_safe(digest, client),
        server: hkdf::Prk::new_less_safe(digest, server),
    };
    Some(Keys {
        client: OneRttKey::new_client(alg, pair())?,
        server: OneRttKey::new_server(alg, pair())?,
    })
}

/// (start, len) of a `CheckedRange` (its `Debug` rendering is `start..end`)
fn range_of(r: &s2n_codec::CheckedRange) -> Option<(usize, usize)> {
    let s = format!("{r:?}");
    let (a, b) = s.split_once("..")?;
    let (a, b) = (a.parse::<usize>().ok()?, b.parse::<usize>().ok()?);
    Some((a, b.checked_sub(a)?))
}

fn stage_of(e: ProcessingError) -> &'static str {
    match e {
        ProcessingError::DecryptError => "decrypt",
        ProcessingError::ConnectionError(_) => "reserved-bits",
        ProcessingError::Other => "other",
    }
}

/// the real receive path for a short-header packet: decode, remove header protection, open
fn open_short(
    bytes: &mut [u8],
    dcid_len: usize,
    keys: &(OneRttKey, OneRttHeaderKey),
    la: PacketNumber,
) -> Result<(Vec<u8>, u64), &'static str> {
    let addr = SocketAddress::default();
    let info = ConnectionInfo::new(&addr);
    let (packet, _rest) = ProtectedPacket::decode(DecoderBufferMut::new(bytes), &info, &dcid_len).map_err(|_| "decode")?;
    let ProtectedPacket::Short(packet) = packet else { return Err("type") };
    let packet = packet.unprotect(&keys.1, la).map_err(|_| "unprotect")?;
    let packet = packet.decrypt(&keys.0).map_err(stage_of)?;
    Ok((packet.payload.as_less_safe_slice().to_vec(), packet.packet_number.as_u64()))
}

/// the real receive path for an Initial packet
fn open_initial(
    bytes: &mut [u8],
    keys: &(InitialKey, InitialHeaderKey),
    la: PacketNumber,
) -> Result<(Vec<u8>, u64), &'static str> {
    let addr = SocketAddress::default();
    let info = ConnectionInfo::new(&addr);
    let (packet, _rest) = ProtectedPacket::decode(DecoderBufferMut::new(bytes), &info, &20usize).map_err(|_| "decode")?;
    let ProtectedPacket::Initial(packet) = packet else { return Err("type") };
    let packet = packet.unprotect(&keys.1, la).map_err(|_| "unprotect")?;
    let packet = packet.decrypt(&keys.0).map_err(|_| "decrypt")?;
    Ok((packet.payload.as_less_safe_slice().to_vec(), packet.packet_number.as_u64()))
}

impl Pp {
    fn new(stages: bool) -> Self {
        Pp { stages, keys: BTreeMap::new(), cases: BTreeMap::new() }
    }

    fn open_case_bytes(&self, suite: &str, case: &Case, bytes: &mut [u8], la: u64) -> Result<(Vec<u8>, u64), &'static str> {
        match &case.kind {
            Kind::Short { dcid_len, .. } => {
                let keys = self.keys.get(suite).ok_or("no-key")?;
                let la = pn_of(PacketNumberSpace::ApplicationData, la).ok_or("bad-la")?;
                open_short(bytes, *dcid_len, &keys.server, la)
            }
            Kind::Initial { dcid, .. } => {
                let keys = InitialKey::new_server(dcid);
                let la = pn_of(PacketNumberSpace::Initial, la).ok_or("bad-la")?;
                open_initial(bytes, &keys, la)
            }
        }
    }

    /// verdict line for a (possibly tampered) datagram, judged against the case's payload
    fn verdict(&self, suite: &str, case: &Case, mut bytes: Vec<u8>, la: u64) -> String {
        match self.open_case_bytes(suite, case, &mut bytes, la) {
            Ok((payload, _)) => {
                if payload == case.payload {
                    "ok opened".into()
                } else {
                    "ok opened-different".into()
                }
            }
            Err(stage) => {
                if self.stages {
                    format!("ok rejected {stage}")
                } else {
                    "ok rejected".into()
                }
            }
        }
    }

    fn seal_short(&mut self, suite: &str, dcid: &[u8], pn: u64, la: u64, spin: bool, phase: bool, payload: &[u8]) -> Result<Vec<u8>, String> {
        let keys = self.keys.get_mut(suite).ok_or("bad-op")?;
        let space = PacketNumberSpace::ApplicationData;
        let (Some(pn), Some(la)) = (pn_of(space, pn), pn_of(space, la)) else { return Err("bad-op".into()) };
        let packet = Short {
            spin_bit: if spin { SpinBit::One } else { SpinBit::Zero },
            key_phase: if phase { KeyPhase::One } else { KeyPhase::Zero },
            destination_connection_id: dcid,
            packet_number: pn,
            payload,
        };
        let mut buf = vec![0u8; CAPACITY];
        let (key, hk) = &mut keys.client;
        let res = packet.encode_packet(key, hk, la, None, EncoderBuffer::new(&mut buf));
        match res {
            Ok((protected, _rest)) => {
                let n = protected.len();
                buf.truncate(n);
                Ok(buf)
            }
            Err(e) => Err(encoding_error(e)),
        }
    }

    fn seal_initial(&mut self, dcid: &[u8], scid: &[u8], token: &[u8], pn: u64, la: u64, payload: &[u8]) -> Result<Vec<u8>, String> {
        let space = PacketNumberSpace::Initial;
        let (Some(pn), Some(la)) = (pn_of(space, pn), pn_of(space, la)) else { return Err("bad-op".into()) };
        let (mut key, hk) = InitialKey::new_client(dcid);
        let packet = Initial {
            version: QUIC_V1,
            destination_connection_id: dcid,
            source_connection_id: scid,
            token,
            packet_number: pn,
            payload,
        };
        let mut buf = vec![0u8; CAPACITY];
        let res = packet.encode_packet(&mut key, &hk, la, None, EncoderBuffer::new(&mut buf));
        match res {
            Ok((protected, _rest)) => {
                let n = protected.len();
                buf.truncate(n);
                Ok(buf)
            }
            Err(e) => Err(encoding_error(e)),
        }
    }

    /// `name:len,…` read off the real decoder's view of the genuine packet
    fn regions(&self, suite: &str, case: &Case, pn: u64) -> Result<String, &'static str> {
        let total = case.packet.len();
        let mut bytes = case.packet.clone();
        let addr = SocketAddress::default();
        let info = ConnectionInfo::new(&addr);
        let tag_len;
        let (payload_len, pn_len);
        let mut parts: Vec<(&str, usize)> = vec![("first", core::mem::size_of::<u8>())];
        match &case.kind {
            Kind::Short { dcid_len, .. } => {
                let keys = self.keys.get(suite).ok_or("no-key")?;
                tag_len = keys.server.0.tag_len();
                let space = PacketNumberSpace::ApplicationData;
                let la = pn_of(space, case.la).ok_or("bad-la")?;
                pn_len = pn_of(space, pn).ok_or("bad-pn")?.truncate(la).ok_or("truncate")?.len().bytesize();
                let base = bytes.as_ptr() as usize;
                let (packet, _) = ProtectedPacket::decode(DecoderBufferMut::new(&mut bytes), &info, dcid_len).map_err(|_| "decode")?;
                let ProtectedPacket::Short(packet) = packet else { return Err("type") };
                let dcid = packet.destination_connection_id();
                let off = (dcid.as_ptr() as usize).wrapping_sub(base);
                if off != 1 {
                    return Err("dcid-offset");
                }
                parts.push(("dcid", dcid.len()));
                let packet = packet.unprotect(&keys.server.1, la).map_err(|_| "unprotect")?;
                let packet = packet.decrypt(&keys.server.0).map_err(stage_of)?;
                payload_len = packet.payload.len();
            }
            Kind::Initial { dcid, .. } => {
                let keys = InitialKey::new_server(dcid);
                tag_len = keys.0.tag_len();
                let space = PacketNumberSpace::Initial;
                let la = pn_of(space, case.la).ok_or("bad-la")?;
                pn_len = pn_of(space, pn).ok_or("bad-pn")?.truncate(la).ok_or("truncate")?.len().bytesize();
                let (packet, _) = ProtectedPacket::decode(DecoderBufferMut::new(&mut bytes), &info, &20usize).map_err(|_| "decode")?;
                let ProtectedPacket::Initial(packet) = packet else { return Err("type") };
                // the checked ranges index the packet buffer (`Debug` prints `start..end`): the decoder's view of the header
                let (d_off, d_len) = range_of(&packet.destination_connection_id).ok_or("range")?;
                let (s_off, s_len) = range_of(&packet.source_connection_id).ok_or("range")?;
                let (t_off, t_len) = range_of(&packet.token).ok_or("range")?;
                let packet = packet.unprotect(&keys.1, la).map_err(|_| "unprotect")?;
                let packet = packet.decrypt(&keys.0).map_err(|_| "decrypt")?;
                payload_len = packet.payload.len();
                let hdr_and_pn = total.checked_sub(payload_len + tag_len).ok_or("sizes")?;
                let length_len = hdr_and_pn.checked_sub(pn_len + t_off + t_len).ok_or("sizes")?;
                parts.push(("version", 4));
                parts.push(("dcil", d_off.checked_sub(5).ok_or("sizes")?));
                parts.push(("dcid", d_len));
                parts.push(("scil", s_off.checked_sub(d_off + d_len).ok_or("sizes")?));
                parts.push(("scid", s_len));
                parts.push(("toklen", t_off.checked_sub(s_off + s_len).ok_or("sizes")?));
                parts.push(("token", t_len));
                parts.push(("length", length_len));
            }
        }
        parts.push(("pn", pn_len));
        parts.push(("ct", payload_len));
        parts.push(("tag", tag_len));
        if parts.iter().map(|p| p.1).sum::<usize>() != total {
            return Err("sum");
        }
        Ok(parts.iter().map(|(n, l)| format!("{n}:{l}")).collect::<Vec<_>>().join(","))
    }
}

fn encoding_error(e: s2n_quic_core::packet::encoding::PacketEncodingError) -> String {
    use s2n_quic_core::packet::encoding::PacketEncodingError as E;
    match e {
        E::PacketNumberTruncationError(_) => "err truncation",
        E::InsufficientSpace(_) => "err insufficient-space",
        E::EmptyPayload(_) => "err empty-payload",
        E::AeadLimitReached(_) => "err aead-limit",
    }
    .into()
}

impl Component for Pp {
    fn step(&mut self, t: &[&str]) -> String {
        match t {
            ["key", suite, client, server] => {
                let (Some(c), Some(s)) = (unhex(client), unhex(server)) else { return "bad-op".into() };
                if c.len() < 16 || s.len() < 16 || c.len() > 64 || s.len() > 64 {
                    return "bad-op".into();
                }
                match one_rtt_keys(suite, &c, &s) {
                    Some(k) => {
                        // cases sealed under the previous keys of this suite are forgotten
                        self.cases.retain(|(s, _), _| s != suite);
                        self.keys.insert(suite.to_string(), k);
                        "ok".into()
                    }
                    None => "bad-op".into(),
                }
            }
            ["case", suite, id, "short", dcid, pn, la, spin, phase, payload] => {
                let (Some(dcid), Some(pn), Some(la), Some(payload)) = (unhex(dcid), num::<u64>(pn), num::<u64>(la), unhex(payload)) else {
                    return "bad-op".into();
                };
                let (spin, phase) = match (*spin, *phase) {
                    ("0", "0") => (false, false),
                    ("0", "1") => (false, true),
                    ("1", "0") => (true, false),
                    ("1", "1") => (true, true),
                    _ => return "bad-op".into(),
                };
                if dcid.len() > 20 || !self.keys.contains_key(*suite) {
                    return "bad-op".into();
                }
                let packet = match self.seal_short(suite, &dcid, pn, la, spin, phase, &payload) {
                    Ok(p) => p,
                    Err(e) => return e,
                };
                let case = Case { kind: Kind::Short { dcid_len: dcid.len(), spin }, la, packet, payload };
                match self.regions(suite, &case, pn) {
                    Ok(r) => {
                        let n = case.packet.len();
                        self.cases.insert((suite.to_string(), id.to_string()), case);
                        format!("ok {n} {r}")
                    }
                    Err(e) => format!("err genuine-{e}"),
                }
            }
            ["case", "initial", id, "initial", dcid, scid, token, pn, la, payload] => {
                let (Some(dcid), Some(scid), Some(token), Some(pn), Some(la), Some(payload)) =
                    (unhex(dcid), unhex(scid), unhex(token), num::<u64>(pn), num::<u64>(la), unhex(payload))
                else {
                    return "bad-op".into();
                };
                if dcid.len() > 20 || scid.len() > 20 || token.len() > 300 {
                    return "bad-op".into();
                }
                let packet = match self.seal_initial(&dcid, &scid, &token, pn, la, &payload) {
                    Ok(p) => p,
                    Err(e) => return e,
                };
                let case = Case { kind: Kind::Initial { dcid: dcid.clone(), scid0: scid.first().copied() }, la, packet, payload };
                match self.regions("initial", &case, pn) {
                    Ok(r) => {
                        let n = case.packet.len();
                        self.cases.insert(("initial".to_string(), id.to_string()), case);
                        format!("ok {n} {r}")
                    }
                    Err(e) => format!("err genuine-{e}"),
                }
            }
            ["open", suite, id] => {
                let Some(case) = self.cases.get(&(suite.to_string(), id.to_string())) else { return "bad-op".into() };
                self.verdict(suite, case, case.packet.clone(), case.la)
            }
            ["reopen", suite, id, la] => {
                let Some(case) = self.cases.get(&(suite.to_string(), id.to_string())) else { return "bad-op".into() };
                let Some(la) = num::<u64>(la) else { return "bad-op".into() };
                if VarInt::new(la).is_err() {
                    return "bad-op".into();
                }
                self.verdict(suite, case, case.packet.clone(), la)
            }
            ["flip", suite, id, idx, mask] => {
                let Some(case) = self.cases.get(&(suite.to_string(), id.to_string())) else { return "bad-op".into() };
                let (Some(idx), Some(mask)) = (num::<usize>(idx), num::<u16>(mask)) else { return "bad-op".into() };
                if idx >= case.packet.len() || mask == 0 || mask > 255 {
                    return "bad-op".into();
                }
                let mut bytes = case.packet.clone();
                bytes[idx] ^= mask as u8;
                self.verdict(suite, case, bytes, case.la)
            }
            ["trunc", suite, id, n] => {
                let Some(case) = self.cases.get(&(suite.to_string(), id.to_string())) else { return "bad-op".into() };
                let Some(n) = num::<usize>(n) else { return "bad-op".into() };
                if n >= case.packet.len() {
                    return "bad-op".into();
                }
                let bytes = case.packet[..n].to_vec();
                self.verdict(suite, case, bytes, case.la)
            }
            ["splice", suite, a, b, cut] => {
                let (Some(ca), Some(cb)) = (self.cases.get(&(suite.to_string(), a.to_string())), self.cases.get(&(suite.to_string(), b.to_string()))) else {
                    return "bad-op".into();
                };
                let Some(cut) = num::<usize>(cut) else { return "bad-op".into() };
                if cut == 0 || cut >= ca.packet.len() || cut >= cb.packet.len() {
                    return "bad-op".into();
                }
                // domain: the two genuine packets must be told apart by a clear (unprotected) byte before the cut,
                // and be opened by the same keys
                let distinct = match (&ca.kind, &cb.kind) {
                    (Kind::Short { dcid_len: la_, spin: sa }, Kind::Short { dcid_len: lb, spin: sb }) => la_ == lb && sa != sb,
                    (Kind::Initial { dcid: da, scid0: Some(x) }, Kind::Initial { dcid: db, scid0: Some(y) }) => da == db && x != y && cut >= 8 + da.len(),
                    _ => false,
                };
                if !distinct {
                    return "bad-op".into();
                }
                let mut bytes = ca.packet[..cut].to_vec();
                bytes.extend_from_slice(&cb.packet[cut..]);
                if bytes == ca.packet || bytes == cb.packet {
                    return "ok identical".into();
                }
                // opened under the receiver state of A (its largest acknowledged)
                self.verdict(suite, ca, bytes, ca.la)
            }
            // known-answer: a protected packet from RFC 9001 Appendix A must open to the RFC's payload
            ["kat", "initial", side, dcid, la, packet, payload] => {
                let (Some(dcid), Some(la), Some(mut packet), Some(payload)) = (unhex(dcid), num::<u64>(la), unhex(packet), unhex(payload)) else {
                    return "bad-op".into();
                };
                // a packet sent by the client is opened with the server's keys and vice versa
                let keys = match *side {
                    "client" => InitialKey::new_server(&dcid),
                    "server" => InitialKey::new_client(&dcid),
                    _ => return "bad-op".into(),
                };
                let Some(la) = pn_of(PacketNumberSpace::Initial, la) else { return "bad-op".into() };
                match open_initial(&mut packet, &keys, la) {
                    Ok((p, _)) => {
                        if p == payload {
                            "ok opened".into()
                        } else {
                            "ok opened-different".into()
                        }
                    }
                    Err(stage) => {
                        if self.stages {
                            format!("ok rejected {stage}")
                        } else {
                            "ok rejected".into()
                        }
                    }
                }
            }
            ["kat", suite, secret, dcid_len, la, packet, payload] => {
                let (Some(secret), Some(dcid_len), Some(la), Some(mut packet), Some(payload)) =
                    (unhex(secret), num::<usize>(dcid_len), num::<u64>(la), unhex(packet), unhex(payload))
                else {
                    return "bad-op".into();
                };
                if dcid_len > 20 {
                    return "bad-op".into();
                }
                // the RFC's packet is protected with the server's write secret: open it as the client
                let Some(keys) = one_rtt_keys(suite, &secret, &secret) else { return "bad-op".into() };
                let Some(la) = pn_of(PacketNumberSpace::ApplicationData, la) else { return "bad-op".into() };
                match open_short(&mut packet, dcid_len, &keys.client, la) {
                    Ok((p, _)) => {
                        if p == payload {
                            "ok opened".into()
                        } else {
                            "ok opened-different".into()
                        }
                    }
                    Err(stage) => {
                        if self.stages {
                            format!("ok rejected {stage}")
                        } else {
                            "ok rejected".into()
                        }
                    }
                }
            }
            _ => "bad-op".into(),
        }
    }
}
