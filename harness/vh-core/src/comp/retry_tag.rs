//! C07 / RFC 9001 §5.8: the REAL client-side validation of a Retry packet's integrity tag:
//! `ProtectedPacket::decode` -> `Retry::validate::<s2n_quic_crypto::retry::RetryKey, _, _>(&odcid, ..)`
//! (the pseudo-packet of packet/retry.rs and the AES-128-GCM key / nonce of s2n-quic-crypto).
//!
//!   val <odcid hex> <retry packet hex>  ->  `ok valid` | `ok invalid` | `err <decode class>` | `err not-retry` | `err odcid`
use crate::{util::*, Component};
use s2n_codec::DecoderBufferMut;
use s2n_quic_core::{
    connection::{self, id::ConnectionInfo},
    inet::SocketAddress,
    packet::ProtectedPacket,
};

pub const NAMES: &[&str] = &["retry_tag"];

pub fn make(name: &str) -> Option<Box<dyn Component>> {
    match name {
        "retry_tag" => Some(Box::new(RetryTag)),
        _ => None,
    }
}

pub struct RetryTag;

impl Component for RetryTag {
    fn step(&mut self, t: &[&str]) -> String {
        match t {
            ["val", odcid, h] => {
                let (Some(odcid), Some(mut b)) = (unhex(odcid), unhex(h)) else { return "bad-op".into() };
                let Ok(odcid) = connection::InitialId::try_from_bytes(&odcid).ok_or(()) else { return "err odcid".into() };
                let addr = SocketAddress::default();
                let info = ConnectionInfo::new(&addr);
                let n: usize = 0;
                match ProtectedPacket::decode(DecoderBufferMut::new(&mut b), &info, &n) {
                    Ok((ProtectedPacket::Retry(r), _)) => {
                        match r.validate::<s2n_quic_crypto::retry::RetryKey, _, _>(&odcid, |len| vec![0u8; len]) {
                            Ok(()) => "ok valid".into(),
                            Err(_) => "ok invalid".into(),
                        }
                    }
                    Ok(_) => "err not-retry".into(),
                    Err(_) => "err decode".into(),
                }
            }
            _ => "bad-op".into(),
        }
    }
}
