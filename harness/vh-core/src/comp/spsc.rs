//! `spsc`: drives the REAL `s2n_quic_core::sync::spsc::channel` single-threaded (sequential
//! semantics of the lock-free queue: FIFO, capacity, close handshake, exactly-once drop, wake-ups).
//!
//!   new <capacity>   -> ok cap=<Sender::capacity()>
//!   push <k> <v>     -> ok <pushed> | ok none | err closed        (Sender::try_slice)
//!   apush <k> <v>    -> ok <pushed> | ok pending | err closed     (Sender::poll_slice, sender waker)
//!   pop <k>          -> ok <popped list> | ok none | err closed   (Receiver::try_slice)
//!   apop <k>         -> ok <popped list> | ok pending | err closed (Receiver::poll_slice, receiver waker)
//!   dropsend|droprecv-> ok dropped=<values freed by the channel itself during this call>
//!   stat             -> ok rlen=<n|-> rfull=<0|1|-> wakes=<receiver waker count>,<sender waker count>
use crate::{util::*, Component};
use s2n_quic_core::sync::spsc::{channel, PushError, Receiver, RecvSlice, SendSlice, Sender};
use std::{
    cell::{Cell, RefCell},
    rc::Rc,
    sync::{
        atomic::{AtomicUsize, Ordering},
        Arc,
    },
    task::{Context, Poll, Wake, Waker},
};

pub const NAMES: &[&str] = &["spsc"];

pub fn make(name: &str) -> Option<Box<dyn Component>> {
    match name {
        "spsc" => Some(Box::new(Spsc::default())),
        _ => None,
    }
}

type Log = Rc<RefCell<Vec<u32>>>;

/// The queue's item: reports its own destruction unless the harness took it out itself.
struct Item {
    value: u32,
    log: Log,
    /// shared with the harness so that an item is only armed once the channel accepted it
    armed: Rc<Cell<bool>>,
}

impl Drop for Item {
    fn drop(&mut self) {
        if self.armed.get() {
            self.log.borrow_mut().push(self.value);
        }
    }
}

#[derive(Default)]
struct CountWaker(AtomicUsize);

impl Wake for CountWaker {
    fn wake(self: Arc<Self>) {
        self.0.fetch_add(1, Ordering::SeqCst);
    }

    fn wake_by_ref(self: &Arc<Self>) {
        self.0.fetch_add(1, Ordering::SeqCst);
    }
}

struct Chan {
    send: Option<Sender<Item>>,
    recv: Option<Receiver<Item>>,
    log: Log,
    recv_count: Arc<CountWaker>,
    send_count: Arc<CountWaker>,
    recv_waker: Waker,
    send_waker: Waker,
}

#[derive(Default)]
pub struct Spsc {
    chan: Option<Chan>,
}

fn push_all(mut slice: SendSlice<'_, Item>, k: u32, v: u32, log: &Log) -> String {
    let mut pushed = 0u32;
    for i in 0..k {
        let armed = Rc::new(Cell::new(false));
        let item = Item { value: v.wrapping_add(i), log: log.clone(), armed: armed.clone() };
        match slice.push(item) {
            Ok(()) => {
                // now owned by the channel: whoever destroys it from here on is recorded
                armed.set(true);
                pushed += 1;
            }
            // the undelivered value comes back (or was already destroyed) unarmed
            Err(PushError::Full(_item)) => break,
            Err(PushError::Closed) => break,
        }
    }
    drop(slice);
    format!("ok {pushed}")
}

/// the bulk form `SendSlice::extend(&mut iter)`: takes items from the iterator while there is room
fn extend_all(mut slice: SendSlice<'_, Item>, k: u32, v: u32, log: &Log) -> String {
    let flags: Vec<Rc<Cell<bool>>> = (0..k).map(|_| Rc::new(Cell::new(false))).collect();
    let items: Vec<Item> = (0..k).map(|i| Item { value: v.wrapping_add(i), log: log.clone(), armed: flags[i as usize].clone() }).collect();
    let mut it = items.into_iter();
    let r = slice.extend(&mut it);
    let left = it.len() as u32;
    let pushed = k - left;
    for f in flags.iter().take(pushed as usize) {
        // now owned by the channel: whoever destroys it from here on is recorded
        f.set(true);
    }
    drop(it);
    drop(slice);
    match r {
        Ok(()) => format!("ok {pushed}"),
        Err(_) => "err closed".into(),
    }
}

fn pop_all(mut slice: RecvSlice<'_, Item>, k: u32) -> String {
    let mut got = Vec::new();
    for _ in 0..k {
        match slice.pop() {
            Some(item) => {
                item.armed.set(false);
                got.push(item.value as u64);
            }
            None => break,
        }
    }
    drop(slice);
    format!("ok {}", list(&got))
}

impl Component for Spsc {
    fn step(&mut self, t: &[&str]) -> String {
        if let ["new", c] = t {
            let Some(c) = num::<usize>(c) else { return "bad-op".into() };
            if !(1..=64).contains(&c) {
                return "bad-op".into();
            }
            // the previous channel (if any) goes away together with its own log
            self.chan = None;
            let (send, recv) = channel::<Item>(c);
            let cap = send.capacity();
            let recv_count = Arc::new(CountWaker::default());
            let send_count = Arc::new(CountWaker::default());
            self.chan = Some(Chan {
                send: Some(send),
                recv: Some(recv),
                log: Rc::new(RefCell::new(Vec::new())),
                recv_waker: Waker::from(recv_count.clone()),
                send_waker: Waker::from(send_count.clone()),
                recv_count,
                send_count,
            });
            return format!("ok cap={cap}");
        }
        let Some(ch) = self.chan.as_mut() else { return "bad-op".into() };
        match t {
            ["push", k, v] => {
                let (Some(k), Some(v)) = (num::<u32>(k), num::<u32>(v)) else { return "bad-op".into() };
                let Some(send) = ch.send.as_mut() else { return "bad-op".into() };
                match send.try_slice() {
                    Err(_) => "err closed".into(),
                    Ok(None) => "ok none".into(),
                    Ok(Some(slice)) => push_all(slice, k, v, &ch.log),
                }
            }
            ["extend", k, v] => {
                let (Some(k), Some(v)) = (num::<u32>(k), num::<u32>(v)) else { return "bad-op".into() };
                let Some(send) = ch.send.as_mut() else { return "bad-op".into() };
                match send.try_slice() {
                    Err(_) => "err closed".into(),
                    Ok(None) => "ok none".into(),
                    Ok(Some(slice)) => extend_all(slice, k, v, &ch.log),
                }
            }
            ["apush", k, v] => {
                let (Some(k), Some(v)) = (num::<u32>(k), num::<u32>(v)) else { return "bad-op".into() };
                let Some(send) = ch.send.as_mut() else { return "bad-op".into() };
                let mut cx = Context::from_waker(&ch.send_waker);
                match send.poll_slice(&mut cx) {
                    Poll::Pending => "ok pending".into(),
                    Poll::Ready(Err(_)) => "err closed".into(),
                    Poll::Ready(Ok(slice)) => push_all(slice, k, v, &ch.log),
                }
            }
            ["pop", k] => {
                let Some(k) = num::<u32>(k) else { return "bad-op".into() };
                let Some(recv) = ch.recv.as_mut() else { return "bad-op".into() };
                match recv.try_slice() {
                    Err(_) => "err closed".into(),
                    Ok(None) => "ok none".into(),
                    Ok(Some(slice)) => pop_all(slice, k),
                }
            }
            ["apop", k] => {
                let Some(k) = num::<u32>(k) else { return "bad-op".into() };
                let Some(recv) = ch.recv.as_mut() else { return "bad-op".into() };
                let mut cx = Context::from_waker(&ch.recv_waker);
                match recv.poll_slice(&mut cx) {
                    Poll::Pending => "ok pending".into(),
                    Poll::Ready(Err(_)) => "err closed".into(),
                    Poll::Ready(Ok(slice)) => pop_all(slice, k),
                }
            }
            ["dropsend"] => {
                let Some(send) = ch.send.take() else { return "bad-op".into() };
                let before = ch.log.borrow().len();
                drop(send);
                let freed: Vec<u64> = ch.log.borrow()[before..].iter().map(|x| *x as u64).collect();
                format!("ok dropped={}", list(&freed))
            }
            ["droprecv"] => {
                let Some(recv) = ch.recv.take() else { return "bad-op".into() };
                let before = ch.log.borrow().len();
                drop(recv);
                let freed: Vec<u64> = ch.log.borrow()[before..].iter().map(|x| *x as u64).collect();
                format!("ok dropped={}", list(&freed))
            }
            ["stat"] => {
                let (rlen, rfull) = match ch.recv.as_ref() {
                    Some(r) => (r.len().to_string(), (r.is_full() as u8).to_string()),
                    None => ("-".to_string(), "-".to_string()),
                };
                format!(
                    "ok rlen={rlen} rfull={rfull} wakes={},{}",
                    ch.recv_count.0.load(Ordering::SeqCst),
                    ch.send_count.0.load(Ordering::SeqCst)
                )
            }
            _ => "bad-op".into(),
        }
    }
}
