//! `pto`: the REAL `s2n_quic_core::recovery::Pto` (timer + probe state machine).
use super::loss::{ts, ts_us, DOM};
use crate::{util::*, Component};
use core::time::Duration;
use s2n_quic_core::{
    endpoint, frame,
    recovery::Pto,
    time::timer::Provider as _,
    transmission::{self, writer::testing, Provider as _, Writer as _},
};
use std::panic::{catch_unwind, AssertUnwindSafe};

pub const NAMES: &[&str] = &["pto"];

pub fn make(name: &str) -> Option<Box<dyn Component>> {
    match name {
        "pto" => Some(Box::new(PtoC { p: Pto::default() })),
        _ => None,
    }
}

pub struct PtoC {
    p: Pto,
}

fn b(s: &str) -> Option<bool> {
    match s {
        "0" => Some(false),
        "1" => Some(true),
        _ => None,
    }
}

impl PtoC {
    fn show(&self) -> String {
        let timer = self.p.next_expiration().map(|t| ts_us(t).to_string()).unwrap_or_else(|| "none".into());
        format!("{} {}", timer, self.p.transmissions())
    }
}

impl Component for PtoC {
    fn step(&mut self, t: &[&str]) -> String {
        match t {
            ["update", a, c] => {
                let (Some(base), Some(per)) = (num::<u64>(a), num::<u64>(c)) else { return "bad-op".into() };
                if !(1 <= base && base < DOM && per < DOM) {
                    return "bad-op".into();
                }
                self.p.update(ts(base), Duration::from_nanos(per));
                format!("ok {}", self.show())
            }
            ["cancel"] => {
                self.p.cancel();
                format!("ok {}", self.show())
            }
            ["force"] => {
                self.p.force_transmit();
                format!("ok {}", self.show())
            }
            ["timeout", a, c] => {
                let (Some(infl), Some(now)) = (b(a), num::<u64>(c)) else { return "bad-op".into() };
                if !(1 <= now && now < DOM) {
                    return "bad-op".into();
                }
                let r = self.p.on_timeout(infl, ts(now));
                format!("ok {} {}", if r.is_ready() { "ready" } else { "pending" }, self.show())
            }
            ["once"] => {
                let r = catch_unwind(AssertUnwindSafe(|| self.p.on_transmit_once()));
                match r {
                    Ok(()) => format!("ok {}", self.show()),
                    Err(_) => "err debug-assert".into(),
                }
            }
            ["transmit", a, c, d] => {
                let (Some(probing), Some(ae), Some(wok)) = (b(a), b(c), b(d)) else { return "bad-op".into() };
                let mut fb = testing::OutgoingFrameBuffer::new();
                let mode = if probing { transmission::Mode::LossRecoveryProbing } else { transmission::Mode::Normal };
                let mut w = testing::Writer::new(ts(1), &mut fb, transmission::Constraint::None, mode, endpoint::Type::Client);
                if ae {
                    w.write_frame_forced(&frame::Ping);
                } else {
                    w.write_frame_forced(&frame::Padding { length: 1 });
                }
                let before = w.frame_buffer.len();
                if !wok {
                    w.frame_buffer.set_error_write_after_n_frames(0);
                }
                let r = catch_unwind(AssertUnwindSafe(|| self.p.on_transmit(&mut w)));
                let ping = (w.frame_buffer.len() > before) as u8;
                // every probe packet must end up ack-eliciting when the PTO took the transmission
                match r {
                    Ok(()) => format!("ok {} {}", self.show(), ping),
                    Err(_) => "err debug-assert".into(),
                }
            }
            _ => "bad-op".into(),
        }
    }
}
