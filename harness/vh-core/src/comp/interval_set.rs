//! component `ivset`: drives the REAL `s2n_quic_core::interval_set::IntervalSet<u64>` through its
//! public API. Two sets: A (current) and B (operand of union/difference/intersection; reachable
//! through `swap`). After every op: `ok <result> <complete interval list of A>`.
use crate::{util::*, Component};
use core::num::NonZeroUsize;
use s2n_quic_core::interval_set::{Interval, IntervalSet, IntervalSetError};

pub const NAMES: &[&str] = &["ivset"];

pub fn make(name: &str) -> Option<Box<dyn Component>> {
    match name {
        "ivset" => Some(Box::new(IvSetC {
            a: IntervalSet::new(),
            b: IntervalSet::new(),
        })),
        _ => None,
    }
}

pub struct IvSetC {
    a: IntervalSet<u64>,
    b: IntervalSet<u64>,
}

pub fn ivs_str<I: Iterator<Item = (u64, u64)>>(it: I) -> String {
    let v: Vec<String> = it.map(|(s, e)| format!("{s}-{e}")).collect();
    if v.is_empty() {
        "-".into()
    } else {
        v.join(",")
    }
}

fn iv_pair(i: Interval<u64>) -> (u64, u64) {
    (i.start_inclusive(), i.end_inclusive())
}

pub fn err_str(e: IntervalSetError) -> &'static str {
    match e {
        IntervalSetError::LimitExceeded => "limit",
        IntervalSetError::InvalidInterval => "invalid",
    }
}

fn res_str(r: Result<(), IntervalSetError>) -> &'static str {
    match r {
        Ok(()) => "ok",
        Err(e) => err_str(e),
    }
}

fn opt(v: Option<u64>) -> String {
    match v {
        Some(v) => v.to_string(),
        None => "none".into(),
    }
}

impl IvSetC {
    fn reply(&self, res: &str) -> String {
        format!("ok {} {}", res, ivs_str(self.a.intervals().map(iv_pair)))
    }
}

impl Component for IvSetC {
    fn step(&mut self, t: &[&str]) -> String {
        match t {
            ["new", "none"] => {
                self.a = IntervalSet::new();
                self.reply("-")
            }
            ["new", n] => {
                let Some(l) = num::<u64>(n).and_then(|l| NonZeroUsize::new(l as usize)) else { return "bad-op".into() };
                self.a = IntervalSet::with_limit(l);
                self.reply("-")
            }
            ["limit", n] => {
                let Some(l) = num::<u64>(n).and_then(|l| NonZeroUsize::new(l as usize)) else { return "bad-op".into() };
                self.a.set_limit(l);
                self.reply("-")
            }
            ["nolimit"] => {
                self.a.remove_limit();
                self.reply("-")
            }
            [op, x, y] => {
                let (Some(lo), Some(hi)) = (num::<u64>(x), num::<u64>(y)) else { return "bad-op".into() };
                #[allow(clippy::reversed_empty_ranges)]
                let r = match *op {
                    "ins" => self.a.insert(lo..=hi),
                    "insr" => self.a.insert(lo..hi),
                    "insf" => self.a.insert_front(lo..=hi),
                    "rm" => self.a.remove(lo..=hi),
                    "rmr" => self.a.remove(lo..hi),
                    _ => return "bad-op".into(),
                };
                self.reply(res_str(r))
            }
            [op, x] => {
                let Some(v) = num::<u64>(x) else { return "bad-op".into() };
                match *op {
                    "insv" => {
                        let r = self.a.insert_value(v);
                        self.reply(res_str(r))
                    }
                    "rmv" => {
                        let r = self.a.remove_value(v);
                        self.reply(res_str(r))
                    }
                    "has" => self.reply(if self.a.contains(&v) { "1" } else { "0" }),
                    _ => "bad-op".into(),
                }
            }
            ["pop"] => {
                let r = match self.a.pop_min() {
                    Some(i) => format!("{}-{}", i.start_inclusive(), i.end_inclusive()),
                    None => "none".into(),
                };
                self.reply(&r)
            }
            ["min"] => self.reply(&opt(self.a.min_value())),
            ["max"] => self.reply(&opt(self.a.max_value())),
            ["count"] => self.reply(&self.a.count().to_string()),
            ["len"] => self.reply(&self.a.interval_len().to_string()),
            ["empty"] => self.reply(if self.a.is_empty() { "1" } else { "0" }),
            ["clear"] => {
                self.a.clear();
                self.reply("-")
            }
            ["iter"] => {
                let v: Vec<u64> = self.a.iter().take(64).collect();
                self.reply(&list(&v))
            }
            ["riter"] => {
                let v: Vec<u64> = self.a.iter().rev().take(64).collect();
                self.reply(&list(&v))
            }
            ["swap"] => {
                core::mem::swap(&mut self.a, &mut self.b);
                self.reply("-")
            }
            ["union"] => {
                let r = self.a.union(&self.b);
                self.reply(res_str(r))
            }
            ["diff"] => {
                let r = self.a.difference(&self.b);
                self.reply(res_str(r))
            }
            ["inter"] => {
                let r = self.a.intersection(&self.b);
                self.reply(res_str(r))
            }
            ["interiter"] => {
                let r = ivs_str(self.a.intersection_iter(&self.b).map(iv_pair));
                self.reply(&r)
            }
            _ => "bad-op".into(),
        }
    }
}
