//! `dc_stream_sim` (property C20, tie T): ONE end-to-end scenario per op line on the REAL
//! s2n-quic-dc stream stack, using the crate's own simulation scaffolding
//! (`s2n_quic_dc::stream::testing::{Client, Server}`; tokio `AsyncRead`/`AsyncWrite` on the streams).
//!
//!   run seed=<u64> proto=<udp|tcp> req=<bytes> resp=<bytes> wchunk=<n> rchunk=<n> mtu=<n> [smtu=<n>]
//!       drop_pm=<0..1000> dup_pm=<0..1000> reorder_pm=<0..1000> faults_until_ms=<n> [vanish_us=<n>]
//!       client_op=<normal|shutdown_early|drop_early|concurrent>
//!       server_op=<normal|write_first|drop_early|stall|vanish|forget_secret> idle_ms=<n> deadline_ms=<n>
//!
//! proto=udp runs client and server inside the bach discrete-event simulation. The runtime is built
//! exactly like `s2n_quic_dc::testing::sim` (bach default runtime, 500 µs one-way latency = 1 ms RTT),
//! except that the net queue allocator is the adversarial `Adversary` below instead of
//! `bach::environment::net::queue::Fixed`: it is `Fixed` line by line plus a per-packet decision
//! drop / duplicate / extra delay (= reordering) taken from a splitmix64 PRNG seeded by `seed`
//! (bach 0.1.2's `net::monitor::Command` only has Pass/Drop and needs the `net-monitor` feature,
//! which is why the repo's own packet-loss tests are still `#[cfg(todo)]`). Faults apply while
//! virtual time < faults_until_ms, afterwards the network is clean. `vanish_us` > 0 makes the network
//! drop EVERY packet from that virtual time (in µs) on (server_op=vanish: the peer has vanished).
//! server_op=stall: the server application reads the whole request and then never answers nor closes (the
//! repo's `idle_timeout::server_no_response`): only the client's RECEIVER idle timer can end the stream.
//! server_op=forget_secret: as in the repo's `fail_fast_unknown_path_secret` test, a throw-away first
//! stream makes the server drop its path-secret state (`Map::drop_state`), then the real stream runs.
//!
//! proto=tcp: bach has no TCP, so the scenario runs on a real tokio runtime over kernel loopback TCP
//! (`Server::tcp()`), drop/dup/reorder must be 0, times are not virtual and are printed as `-`;
//! server_op=vanish means the server application freezes for idle_ms + 3 s of REAL time while holding
//! the stream (thorough tier only).
//!
//! Payloads are keyed and position dependent: byte i of direction d = byte (i & 7) of
//! splitmix64(key_d ^ (i >> 3)), key_c2s = splitmix64(2·seed+1), key_s2c = splitmix64(2·seed+2).
//!
//! Result (one line, deterministic for a fixed op line):
//!   ok c2s=<dir> s2c=<dir> cerr=<errs|-> serr=<errs|-> tc=<ms|-> ts=<ms|-> end=<done|deadline>
//!      tend=<ms|-> pkts=<n> dropped=<n> duped=<n> delayed=<n> accepted=<n>
//!      ghost=<streams nobody opened that the server application was handed>:<bytes read on them>:<bytes differing from the request payload>
//!      idle=<ms> late=<0|1>
//!      panic=<file:line of a panic on a background thread|->
//!   <dir> = w:<bytes accepted by write>,wa:<end offset of the last attempted write>,fin:<0|1 shutdown ok>,
//!           r:<bytes read>,crc:<crc32 of the bytes read>,cmp:<ok|lost@off|dup@off|wrong@off>,eof:<clean|err|none>
//!   errs  = comma separated `<op>:<io::ErrorKind>` in order of occurrence (op = connect/write/shutdown/read)
//! Each scenario runs on a fresh OS thread (fresh bach/tokio runtime, fresh thread-locals); a panic in
//! the scenario is reported as `panic <msg>`.
use crate::{util::num, Component};
use s2n_quic_dc::stream::testing::{Client, Server, Stream};
use std::{
    collections::HashMap,
    sync::{Arc, Mutex},
    time::Duration,
};
use tokio::io::{AsyncReadExt, AsyncWriteExt};

pub const NAMES: &[&str] = &["dc_stream_sim"];

pub fn make(name: &str) -> Option<Box<dyn Component>> {
    match name {
        "dc_stream_sim" => Some(Box::new(Sim)),
        _ => None,
    }
}

struct Sim;

/// location of the most recent panic on ANY thread (background runtimes swallow panics of their tasks)
static LAST_PANIC: Mutex<Option<String>> = Mutex::new(None);

fn install_panic_hook() {
    std::panic::set_hook(Box::new(|info| {
        let loc = info
            .location()
            .map(|l| {
                let f = l.file();
                let f = f.rsplit_once("/src/").map_or(f, |(a, b)| {
                    // keep `<crate>/src/<path>`
                    let krate = a.rsplit('/').next().unwrap_or("");
                    Box::leak(format!("{krate}/src/{b}").into_boxed_str())
                });
                format!("{f}:{}", l.line())
            })
            .unwrap_or_else(|| "?".into());
        if std::env::var_os("VH_BT").is_some() {
            eprintln!("PANIC at {loc}\n{}", std::backtrace::Backtrace::force_capture());
        }
        if let Ok(mut g) = LAST_PANIC.lock() {
            if g.is_none() {
                *g = Some(loc);
            }
        }
    }));
}

#[derive(Clone, Copy, Debug, PartialEq, Eq)]
enum ClientOp {
    Normal,
    ShutdownEarly,
    DropEarly,
    Concurrent,
}

#[derive(Clone, Copy, Debug, PartialEq, Eq)]
enum ServerOp {
    Normal,
    WriteFirst,
    DropEarly,
    Stall,
    Vanish,
    ForgetSecret,
}

#[derive(Clone, Debug)]
struct Params {
    seed: u64,
    tcp: bool,
    req: usize,
    resp: usize,
    wchunk: usize,
    rchunk: usize,
    mtu: u16,
    smtu: u16,
    drop_pm: u64,
    dup_pm: u64,
    reorder_pm: u64,
    faults_until_ms: u64,
    vanish_us: u64,
    client_op: ClientOp,
    server_op: ServerOp,
    idle_ms: u64,
    deadline_ms: u64,
}

fn parse(toks: &[&str]) -> Option<Params> {
    if toks.first() != Some(&"run") {
        return None;
    }
    let mut kv = HashMap::new();
    for t in &toks[1..] {
        let (k, v) = t.split_once('=')?;
        if kv.insert(k, v).is_some() {
            return None;
        }
    }
    let mut take = |k: &str| kv.remove(k);
    let seed: u64 = num(take("seed")?)?;
    let tcp = match take("proto")? {
        "udp" => false,
        "tcp" => true,
        _ => return None,
    };
    let req: usize = num(take("req")?)?;
    let resp: usize = num(take("resp")?)?;
    let wchunk: usize = num(take("wchunk")?)?;
    let rchunk: usize = num(take("rchunk")?)?;
    let mtu: u16 = num(take("mtu")?)?;
    let smtu: u16 = match take("smtu") {
        Some(v) => num(v)?,
        None => mtu,
    };
    let drop_pm: u64 = num(take("drop_pm")?)?;
    let dup_pm: u64 = num(take("dup_pm")?)?;
    let reorder_pm: u64 = num(take("reorder_pm")?)?;
    let faults_until_ms: u64 = num(take("faults_until_ms")?)?;
    let vanish_us: u64 = match take("vanish_us") {
        Some(v) => num(v)?,
        None => 0,
    };
    let client_op = match take("client_op")? {
        "normal" => ClientOp::Normal,
        "shutdown_early" => ClientOp::ShutdownEarly,
        "drop_early" => ClientOp::DropEarly,
        "concurrent" => ClientOp::Concurrent,
        _ => return None,
    };
    let server_op = match take("server_op")? {
        "normal" => ServerOp::Normal,
        "write_first" => ServerOp::WriteFirst,
        "drop_early" => ServerOp::DropEarly,
        "stall" => ServerOp::Stall,
        "vanish" => ServerOp::Vanish,
        "forget_secret" => ServerOp::ForgetSecret,
        _ => return None,
    };
    let idle_ms: u64 = num(take("idle_ms")?)?;
    let deadline_ms: u64 = num(take("deadline_ms")?)?;
    if !kv.is_empty() {
        return None;
    }
    // domain
    let max = 16 << 20;
    if req > max || resp > max || wchunk == 0 || rchunk == 0 || wchunk > max || rchunk > max {
        return None;
    }
    if !(1250..=32768).contains(&(mtu as u32)) || !(1250..=32768).contains(&(smtu as u32)) {
        return None;
    }
    if drop_pm > 1000 || dup_pm > 1000 || reorder_pm > 1000 || deadline_ms == 0 || deadline_ms > 3_600_000 {
        return None;
    }
    if tcp && (drop_pm | dup_pm | reorder_pm | vanish_us) != 0 {
        return None;
    }
    // the network vanishes for server_op=vanish (mandatory) and optionally for server_op=stall
    if !tcp && ((server_op == ServerOp::Vanish && vanish_us == 0) || (vanish_us != 0 && !matches!(server_op, ServerOp::Vanish | ServerOp::Stall))) {
        return None;
    }
    // the scaffolding's idle timeout is fixed (dc::testing::TEST_APPLICATION_PARAMS); the op line
    // must name it so that the oracle's bound and the implementation's value are the same number
    if idle_ms != scaffold_idle_ms() {
        return None;
    }
    Some(Params {
        seed,
        tcp,
        req,
        resp,
        wchunk,
        rchunk,
        mtu,
        smtu,
        drop_pm,
        dup_pm,
        reorder_pm,
        faults_until_ms,
        vanish_us,
        client_op,
        server_op,
        idle_ms,
        deadline_ms,
    })
}

fn scaffold_idle_ms() -> u64 {
    let p = s2n_quic_core::dc::testing::TEST_APPLICATION_PARAMS;
    p.max_idle_timeout()
        .unwrap_or(s2n_quic_dc::stream::DEFAULT_IDLE_TIMEOUT)
        .as_millis() as u64
}

// ---------------------------------------------------------------------------------------------
// payloads, crc
// ---------------------------------------------------------------------------------------------

#[inline]
fn splitmix64(x: u64) -> u64 {
    let mut z = x.wrapping_add(0x9E37_79B9_7F4A_7C15);
    z = (z ^ (z >> 30)).wrapping_mul(0xBF58_476D_1CE4_E5B9);
    z = (z ^ (z >> 27)).wrapping_mul(0x94D0_49BB_1331_11EB);
    z ^ (z >> 31)
}

#[inline]
fn payload_byte(key: u64, i: u64) -> u8 {
    (splitmix64(key ^ (i >> 3)) >> ((i & 7) * 8)) as u8
}

fn payload(key: u64, off: u64, len: usize) -> Vec<u8> {
    (0..len as u64).map(|i| payload_byte(key, off + i)).collect()
}

fn key_c2s(seed: u64) -> u64 {
    splitmix64(seed.wrapping_mul(2).wrapping_add(1))
}

fn key_s2c(seed: u64) -> u64 {
    splitmix64(seed.wrapping_mul(2).wrapping_add(2))
}

struct Crc32 {
    table: [u32; 256],
    state: u32,
}

impl Crc32 {
    fn new() -> Self {
        let mut table = [0u32; 256];
        for i in 0..256u32 {
            let mut c = i;
            for _ in 0..8 {
                c = if c & 1 != 0 { 0xEDB8_8320 ^ (c >> 1) } else { c >> 1 };
            }
            table[i as usize] = c;
        }
        Self { table, state: 0xFFFF_FFFF }
    }

    fn update(&mut self, data: &[u8]) {
        for b in data {
            self.state = self.table[((self.state ^ *b as u32) & 0xFF) as usize] ^ (self.state >> 8);
        }
    }

    fn value(&self) -> u32 {
        self.state ^ 0xFFFF_FFFF
    }
}

// ---------------------------------------------------------------------------------------------
// report
// ---------------------------------------------------------------------------------------------

#[derive(Clone, Debug, Default)]
struct Dir {
    w: u64,
    wa: u64,
    fin: bool,
    r: u64,
    crc: u32,
    cmp: Option<(String, u64)>,
    eof: &'static str,
}

impl Dir {
    fn render(&self) -> String {
        let cmp = match &self.cmp {
            None => "ok".to_string(),
            Some((k, o)) => format!("{k}@{o}"),
        };
        format!(
            "w:{},wa:{},fin:{},r:{},crc:{:08x},cmp:{},eof:{}",
            self.w,
            self.wa,
            self.fin as u8,
            self.r,
            self.crc,
            cmp,
            if self.eof.is_empty() { "none" } else { self.eof }
        )
    }
}

#[derive(Clone, Debug, Default)]
struct Report {
    c2s: Dir,
    s2c: Dir,
    cerr: Vec<String>,
    serr: Vec<String>,
    tc: Option<u64>,
    ts: Option<u64>,
    client_done: bool,
    server_done: bool,
    server_started: bool,
    deadline: bool,
    accepted: u64,
    late: bool,
    /// streams the server application was handed beyond the one(s) the client opened
    ghosts: u64,
    ghost_bytes: u64,
    ghost_bad: u64,
}

type Shared = Arc<Mutex<Report>>;

#[derive(Clone, Copy)]
enum Side {
    Client,
    Server,
}

fn push_err(rep: &Shared, side: Side, op: &str, e: &std::io::Error) {
    let s = format!("{op}:{:?}", e.kind());
    let mut r = rep.lock().unwrap();
    match side {
        Side::Client => r.cerr.push(s),
        Side::Server => r.serr.push(s),
    }
}

/// which direction record a side writes into / reads from
fn wdir(r: &mut Report, side: Side) -> &mut Dir {
    match side {
        Side::Client => &mut r.c2s,
        Side::Server => &mut r.s2c,
    }
}

fn rdir(r: &mut Report, side: Side) -> &mut Dir {
    match side {
        Side::Client => &mut r.s2c,
        Side::Server => &mut r.c2s,
    }
}

// ---------------------------------------------------------------------------------------------
// application behaviour (shared by both transports)
// ---------------------------------------------------------------------------------------------

/// writes `total` payload bytes in `wchunk` pieces; returns false on error
async fn write_payload<W: AsyncWriteExt + Unpin>(w: &mut W, key: u64, total: usize, wchunk: usize, rep: &Shared, side: Side) -> bool {
    let mut off = 0usize;
    while off < total {
        let len = wchunk.min(total - off);
        let chunk = payload(key, off as u64, len);
        let mut pos = 0;
        while pos < len {
            {
                let mut r = rep.lock().unwrap();
                wdir(&mut r, side).wa = (off + len) as u64;
            }
            match w.write(&chunk[pos..]).await {
                Ok(0) => {
                    push_err(rep, side, "write", &std::io::Error::from(std::io::ErrorKind::WriteZero));
                    return false;
                }
                Ok(n) => {
                    pos += n;
                    let mut r = rep.lock().unwrap();
                    wdir(&mut r, side).w += n as u64;
                }
                Err(e) => {
                    push_err(rep, side, "write", &e);
                    return false;
                }
            }
        }
        off += len;
    }
    true
}

async fn shutdown_write<W: AsyncWriteExt + Unpin>(w: &mut W, rep: &Shared, side: Side) -> bool {
    match w.shutdown().await {
        Ok(()) => {
            let mut r = rep.lock().unwrap();
            wdir(&mut r, side).fin = true;
            true
        }
        Err(e) => {
            push_err(rep, side, "shutdown", &e);
            false
        }
    }
}

fn classify(key: u64, off: u64, tail: &[u8]) -> &'static str {
    let m = tail.len().min(16);
    if m < 8 {
        return "wrong";
    }
    let tail = &tail[..m];
    let matches = |start: u64| (0..m as u64).all(|i| payload_byte(key, start + i) == tail[i as usize]);
    for k in 1..=(1u64 << 17) {
        if matches(off + k) {
            return "lost";
        }
        if k <= off && matches(off - k) {
            return "dup";
        }
    }
    "wrong"
}

/// reads until EOF / error (or until `limit` bytes were read), comparing against the keyed payload
async fn read_payload<R: AsyncReadExt + Unpin>(rd: &mut R, key: u64, rchunk: usize, limit: Option<u64>, rep: &Shared, side: Side) {
    let mut buf = vec![0u8; rchunk];
    let mut crc = Crc32::new();
    let mut off = 0u64;
    loop {
        if let Some(l) = limit {
            if off >= l {
                return;
            }
        }
        match rd.read(&mut buf).await {
            Ok(0) => {
                let mut r = rep.lock().unwrap();
                rdir(&mut r, side).eof = "clean";
                return;
            }
            Ok(n) => {
                let data = &buf[..n];
                crc.update(data);
                let mut bad = None;
                for (i, b) in data.iter().enumerate() {
                    if *b != payload_byte(key, off + i as u64) {
                        bad = Some(i);
                        break;
                    }
                }
                let mut r = rep.lock().unwrap();
                let d = rdir(&mut r, side);
                if let (Some(i), None) = (bad, d.cmp.as_ref()) {
                    d.cmp = Some((classify(key, off + i as u64, &data[i..]).to_string(), off + i as u64));
                }
                off += n as u64;
                d.r = off;
                d.crc = crc.value();
            }
            Err(e) => {
                {
                    let mut r = rep.lock().unwrap();
                    rdir(&mut r, side).eof = "err";
                }
                push_err(rep, side, "read", &e);
                return;
            }
        }
    }
}

async fn client_flow(mut stream: Stream, p: &Params, rep: &Shared) {
    let kw = key_c2s(p.seed);
    let kr = key_s2c(p.seed);
    let side = Side::Client;
    match p.client_op {
        ClientOp::Normal => {
            if write_payload(&mut stream, kw, p.req, p.wchunk, rep, side).await {
                shutdown_write(&mut stream, rep, side).await;
            }
            read_payload(&mut stream, kr, p.rchunk, None, rep, side).await;
        }
        ClientOp::ShutdownEarly => {
            if write_payload(&mut stream, kw, p.req / 2, p.wchunk, rep, side).await {
                shutdown_write(&mut stream, rep, side).await;
            }
            read_payload(&mut stream, kr, p.rchunk, None, rep, side).await;
        }
        ClientOp::DropEarly => {
            write_payload(&mut stream, kw, p.req / 2, p.wchunk, rep, side).await;
            // no shutdown, no read: the whole stream is dropped
        }
        ClientOp::Concurrent => {
            let (mut rd, mut wr) = stream.into_split();
            let w = async {
                if write_payload(&mut wr, kw, p.req, p.wchunk, rep, side).await {
                    shutdown_write(&mut wr, rep, side).await;
                }
                drop(wr);
            };
            let r = async {
                read_payload(&mut rd, kr, p.rchunk, None, rep, side).await;
                drop(rd);
            };
            tokio::join!(w, r);
        }
    }
}

async fn server_flow(mut stream: Stream, p: &Params, rep: &Shared) {
    let kw = key_s2c(p.seed);
    let kr = key_c2s(p.seed);
    let side = Side::Server;
    match p.server_op {
        ServerOp::Normal | ServerOp::Vanish | ServerOp::ForgetSecret => {
            read_payload(&mut stream, kr, p.rchunk, None, rep, side).await;
            let read_ok = rep.lock().unwrap().c2s.eof == "clean";
            if read_ok && write_payload(&mut stream, kw, p.resp, p.wchunk, rep, side).await {
                shutdown_write(&mut stream, rep, side).await;
            }
        }
        ServerOp::WriteFirst => {
            let (mut rd, mut wr) = stream.into_split();
            let w = async {
                if write_payload(&mut wr, kw, p.resp, p.wchunk, rep, side).await {
                    shutdown_write(&mut wr, rep, side).await;
                }
                drop(wr);
            };
            let r = async {
                read_payload(&mut rd, kr, p.rchunk, None, rep, side).await;
                drop(rd);
            };
            tokio::join!(w, r);
        }
        ServerOp::DropEarly => {
            read_payload(&mut stream, kr, p.rchunk, Some((p.req / 2) as u64), rep, side).await;
            // drop without writing anything
        }
        ServerOp::Stall => {
            read_payload(&mut stream, kr, p.rchunk, None, rep, side).await;
            // hold the stream: no response, no shutdown
            s2n_quic_dc::testing::sleep(Duration::from_millis(p.deadline_ms)).await;
        }
    }
}

// ---------------------------------------------------------------------------------------------
// the adversarial network (bach)
// ---------------------------------------------------------------------------------------------

mod net {
    use super::Params;
    use bach::{
        environment::net::{
            ip::{Packet, Segments},
            monitor::List as Monitors,
            pcap,
            queue::{Allocator, Dispatch, PacketQueue},
        },
        ext::*,
        group::Group,
        queue::{latent::Latency, vec_deque},
        sync::channel::Sender,
    };
    use std::{
        net::SocketAddr,
        sync::{Arc, Mutex},
        time::Duration,
    };

    #[derive(Debug, Default)]
    pub struct Counters {
        pub rng: u64,
        pub pkts: u64,
        pub dropped: u64,
        pub duped: u64,
        pub delayed: u64,
    }

    #[derive(Clone)]
    pub struct Adversary {
        pub drop_pm: u64,
        pub dup_pm: u64,
        pub reorder_pm: u64,
        pub faults_until: Duration,
        pub vanish_at: Option<Duration>,
        pub state: Arc<Mutex<Counters>>,
    }

    /// what to do with one packet: None = drop, Some(delays of each copy)
    impl Adversary {
        pub fn new(p: &Params) -> Self {
            Self {
                drop_pm: p.drop_pm,
                dup_pm: p.dup_pm,
                reorder_pm: p.reorder_pm,
                faults_until: Duration::from_millis(p.faults_until_ms),
                vanish_at: if p.vanish_us > 0 { Some(Duration::from_micros(p.vanish_us)) } else { None },
                state: Arc::new(Mutex::new(Counters {
                    rng: super::splitmix64(p.seed ^ 0x6e65_7477_6f72_6b21),
                    ..Default::default()
                })),
            }
        }

        fn decide(&self, base: Duration) -> Vec<Duration> {
            let now = bach::time::Instant::now().elapsed_since_start();
            let mut st = self.state.lock().unwrap();
            st.pkts += 1;
            if let Some(v) = self.vanish_at {
                if now >= v {
                    st.dropped += 1;
                    return vec![];
                }
            }
            if now >= self.faults_until {
                return vec![base];
            }
            let mut next = || {
                st.rng = st.rng.wrapping_add(0x9E37_79B9_7F4A_7C15);
                super::splitmix64(st.rng)
            };
            let r_drop = next() % 1000;
            let r_dup = next() % 1000;
            let r_re1 = next() % 1000;
            let r_re2 = next() % 1000;
            let e1 = Duration::from_micros(100 + next() % 4000);
            let e2 = Duration::from_micros(100 + next() % 4000);
            if r_drop < self.drop_pm {
                st.dropped += 1;
                return vec![];
            }
            let mut out = vec![];
            if r_re1 < self.reorder_pm {
                st.delayed += 1;
                out.push(base + e1);
            } else {
                out.push(base);
            }
            if r_dup < self.dup_pm {
                st.duped += 1;
                if r_re2 < self.reorder_pm.max(500) {
                    out.push(base + e2);
                } else {
                    out.push(base);
                }
            }
            out
        }
    }

    struct PerPacket;

    impl Latency<(Duration, Packet)> for PerPacket {
        fn for_value(&self, value: &(Duration, Packet)) -> Duration {
            value.0
        }
    }

    impl Allocator for Adversary {
        // Transcribed from bach 0.1.2 `environment::net::queue::Fixed::for_udp`
        // (tx 4096 / rx 4096 / inflight 65535 packets, PreferOldest), with the net queue's latency
        // taken per packet and the drop/duplicate decision in the tx task.
        fn for_udp(
            &mut self,
            _group: &Group,
            addr: SocketAddr,
            dispatch: &Dispatch,
            monitors: &Monitors,
            _pcaps: &mut pcap::Registry,
        ) -> PacketQueue {
            let base = Duration::from_micros(500);

            let (tx_sender, mut tx_receiver) = vec_deque::Queue::builder()
                .with_capacity(Some(4096))
                .with_overflow(vec_deque::Overflow::PreferOldest)
                .build()
                .sojourn()
                .span(format!("udp://{addr}/tx"))
                .mutex()
                .channel();

            let _: &Sender<Segments> = &tx_sender;

            let (rx_sender, rx_receiver) = vec_deque::Queue::builder()
                .with_capacity(Some(4096))
                .with_overflow(vec_deque::Overflow::PreferOldest)
                .build()
                .sojourn()
                .span(format!("udp://{addr}/rx"))
                .mutex()
                .channel();

            let (mut net_send, mut net_recv) = vec_deque::Queue::builder()
                .with_capacity(Some(u16::MAX as usize))
                .with_overflow(vec_deque::Overflow::PreferOldest)
                .build()
                .latent(PerPacket)
                .span(format!("udp://{addr}/net"))
                .mutex()
                .channel();

            {
                let monitors = monitors.clone();
                let adv = self.clone();
                async move {
                    'outer: while let Ok(segments) = tx_receiver.recv().await {
                        for packet in segments {
                            if monitors.on_packet_sent(&packet).is_drop() {
                                continue;
                            }
                            let copies = adv.decide(base);
                            let n = copies.len();
                            let mut packet = Some(packet);
                            for (i, delay) in copies.into_iter().enumerate() {
                                let pkt = if i + 1 == n { packet.take().unwrap() } else { packet.clone().unwrap() };
                                if net_send.push_nowait((delay, pkt)).await.is_err() {
                                    break 'outer;
                                }
                            }
                        }
                    }
                    let _ = tx_receiver.close();
                }
                .spawn_named(format_args!("udp://{addr}/net/local"));
            }

            let senders = dispatch.clone();
            async move {
                while let Ok((_delay, packet)) = net_recv.recv().await {
                    senders.send(packet).await;
                }
                let _ = net_recv.close();
            }
            .spawn_named(format_args!("udp://{addr}/net/remote"));

            PacketQueue {
                local_sender: tx_sender,
                local_receiver: rx_receiver,
                remote_sender: rx_sender,
            }
        }
    }

    /// `s2n_quic_dc::testing::sim` with the adversarial allocator in place of `Fixed`
    pub fn sim_with(adv: Adversary, f: impl FnOnce()) {
        s2n_quic_dc::testing::init_tracing();
        let mut rt = bach::environment::default::Runtime::new().with_net_queues(Some(Box::new(adv)));
        rt.run(f);
    }
}

fn bach_now_ms() -> u64 {
    bach::time::Instant::now().elapsed_since_start().as_millis() as u64
}

fn run_udp(p: Params) -> (Report, net::Adversary) {
    use s2n_quic_dc::testing::ext::*;
    let rep: Shared = Default::default();
    let adv = net::Adversary::new(&p);
    let deadline = Duration::from_millis(p.deadline_ms);

    let rep_c = rep.clone();
    let rep_s = rep.clone();
    let pc = p.clone();
    let ps = p.clone();
    let forgot = Arc::new(std::sync::atomic::AtomicBool::new(false));
    let forgot_c = forgot.clone();
    let forgot_s = forgot.clone();

    net::sim_with(adv.clone(), move || {
        async move {
            let p = pc;
            let rep = rep_c;
            let client = Client::builder().mtu(p.mtu).build();
            if p.server_op == ServerOp::ForgetSecret {
                // throw-away stream: gets the server to drop its state for this path
                match client.connect_sim("server:443").await {
                    Ok(stream) => drop(stream),
                    Err(e) => push_err(&rep, Side::Client, "connect0", &e),
                }
                // open the real stream only after the server dropped its state (at most 2 s of waiting:
                // the throw-away stream's packets are subject to the network faults, too)
                for _ in 0..2000 {
                    bach::time::sleep(Duration::from_millis(1)).await;
                    if forgot_c.load(std::sync::atomic::Ordering::SeqCst) {
                        break;
                    }
                }
            }
            let flow = async {
                match client.connect_sim("server:443").await {
                    Ok(stream) => client_flow(stream, &p, &rep).await,
                    Err(e) => push_err(&rep, Side::Client, "connect", &e),
                }
            };
            let timed_out = bach::time::timeout(deadline, flow).await.is_err();
            let mut r = rep.lock().unwrap();
            r.deadline |= timed_out;
            r.client_done = !timed_out;
            r.tc = Some(bach_now_ms());
        }
        .group("client")
        .primary()
        .spawn();

        async move {
            let p = ps;
            let rep = rep_s;
            let server = Server::udp().port(443).mtu(p.smtu).build();
            let expected: u64 = if p.server_op == ServerOp::ForgetSecret { 2 } else { 1 };
            while let Ok((mut stream, _addr)) = server.accept().await {
                let nth = {
                    let mut r = rep.lock().unwrap();
                    r.accepted += 1;
                    r.accepted
                };
                if p.server_op == ServerOp::ForgetSecret && nth == 1 {
                    // simulate a restart: the server no longer knows the path secret
                    server.map().drop_state();
                    forgot_s.store(true, std::sync::atomic::Ordering::SeqCst);
                    async move {
                        let mut sink = vec![];
                        let _ = stream.read_to_end(&mut sink).await;
                    }
                    .spawn();
                    continue;
                }
                if nth > expected || (p.server_op != ServerOp::ForgetSecret && nth > 1) {
                    // a stream nobody opened: drain it and remember what the application was handed
                    let rep = rep.clone();
                    let key = key_c2s(p.seed);
                    rep.lock().unwrap().ghosts += 1;
                    async move {
                        let mut buf = vec![0u8; 65536];
                        let mut off = 0u64;
                        loop {
                            match stream.read(&mut buf).await {
                                Ok(0) | Err(_) => break,
                                Ok(n) => {
                                    let bad = buf[..n]
                                        .iter()
                                        .enumerate()
                                        .filter(|(i, b)| **b != payload_byte(key, off + *i as u64))
                                        .count() as u64;
                                    off += n as u64;
                                    let mut r = rep.lock().unwrap();
                                    r.ghost_bytes += n as u64;
                                    r.ghost_bad += bad;
                                }
                            }
                        }
                    }
                    .spawn();
                    continue;
                }
                let p = p.clone();
                let rep = rep.clone();
                let stall = p.server_op == ServerOp::Stall;
                let handler = async move {
                    rep.lock().unwrap().server_started = true;
                    let remaining = deadline.saturating_sub(bach::time::Instant::now().elapsed_since_start());
                    let timed_out = bach::time::timeout(remaining, server_flow(stream, &p, &rep)).await.is_err();
                    let mut r = rep.lock().unwrap();
                    r.deadline |= timed_out && !stall;
                    r.server_done = !timed_out;
                    r.ts = Some(bach_now_ms());
                };
                if stall {
                    // the simulation ends when the client has its answer (an error)
                    handler.spawn();
                } else {
                    handler.primary().spawn();
                }
            }
        }
        .group("server")
        .spawn();
    });

    let r = rep.lock().unwrap().clone();
    (r, adv)
}

fn run_tcp(p: Params) -> Report {
    let rep: Shared = Default::default();
    let rt = tokio::runtime::Builder::new_multi_thread()
        .worker_threads(2)
        .enable_all()
        .build()
        .expect("tokio runtime");
    let deadline = Duration::from_millis(p.deadline_ms);
    let rep2 = rep.clone();
    rt.block_on(async move {
        let rep = rep2;
        let server = Server::tcp().mtu(p.smtu).build();
        let client = Client::builder().mtu(p.mtu).build();
        let start = std::time::Instant::now();
        // forget_secret: the client opens the real stream only after the server dropped its state
        let forgot = Arc::new(tokio::sync::Notify::new());

        let server_task = {
            let server = server.clone();
            let p = p.clone();
            let rep = rep.clone();
            let forgot = forgot.clone();
            tokio::spawn(async move {
                let mut handlers = vec![];
                // the main stream is the first one, or the second one for forget_secret
                loop {
                    let Ok(Ok((mut stream, _addr))) = tokio::time::timeout(deadline, server.accept()).await else {
                        break;
                    };
                    let first = {
                        let mut r = rep.lock().unwrap();
                        r.accepted += 1;
                        r.accepted == 1
                    };
                    if p.server_op == ServerOp::ForgetSecret && first {
                        server.map().drop_state();
                        forgot.notify_one();
                        tokio::spawn(async move {
                            let mut sink = vec![];
                            let _ = stream.read_to_end(&mut sink).await;
                        });
                        continue;
                    }
                    let p = p.clone();
                    let rep = rep.clone();
                    handlers.push(tokio::spawn(async move {
                        rep.lock().unwrap().server_started = true;
                        let flow = async {
                            if p.server_op == ServerOp::Stall {
                                let mut stream = stream;
                                read_payload(&mut stream, key_c2s(p.seed), p.rchunk, None, &rep, Side::Server).await;
                                tokio::time::sleep(Duration::from_millis(p.idle_ms + 3000)).await;
                                drop(stream);
                            } else if p.server_op == ServerOp::Vanish {
                                // the peer application froze: hold the stream, do nothing
                                tokio::time::sleep(Duration::from_millis(p.idle_ms + 3000)).await;
                                drop(stream);
                            } else {
                                server_flow(stream, &p, &rep).await;
                            }
                        };
                        let remaining = deadline.saturating_sub(start.elapsed());
                        let timed_out = tokio::time::timeout(remaining, flow).await.is_err();
                        let mut r = rep.lock().unwrap();
                        r.deadline |= timed_out;
                        r.server_done = !timed_out;
                    }));
                    break;
                }
                for h in handlers {
                    let _ = h.await;
                }
            })
        };

        if p.server_op == ServerOp::ForgetSecret {
            match client.connect_to(&server).await {
                Ok(stream) => drop(stream),
                Err(e) => push_err(&rep, Side::Client, "connect0", &e),
            }
            let _ = tokio::time::timeout(Duration::from_secs(10), forgot.notified()).await;
        }
        let flow = async {
            match client.connect_to(&server).await {
                Ok(stream) => client_flow(stream, &p, &rep).await,
                Err(e) => push_err(&rep, Side::Client, "connect", &e),
            }
        };
        let timed_out = tokio::time::timeout(deadline, flow).await.is_err();
        let client_ms = start.elapsed().as_millis() as u64;
        {
            let mut r = rep.lock().unwrap();
            r.deadline |= timed_out;
            r.client_done = !timed_out;
            if matches!(p.server_op, ServerOp::Vanish | ServerOp::Stall | ServerOp::ForgetSecret) && client_ms > p.idle_ms + 2500 {
                r.late = true;
            }
        }
        // the server handler only exists when the stream was accepted
        let started = rep.lock().unwrap().server_started;
        if started || p.server_op != ServerOp::ForgetSecret {
            let remaining = deadline.saturating_sub(start.elapsed()) + Duration::from_millis(200);
            if tokio::time::timeout(remaining, server_task).await.is_err() {
                rep.lock().unwrap().deadline = true;
            }
        } else {
            server_task.abort();
        }
        drop(client);
        drop(server);
    });
    rt.shutdown_timeout(Duration::from_millis(500));
    let r = rep.lock().unwrap().clone();
    r
}

fn errs(v: &[String]) -> String {
    if v.is_empty() {
        "-".into()
    } else {
        v.join(",")
    }
}

fn opt(v: Option<u64>) -> String {
    v.map_or("-".to_string(), |x| x.to_string())
}

fn run(p: Params) -> String {
    let idle = scaffold_idle_ms();
    if p.tcp {
        let r = run_tcp(p);
        format!(
            "ok c2s={} s2c={} cerr={} serr={} tc=- ts=- end={} tend=- pkts=0 dropped=0 duped=0 delayed=0 accepted={} ghost=0:0:0 idle={} late={}",
            r.c2s.render(),
            r.s2c.render(),
            errs(&r.cerr),
            errs(&r.serr),
            if r.deadline { "deadline" } else { "done" },
            r.accepted,
            idle,
            r.late as u8,
        )
    } else {
        let (r, adv) = run_udp(p);
        let st = adv.state.lock().unwrap();
        let tend = r.tc.unwrap_or(0).max(r.ts.unwrap_or(0));
        format!(
            "ok c2s={} s2c={} cerr={} serr={} tc={} ts={} end={} tend={} pkts={} dropped={} duped={} delayed={} accepted={} ghost={}:{}:{} idle={} late=0",
            r.c2s.render(),
            r.s2c.render(),
            errs(&r.cerr),
            errs(&r.serr),
            opt(r.tc),
            opt(r.ts),
            if r.deadline { "deadline" } else { "done" },
            tend,
            st.pkts,
            st.dropped,
            st.duped,
            st.delayed,
            r.accepted,
            r.ghosts,
            r.ghost_bytes,
            r.ghost_bad,
            idle,
        )
    }
}

impl Component for Sim {
    fn step(&mut self, toks: &[&str]) -> String {
        let Some(p) = parse(toks) else {
            return "bad-op".into();
        };
        install_panic_hook();
        *LAST_PANIC.lock().unwrap() = None;
        // fresh thread: fresh bach runtime / tokio runtime / thread-locals per scenario
        let h = std::thread::Builder::new()
            .name("main".into())
            .stack_size(16 << 20)
            .spawn(move || run(p))
            .expect("spawn");
        let res = h.join();
        let loc = LAST_PANIC.lock().unwrap().take().unwrap_or_else(|| "-".into());
        match res {
            Ok(s) => format!("{s} panic={loc}"),
            Err(e) => {
                let msg = if let Some(s) = e.downcast_ref::<String>() {
                    s.clone()
                } else if let Some(s) = e.downcast_ref::<&str>() {
                    s.to_string()
                } else {
                    "?".to_string()
                };
                let msg: String = msg.chars().map(|c| if c.is_ascii_whitespace() { '_' } else { c }).take(160).collect();
                format!("panic {msg}@{loc}")
            }
        }
    }
}

