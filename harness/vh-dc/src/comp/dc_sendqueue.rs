//! `dc_sendqueue`: the REAL `s2n_quic_dc::stream::send::queue::Queue` (the application-side queue of sealed
//! packets waiting for the socket) filled through `Queue::push_buffer` / `Message::push` and flushed through
//! `Queue::poll_flush` against a SCRIPTED mock socket (`impl s2n_quic_dc::stream::socket::Socket`).
//!
//!   config <stream|dgram>          fresh queue, mock socket with TransportFeatures::TCP / ::UDP
//!                                  -> ok max_count=<msg::segment::MAX_COUNT> gso=<Gso::default().max_segments()>
//!   push <credit> <seg> [<seg>..]  ONE push_buffer call: the application buffer has <credit> bytes which the closure
//!   pusherr <credit> <seg> ..      consumes entirely, then pushes one segment per <seg> = <ecn>:<hex> | <ecn>:@<len>,<seed>
//!                                  (ecn 0..3 = NotEct Ect1 Ect0 Ce; segment length 1..=65535); `pusherr`: the closure
//!                                  returns Err after pushing -> ok acc=<accepted_len> q=<queue>
//!   flush <limit|max> <script>     ONE poll_flush; script = comma list answering the poll_send calls in order:
//!                                  a<n> (socket takes min(n, offered) bytes), A (takes all), p (Pending), e (error),
//!                                  eio (error with raw_os_error EIO); `-` = empty; exhausted script answers Pending
//!                                  -> ok <ready <credit>|pending|err> calls=<k> sent=<hex of the bytes the socket accepted>
//!                                        offered=<ecn>/<iovecs>:<bytes>;.. acc=<accepted_len> q=<queue> [gso=<n> in dgram mode]
//!   state                          -> ok acc=<accepted_len> q=<queue>
//!   <queue> = <ecn>:<buffer len>:<offset>,.. (from the Debug rendering of the Queue: the only public view) | -
use crate::{util::*, Component};
use core::task::{Context, Poll};
use s2n_quic_core::{
    buffer::reader::Storage as _,
    inet::ExplicitCongestionNotification as Ecn,
    time::NoopClock,
    varint::VarInt,
};
use s2n_quic_dc::{
    event,
    msg::{self, addr::Addr, cmsg},
    stream::{
        send::{
            application::{state::Message as _, transmission},
            buffer::Allocator,
            queue::Queue,
        },
        shared::Subscriber,
        socket::{Protocol, Socket},
        TransportFeatures,
    },
};
use s2n_quic_platform::features::Gso;
use std::{
    io::{self, IoSlice, IoSliceMut},
    net::SocketAddr,
    sync::{Arc, Mutex},
};

pub const NAMES: &[&str] = &["dc_sendqueue"];

pub fn make(name: &str) -> Option<Box<dyn Component>> {
    match name {
        "dc_sendqueue" => Some(Box::new(Sq::new(true))),
        _ => None,
    }
}

#[derive(Clone, Copy, Debug)]
enum Ans {
    Accept(usize),
    All,
    Pending,
    Error,
    Eio,
}

#[derive(Default)]
struct MockState {
    script: std::collections::VecDeque<Ans>,
    /// bytes accepted during the current flush
    sent: Vec<u8>,
    /// (ecn, iovec count, total bytes) per poll_send of the current flush
    offered: Vec<(u8, usize, usize)>,
}

struct Mock {
    stream: bool,
    st: Arc<Mutex<MockState>>,
}

impl Socket for Mock {
    fn local_addr(&self) -> io::Result<SocketAddr> {
        Ok("127.0.0.1:4433".parse().unwrap())
    }

    fn protocol(&self) -> Protocol {
        if self.stream {
            Protocol::Tcp
        } else {
            Protocol::Udp
        }
    }

    fn features(&self) -> TransportFeatures {
        if self.stream {
            TransportFeatures::TCP
        } else {
            TransportFeatures::UDP
        }
    }

    fn poll_peek_len(&self, _cx: &mut Context) -> Poll<io::Result<usize>> {
        Poll::Pending
    }

    fn poll_recv(&self, _cx: &mut Context, _addr: &mut Addr, _cmsg: &mut cmsg::Receiver, _buffer: &mut [IoSliceMut]) -> Poll<io::Result<usize>> {
        Poll::Pending
    }

    fn try_send(&self, _addr: &Addr, _ecn: Ecn, _buffer: &[IoSlice]) -> io::Result<usize> {
        Err(io::ErrorKind::WouldBlock.into())
    }

    fn poll_send(&self, _cx: &mut Context, _addr: &Addr, ecn: Ecn, buffer: &[IoSlice]) -> Poll<io::Result<usize>> {
        let mut st = self.st.lock().unwrap();
        let total: usize = buffer.iter().map(|b| b.len()).sum();
        st.offered.push((ecn as u8, buffer.len(), total));
        let ans = st.script.pop_front().unwrap_or(Ans::Pending);
        let take = |st: &mut MockState, n: usize| {
            let mut left = n;
            for b in buffer {
                let k = left.min(b.len());
                st.sent.extend_from_slice(&b[..k]);
                left -= k;
                if left == 0 {
                    break;
                }
            }
        };
        match ans {
            Ans::Accept(n) => {
                // a datagram socket takes the whole message or nothing
                let n = if self.stream { n.min(total) } else { total };
                take(&mut st, n);
                Poll::Ready(Ok(n))
            }
            Ans::All => {
                take(&mut st, total);
                Poll::Ready(Ok(total))
            }
            Ans::Pending => Poll::Pending,
            Ans::Error => Poll::Ready(Err(io::Error::new(io::ErrorKind::ConnectionReset, "scripted"))),
            Ans::Eio => Poll::Ready(Err(io::Error::from_raw_os_error(libc_eio()))),
        }
    }

    fn send_finish(&self) -> io::Result<()> {
        Ok(())
    }
}

fn libc_eio() -> i32 {
    5
}

pub struct Sq {
    stream: bool,
    queue: Queue,
    alloc: Allocator,
    gso: Gso,
    sock: Mock,
    st: Arc<Mutex<MockState>>,
    sub: Subscriber<event::disabled::Subscriber>,
    pn: u64,
}

fn ecn_of(n: u8) -> Option<Ecn> {
    Some(match n {
        0 => Ecn::NotEct,
        1 => Ecn::Ect1,
        2 => Ecn::Ect0,
        3 => Ecn::Ce,
        _ => return None,
    })
}

/// position-dependent filler shared with the Lean driver and the python generator
pub fn pattern(len: usize, seed: u64) -> Vec<u8> {
    (0..len as u64).map(|i| ((((seed + i) * 2654435761) >> 11) & 0xff) as u8).collect()
}

fn parse_seg(t: &str) -> Option<(Ecn, Vec<u8>)> {
    let (e, body) = t.split_once(':')?;
    let ecn = ecn_of(num::<u8>(e)?)?;
    let bytes = if let Some(spec) = body.strip_prefix('@') {
        let (l, s) = spec.split_once(',')?;
        let len: usize = num(l)?;
        let seed: u64 = num(s)?;
        if seed >= 1 << 31 || len > 65535 {
            return None;
        }
        pattern(len, seed)
    } else {
        unhex(body)?
    };
    if bytes.is_empty() || bytes.len() > 65535 {
        return None;
    }
    Some((ecn, bytes))
}

fn parse_script(t: &str) -> Option<Vec<Ans>> {
    if t == "-" {
        return Some(vec![]);
    }
    t.split(',')
        .map(|a| match a {
            "A" => Some(Ans::All),
            "p" => Some(Ans::Pending),
            "e" => Some(Ans::Error),
            "eio" => Some(Ans::Eio),
            _ => {
                let n: usize = num(a.strip_prefix('a')?)?;
                if n > 1 << 40 {
                    return None;
                }
                Some(Ans::Accept(n))
            }
        })
        .collect()
}

impl Sq {
    fn new(stream: bool) -> Self {
        let st = Arc::new(Mutex::new(MockState::default()));
        Sq {
            stream,
            queue: Queue::default(),
            alloc: Allocator::default(),
            gso: Gso::default(),
            sock: Mock { stream, st: st.clone() },
            st,
            sub: Subscriber { subscriber: event::disabled::Subscriber::default(), context: () },
            pn: 0,
        }
    }

    /// `Queue` and `Segment` derive Debug: `Segment { ecn: Ect0, buffer: buffer::Segment { len: 5 }, offset: 2 }`
    fn render(&self) -> String {
        let d = format!("{:?}", self.queue);
        let mut out = vec![];
        for part in d.split("Segment { ecn: ").skip(1) {
            let ecn = match part.split(',').next().unwrap_or("?") {
                "NotEct" => 0,
                "Ect1" => 1,
                "Ect0" => 2,
                "Ce" => 3,
                _ => 9,
            };
            let len: String = part.split("len: ").nth(1).unwrap_or("?").chars().take_while(|c| c.is_ascii_digit()).collect();
            let off: String = part.split("offset: ").nth(1).unwrap_or("?").chars().take_while(|c| c.is_ascii_digit()).collect();
            out.push(format!("{ecn}:{len}:{off}"));
        }
        let q = if out.is_empty() { "-".to_string() } else { out.join(",") };
        // cross-check the public accessors against the rendering
        assert_eq!(self.queue.is_empty(), out.is_empty(), "is_empty() disagrees with the Debug rendering");
        format!("acc={} q={}", self.queue.accepted_len(), q)
    }

    fn push(&mut self, credit: usize, segs: Vec<(Ecn, Vec<u8>)>, fail: bool) -> String {
        let app = vec![0u8; credit];
        let mut buf: &[u8] = &app[..];
        let mut batch = None;
        let max_segments = self.gso.max_segments();
        let pn = &mut self.pn;
        let r: Result<(), ()> = self.queue.push_buffer(&mut buf, &mut batch, max_segments, &self.alloc, |message, buf| {
            // the application bytes this call accepts
            let mut left = credit;
            while left > 0 {
                let chunk = buf.read_chunk(left).map_err(|_| ())?;
                if chunk.is_empty() {
                    break;
                }
                left -= chunk.len();
            }
            for (ecn, bytes) in &segs {
                *pn += 1;
                let packet_number = VarInt::new(*pn).unwrap();
                message.push(bytes.len(), |slice| {
                    slice[..bytes.len()].copy_from_slice(bytes);
                    transmission::Event {
                        packet_number,
                        info: transmission::Info {
                            packet_len: bytes.len() as u16,
                            retransmission: None,
                            stream_offset: VarInt::ZERO,
                            payload_len: 0,
                            included_fin: false,
                            time_sent: unsafe { s2n_quic_core::time::Timestamp::from_duration(core::time::Duration::from_micros(1)) },
                            ecn: *ecn,
                        },
                        has_more_app_data: false,
                    }
                });
            }
            if fail {
                Err(())
            } else {
                Ok(())
            }
        });
        if r.is_err() != fail {
            return "err push-result".into();
        }
        format!("ok {}", self.render())
    }

    fn flush(&mut self, limit: usize, script: Vec<Ans>) -> String {
        {
            let mut st = self.st.lock().unwrap();
            st.script = script.into();
            st.sent.clear();
            st.offered.clear();
        }
        let waker = s2n_quic_core::task::waker::noop();
        let mut cx = Context::from_waker(&waker);
        let addr = Addr::new(Default::default());
        let r = self.queue.poll_flush(&mut cx, limit, &self.sock, &addr, &self.alloc, &self.gso, &NoopClock, &self.sub);
        let res = match r {
            Poll::Ready(Ok(n)) => format!("ready {n}"),
            Poll::Ready(Err(_)) => "err".to_string(),
            Poll::Pending => "pending".to_string(),
        };
        let st = self.st.lock().unwrap();
        let offered = if st.offered.is_empty() {
            "-".to_string()
        } else {
            st.offered.iter().map(|(e, c, l)| format!("{e}/{c}:{l}")).collect::<Vec<_>>().join(";")
        };
        let mut s = format!("ok {res} calls={} sent={} offered={} {}", st.offered.len(), hex(&st.sent), offered, self.render());
        if !self.stream {
            s.push_str(&format!(" gso={}", self.gso.max_segments()));
        }
        s
    }
}

impl Component for Sq {
    fn step(&mut self, toks: &[&str]) -> String {
        match toks {
            ["config", m @ ("stream" | "dgram")] => {
                *self = Sq::new(*m == "stream");
                format!("ok max_count={} gso={}", msg::segment::MAX_COUNT, self.gso.max_segments())
            }
            [op @ ("push" | "pusherr"), credit, segs @ ..] if !segs.is_empty() => {
                let Some(credit) = num::<usize>(credit) else { return "bad-op".into() };
                if credit > 1 << 20 {
                    return "bad-op".into();
                }
                let Some(segs) = segs.iter().map(|s| parse_seg(s)).collect::<Option<Vec<_>>>() else { return "bad-op".into() };
                self.push(credit, segs, *op == "pusherr")
            }
            ["flush", limit, script] => {
                let limit = if *limit == "max" {
                    usize::MAX
                } else {
                    match num::<usize>(limit) {
                        Some(l) if l <= 1 << 40 => l,
                        _ => return "bad-op".into(),
                    }
                };
                let Some(script) = parse_script(script) else { return "bad-op".into() };
                self.flush(limit, script)
            }
            ["state"] => format!("ok {}", self.render()),
            _ => "bad-op".into(),
        }
    }
}
